"""C20 — array indexing equals NumPy indexing.

Model:    lean/DaskModel/Model/Slice1D.lean (Python slice semantics, normalize_slice, _slice_1d, new_blockdim)
Theorems: lean/DaskModel/Props/C20.lean
Tie:      function level  normalize_slice / _slice_1d / new_blockdim / posify+check_index vs the Lean model,
                          with the statement's clauses evaluated on the real output;
          API level       x[idx].compute() vs NumPy and vs the Lean specification (pySliceIdx per axis),
                          lazy shape/chunks vs the computed blocks.
"""
from __future__ import annotations

import itertools

from sexp import Sym

from props._slicing_util import (canon_slice, compositions, dec_slice, enc_slice, random_chunks, slice_steps,
                                 slice_values, unsym)
from props import _c20x
from props import _c20xm

PROP = "C20"
READY = True
DRIVER = "dm_slicing"
LEAN_MODULES = ["DaskModel.Props.C20", "DaskModel.Props.C20Cache", "DaskModel.Props.C20x", "DaskModel.Props.C20xMask"]
TABLES = ["ChunkTolerance"]   # array.chunk-size-tolerance (dask.yaml), used by the take/_shuffle regrouping model
CASE_TIMEOUT_S = 20
LEVEL_TEXT = (
    "Lean 4 theorems (no size bound) over transliterations of the anchored path of Array.__getitem__. One axis: "
    "normalize_slice keeps Python's selection and yields the normal form _slice_1d needs; the plan of _slice_1d "
    "(integer, positive- and negative-step loops with the bisect shortcuts), read in output-block order, is exactly "
    "range(*s.indices(n)) for every chunk list incl. zero-length chunks (slice1d_correct, getitem1d_correct); "
    "new_blockdim reports the sizes of those pieces (newBlockdim_correct); integers address the right block/offset. "
    "N-d: the graph of slice_slices_and_integers (three itertools.products zipped) has exactly one task per "
    "combination of per-axis (output coordinate, block, in-block index) pairs (sliceND_tasks), and the block at "
    "output coordinate o reads the stretch of NumPy's selection at the offset the lazy chunks assign to o "
    "(sliceND_axis_slice/_int) — so x[s1,…,sn] is the per-axis product, chunk by chunk. normalize_index "
    "(Ellipsis, padding, np.newaxis, bool masks -> nonzero) returns one non-None entry per axis, no Ellipsis, all "
    "newaxes kept (normalize_index_spec, mask_nonzero_den). take: the no-op shortcut fires exactly for the full "
    "arange, regrouping keeps the indexer (take_den). vindex: grouping the points by (output block, input blocks) "
    "loses/duplicates none, point i lands at block i/M index i%M and is read at in-block indices that address its "
    "own coordinates (vindex_den). blocks[] / partitions[] (BlockView.__getitem__): whenever the index is accepted "
    "the graph maps product(range(len(sel))…), in that order, onto itertools.product of the per-axis selections of "
    "block numbers (Python's selection of range(numblocks) for slices, [i mod nb] for integers, the one list itself), "
    "the chunks are the selected entries of .chunks, every selected block exists, no axis is left empty; None and a "
    "second list are rejected (blocks_den, blocks_axis_int, blocks_no_empty_axis, blocks_rejects). 1-d dask integer-"
    "array index along one axis (slice_with_int_dask_array_on_axis + both chunk functions: per-block offsets, "
    "idx - offset filtering, the cumsum re-ordering of the aggregation): for every chunking of the axis and of the "
    "index, entries in [-n, n), one output chunk per index chunk and output position p reads global element idx[p] "
    "(int_dask_index_den, _flat); it raises exactly when an entry is out of bounds (int_dask_index_raises_iff; the "
    "bounds check is the repair 4ddbb82, shown necessary by int_dask_index_needs_bounds_check). Validated against "
    "NumPy only: the per-source-block split / argsort / merge inside _shuffle, slice_with_bool_dask_array, blockwise's "
    "pairing of blocks in the dask-integer-index path, full-shape masks, and NumPy's "
    "behaviour on one block. Histories on ONE Array object: the cached attributes "
    "(_cached_keys, _key_array, numblocks, npartitions, shape, ndim, size) are modelled as a state machine (ArrayCache: "
    "setters and cached reads of class Array); for every history of cached reads, __setitem__-style and out=-style "
    "in-place mutations and block-count-preserving _chunks assignments every read returns what a fresh array with the "
    "current name and chunks returns (history_reads_fresh; the invalidation in the _name setter is shown necessary); the "
    "machine is diffed step by step (answers and WHICH caches are filled) against real Array objects, and API-level "
    "histories (.blocks/.partitions/keys/to_delayed/vindex/getitem around x[i]=v, out=x, compute_chunk_sizes) are "
    "compared with NumPy with the invariant evaluated on the object after every step."
)
LEVEL_NOTE = (
    "Trusted: Lean kernel; the hand-written models Slice1D / SliceND / NormIndex / Take / VIndex / BlockView / "
    "IntDaskIndex, each diffed on "
    "every run against the real function at function level (_slice_1d, new_blockdim, normalize_slice, "
    "normalize_index, slice_slices_and_integers incl. key order and blockdims, take, the slice/merge tasks of "
    "_vindex_array, BlockView.__getitem__ chunks and graph in dict order, chunk.slice_with_int_dask_array on "
    "position-valued blocks, chunk.slice_with_int_dask_array_aggregate on arbitrary chunk_outputs, the offset array "
    "and every computed output block of slice_with_int_dask_array_on_axis) — exhaustively for all slices with start/stop in [-n-2,n+2], step in ±{1,2,3,n} over all chunkings "
    "of n<=6 in the thorough tier, sampled in quick; CPython slice/range semantics as transliterated in "
    "pyIndices/pyRange (diffed against slice.indices/range); NumPy getitem on one block; np.ravel_multi_index / "
    "np.argsort group the vindex points by key (the model groups by key directly)."
)
TECHNIQUE = "Lean 4 proof (induction over the chunk list, index maps) + differential correspondence with dask/array/slicing.py and NumPy"
ASSUMPTIONS = [
    "seq[s] == [seq[i] for i in range(*s.indices(len(seq)))] (Python data model) — pyIndices/pyRange are diffed against slice.indices/range",
    "bisect.bisect_left/right and np.searchsorted(side='right') on the non-decreasing cumulative sums = number of leading elements < / <= x",
    "NumPy getitem on one block with a tuple of slices/ints/one integer list is the per-axis product of 1-d selections",
    "math.ceil((1.0*stop-start)/step) is exact for the (small) block extents involved",
    "np.unravel_index(np.ravel_multi_index(t, shape), shape) == t, and argsort of the ravelled keys lists equal keys contiguously (vindex grouping)",
    "_vindex_merge places values[k][j] at locations[k][j]; concatenate3 assembles blocks by their coordinates",
    "NumPy indexing of the key grid by slices and at most one integer list is the outer product of the per-axis selections (BlockView)",
    "blockwise pairs every block of x with every chunk of the dask index and the block's own offset, and concatenate=True joins the per-block outputs in block order along the axis",
]
TRUSTED = ["dask.array.chunk.getitem / NumPy basic indexing on a single block"]


# --------------------------------------------------------------------------------------
# helpers
# --------------------------------------------------------------------------------------

def _mk_slice(t):
    return slice(*t)


def _cum_before(lengths):
    out, acc = [], 0
    for l in lengths:
        out.append(acc)
        acc += l
    return out


def _plan_positions(lengths, s, d):
    """Global positions read by the real `_slice_1d` plan, block by block in output order."""
    items = sorted(d.items())
    if s.step is not None and s.step < 0:
        items.reverse()
    cb = _cum_before(lengths)
    pos = []
    for k, sl in items:
        if not (0 <= k < len(lengths)):
            return None
        if isinstance(sl, slice):
            pos.extend(cb[k] + p for p in range(*sl.indices(lengths[k])))
        else:
            pos.append(cb[k] + sl)
    return pos, items


# --------------------------------------------------------------------------------------
# function level
# --------------------------------------------------------------------------------------

def case_pyslice(ctx, inp):
    """The Lean transliteration of Python's own slice semantics vs CPython."""
    n, s = inp["n"], _mk_slice(inp["s"])
    try:
        impl = [Sym("ok")] + [int(v) for v in s.indices(n)]
        rng = [Sym("ok"), list(range(*s.indices(n)))]
    except ValueError:
        impl = rng = [Sym("raised")]
    ctx.eq("slice.indices", ctx.lean(Sym("pyindices"), n, enc_slice(s)), impl)
    ctx.eq("range(*slice.indices)", ctx.lean(Sym("pyslice"), n, enc_slice(s)), rng)
    if s.step not in (None, 0):
        a = inp.get("a", 0)
        ctx.eq("python %", ctx.lean(Sym("pymod"), a, s.step), a % s.step)
    if s.step is not None and s.step < 0:
        ctx.branch("pyslice-negstep")


def case_norm(ctx, inp):
    from dask.array.slicing import normalize_slice
    n, s = inp["n"], _mk_slice(inp["s"])
    try:
        r = normalize_slice(s, n)
        impl = [Sym("ok"), canon_slice(r)]
    except ValueError:
        r = None
        impl = [Sym("raised")]
    ctx.eq("normalize_slice", unsym(ctx.lean(Sym("normslice"), enc_slice(s), n)), unsym(impl))
    if r is not None:
        # clause of the statement: normalisation selects what Python selects
        if list(range(*r.indices(n))) != list(range(*s.indices(n))):
            ctx.fail("normalize_slice changes the selection", observed=[canon_slice(r), list(range(*r.indices(n)))],
                     expected=list(range(*s.indices(n))))
        st = s.indices(n)
        if st[2] < 0:
            ctx.branch("norm-negstep")
            if st[0] < 0:
                ctx.branch("norm-clipped-start")
        if r == slice(None, None, None):
            ctx.branch("norm-colon")
    elif s.step != 0:
        ctx.fail("normalize_slice raised on a valid slice", observed="ValueError")


def case_slice1d(ctx, inp):
    """_slice_1d / new_blockdim on a normalised slice: model diff + the plan reads exactly Python's selection."""
    from dask.array.slicing import _slice_1d, new_blockdim, normalize_slice
    lengths, s0 = list(inp["lengths"]), _mk_slice(inp["s"])
    n = sum(lengths)
    raw = inp.get("raw", False)
    s = s0 if raw else normalize_slice(s0, n)
    d = _slice_1d(n, lengths, s)
    impl = [[int(k), canon_slice(v)] for k, v in d.items()]
    model = unsym(ctx.lean(Sym("slice1d"), n, lengths, enc_slice(s)))
    ctx.eq("_slice_1d", model, impl)
    if raw:
        ctx.branch("raw-unnormalised")
        return
    nb = [int(v) for v in new_blockdim(n, lengths, s)]
    ctx.eq("new_blockdim", unsym(ctx.lean(Sym("newblockdim"), n, lengths, enc_slice(s))), ["ok", nb])
    expected = list(range(*s0.indices(n)))
    got = _plan_positions(lengths, s, d)
    if got is None:
        ctx.fail("_slice_1d names a block that does not exist", observed=impl)
        return
    pos, items = got
    if pos != expected:
        ctx.fail("_slice_1d plan does not read Python's selection", observed=pos, expected=expected)
    sizes = [len(range(*sl.indices(lengths[k]))) for k, sl in items]
    if nb != sizes:
        ctx.fail("new_blockdim differs from the sizes of the planned pieces", observed=nb, expected=sizes)
    if sum(nb) != len(expected):
        ctx.fail("new_blockdim does not sum to the selection length", observed=nb, expected=len(expected))
    if len(expected) and 0 in nb:
        ctx.branch("empty-piece-kept")   # harmless: an empty in-block slice is kept as a zero-length output block
    ctx.eq("planden", unsym(ctx.lean(Sym("planden"), lengths, enc_slice(s0))), ["ok", expected, canon_slice(s)])
    # measured branches
    step = s.step or 1
    if len(d) > 1:
        ctx.branch("multi-block-" + ("neg" if step < 0 else "pos"))
    elif step < 0 and expected:
        ctx.branch("one-block-neg")
    if not expected:
        ctx.branch("empty-selection")
    if 0 in lengths and n:
        ctx.branch("zero-length-chunk")
    if abs(step) > 1 and len(d) > 1:
        ctx.branch("strided-across-blocks")
    if any(v == slice(None) for v in d.values()) and s != slice(None):
        ctx.branch("tidied-to-colon")
    if len(d) < len([l for l in lengths if l]) and expected:
        ctx.branch("blocks-skipped")


def case_slice1dint(ctx, inp):
    from dask.array.slicing import _slice_1d, check_index, posify_index
    lengths, i = list(inp["lengths"]), inp["i"]
    n = sum(lengths)
    try:
        check_index(0, i, n)
        p = posify_index(n, i)
        impl = ["ok", int(p)]
    except IndexError:
        p = None
        impl = ["raised"]
    ctx.eq("check_index/posify_index", unsym(ctx.lean(Sym("posify"), n, i)), impl)
    if (-n <= i < n) != (p is not None):
        ctx.fail("check_index bound wrong", observed=impl, expected=-n <= i < n)
    if p is None:
        ctx.branch("int-out-of-bounds")
        return
    d = _slice_1d(n, lengths, p)
    (k, ind), = d.items()
    ctx.eq("_slice_1d(int)", unsym(ctx.lean(Sym("slice1dint"), lengths, p)), ["ok", int(k), int(ind)])
    cb = _cum_before(lengths)
    if not (0 <= k < len(lengths) and 0 <= ind < lengths[k] and cb[k] + ind == i % n):
        ctx.fail("_slice_1d(int) does not address the requested element", observed=[int(k), int(ind)], expected=i % n)
    if i < 0:
        ctx.branch("int-negative")
    if k > 0:
        ctx.branch("int-later-block")


def case_slicend(ctx, inp):
    """slice_slices_and_integers on a normalised N-d index of slices and integers: the tasks (out key -> in key,
    per-axis block index) and the new blockdims vs the Lean model `SliceND.tasks` / `newBlockdims`; the real graph
    executed block by block on NumPy and assembled with the declared blockdims = NumPy's x[index]."""
    import numpy as np
    from dask.array.slicing import normalize_index, slice_slices_and_integers
    chunks = [list(c) for c in inp["chunks"]]
    shape = tuple(sum(c) for c in chunks)
    raw = tuple(slice(*v) if k == "slice" else int(v) for k, v in inp["index"])
    index = normalize_index(raw, shape)
    dsk, bd = slice_slices_and_integers("out", "in", tuple(tuple(c) for c in chunks), index, bool(inp.get("opt")))
    enc = [[Sym("sl"), enc_slice(i)] if isinstance(i, slice) else [Sym("int"), int(i)] for i in index]
    model = unsym(ctx.lean(Sym("slicend"), chunks, enc))
    impl_tasks = []
    for key, t in dsk.items():
        if hasattr(t, "args"):
            in_key, sl = t.args[0].key, t.args[1]
        else:                      # Alias (allow_getitem_optimization): the block itself
            in_key, sl = t.target.key if hasattr(t.target, "key") else t.target, tuple(slice(None) for _ in chunks)
        impl_tasks.append([[int(v) for v in key[1:]], [int(v) for v in in_key[1:]],
                           [["sl", canon_slice(b)] if isinstance(b, slice) else ["int", int(b)] for b in sl]])
    ctx.eq("slice_slices_and_integers", model, ["ok", impl_tasks, [[int(v) for v in b] for b in bd]])
    # property oracle on the real graph
    x = np.arange(int(np.prod(shape))).reshape(shape) * 3 + 1
    exp = x[raw]
    if tuple(sum(b) for b in bd) != exp.shape:
        ctx.fail("new blockdims do not sum to NumPy's result shape", observed=[list(b) for b in bd], expected=list(exp.shape))
        return
    out = np.full(exp.shape, -1)
    offs = [[sum(b[:i]) for i in range(len(b))] for b in bd]
    cb = [_cum_before(c) for c in chunks]
    seen = set()
    for okey, ikey, sl in impl_tasks:
        blk = x[tuple(slice(cb[a][k], cb[a][k] + chunks[a][k]) for a, k in enumerate(ikey))]
        piece = blk[tuple(slice(*v) if kind == "sl" else v for kind, v in sl)]
        if tuple(okey) in seen or any(o >= len(b) for o, b in zip(okey, bd)):
            ctx.fail("output key duplicated or outside the declared block grid", observed=okey)
            return
        seen.add(tuple(okey))
        want = tuple(bd[a][o] for a, o in enumerate(okey))
        if piece.shape != want:
            ctx.fail("computed block shape differs from the declared chunks", observed=[okey, list(piece.shape)], expected=list(want))
            return
        out[tuple(slice(offs[a][o], offs[a][o] + bd[a][o]) for a, o in enumerate(okey))] = piece
    nblocks = 1
    for b in bd:
        nblocks *= len(b)
    if len(seen) != nblocks:
        ctx.fail("the graph does not have one task per output block", observed=len(seen), expected=nblocks)
        return
    if (out != exp).any():
        ctx.fail("the graph of slice_slices_and_integers does not assemble to NumPy's x[index]", observed=out.tolist(),
                 expected=exp.tolist())
    ctx.branch("slicend-%dd" % len(chunks))
    if any(k == "int" for k, _ in inp["index"]):
        ctx.branch("slicend-int-axis")
    if sum(1 for k, v in inp["index"] if k == "slice" and (v[2] or 1) < 0) >= 2:
        ctx.branch("slicend-two-negative-steps")
    if any(k == "slice" and (v[2] or 1) < 0 for k, v in inp["index"]) and len(impl_tasks) > 1:
        ctx.branch("slicend-negstep-multiblock")
    if inp.get("opt"):
        ctx.branch("slicend-getitem-optimization")


def case_normidx(ctx, inp):
    """normalize_index (replace_ellipsis, padding with colons, check_index, normalize_slice, posify) on a basic /
    integer-list index: entry by entry against the Lean per-axis functions, errors as NumPy raises them."""
    import numpy as np
    from dask.array.slicing import normalize_index
    shape = tuple(inp["shape"])
    idx = _to_index(inp["index"])
    x = np.zeros(shape, dtype="i1")
    try:
        x[idx]
        np_ok = True
    except IndexError:
        np_ok = False
    try:
        out = normalize_index(idx, shape)
    except IndexError:
        if np_ok:
            ctx.fail("normalize_index raised IndexError for an index NumPy accepts", observed=inp["index"])
        else:
            ctx.branch("normidx-rejected")
        return
    if not np_ok:
        ctx.fail("normalize_index accepted an index NumPy rejects", observed=[repr(o)[:40] for o in out])
        return
    # the whole result against the Lean model `NormIndex.normalizeIndex`
    def _enc(k, v):
        if k == "slice":
            return [Sym("sl"), v]
        if k == "int":
            return [Sym("int"), int(v)]
        if k == "none":
            return [Sym("newaxis")]
        if k == "ellipsis":
            return [Sym("ellipsis")]
        if k == "bool":
            return [Sym("mask"), [bool(t) for t in v]]
        return [Sym("lst"), [int(t) for t in v]]

    def _dec(o):
        if o is None:
            return ["newaxis"]
        if isinstance(o, slice):
            return ["sl", canon_slice(o)]
        if isinstance(o, (int, np.integer)):
            return ["int", int(o)]
        return ["lst", [int(t) for t in np.asarray(o).tolist()]]

    if all(k in ("slice", "int", "none", "ellipsis", "bool") or (k == "list" and v) for k, v in inp["index"]):
        model = unsym(ctx.lean(Sym("normindex"), list(shape), [_enc(k, v) for k, v in inp["index"]]))
        ctx.eq("normalize_index (whole result)", model, ["ok", [_dec(o) for o in out]])
        ctx.branch("normidx-model-diffed")
    # reference expansion: Ellipsis -> colons, pad with colons
    kinds = inp["index"]
    nreal = sum(1 for k, _ in kinds if k not in ("none", "ellipsis"))
    full = []
    for k, v in kinds:
        if k == "ellipsis":
            full += [("slice", [None, None, None])] * (len(shape) - nreal)
        else:
            full.append((k, v))
    full += [("slice", [None, None, None])] * (len(shape) - sum(1 for k, _ in full if k != "none"))
    if len(out) != len(full):
        ctx.fail("normalize_index: wrong number of entries", observed=len(out), expected=len(full))
        return
    ax = 0
    for (k, v), o in zip(full, out):
        if k == "none":
            if o is not None:
                ctx.fail("normalize_index moved a np.newaxis", observed=repr(o)[:40])
                return
            continue
        n = shape[ax]
        ax += 1
        if k == "slice":
            want = unsym(ctx.lean(Sym("normslice"), v, n))
            ctx.eq("normalize_index slice entry", want, ["ok", canon_slice(o)] if isinstance(o, slice) else ["other", repr(o)[:30]])
        elif k == "int":
            want = unsym(ctx.lean(Sym("posify"), n, v))
            ctx.eq("normalize_index int entry", want, ["ok", int(o)] if isinstance(o, (int, np.integer)) else ["other", repr(o)[:30]])
        else:
            exp = [j for j, t in enumerate(v) if t] if k == "bool" else [i + n if i < 0 else i for i in v]
            got = np.asarray(o).tolist() if hasattr(o, "tolist") or isinstance(o, list) else None
            if got != exp:
                ctx.fail("normalize_index: integer list not posified", observed=got, expected=exp)
                return
    ctx.branch("normidx")
    for k in set(k for k, _ in kinds):
        ctx.branch("normidx-" + k)


def near_identity(rng, n):
    """Integer indexers close to the identity `arange(n)` — where `take`'s no-op shortcut must NOT fire
    (and the identity itself, where it must)."""
    base = list(range(n))
    if n == 0:
        return []
    t = rng.randrange(9)
    if t == 0:
        return base
    if t == 1:      # sorted, full length, one entry duplicated (both endpoints kept when n > 2)
        idx = base[:]
        if n > 1:
            j = rng.randrange(1, n) if n > 2 else 1
            idx[j - 1 if j == n - 1 and n > 2 else j] = idx[j - 1] if not (j == n - 1 and n > 2) else idx[j]
            idx = sorted(idx)
        return idx
    if t == 2:      # any sorted full-length indexer containing 0 and n-1
        idx = sorted([0, n - 1] + [rng.randrange(n) for _ in range(max(n - 2, 0))])[:max(n, 1)]
        return idx if len(idx) == n else base
    if t == 3:      # permutation
        idx = base[:]
        rng.shuffle(idx)
        return idx
    if t == 4:      # arange with one element replaced
        idx = base[:]
        idx[rng.randrange(n)] = rng.randrange(n)
        return idx
    if t == 5:      # two neighbours swapped
        idx = base[:]
        if n > 1:
            j = rng.randrange(n - 1)
            idx[j], idx[j + 1] = idx[j + 1], idx[j]
        return idx
    if t == 6:      # arange given with negative numbers / reversed
        return [i - n for i in base] if rng.random() < 0.5 else base[::-1]
    if t == 7:      # full arange plus / minus one element
        return base + [n - 1] if rng.random() < 0.5 else base[:-1] or base
    return sorted(rng.randrange(n) for _ in range(n))   # sorted, full length, arbitrary duplicates


def _sorted_full_length(n):
    return [list(c) for c in itertools.combinations_with_replacement(range(n), n)]


def case_take(ctx, inp):
    """`take` (integer-list indexing along one axis): the no-op decision and the output chunks vs the model,
    and the real graph executed on position-valued blocks vs np.take."""
    import numpy as np
    from dask._task_spec import Alias, DataNode
    from dask.array.slicing import take
    from dask.local import get_sync
    chunks = tuple(tuple(c) for c in inp["chunks"])
    axis = inp["axis"]
    n = sum(chunks[axis])
    idx = [i + n if i < 0 else i for i in inp["index"]]
    shape = tuple(sum(c) for c in chunks)
    x = np.arange(int(np.prod(shape))).reshape(shape) * 3 + 1
    out_chunks, dsk = take("y-verif", "x", chunks, np.array(idx, dtype=int), axis=axis)
    identity = bool(dsk) and all(isinstance(v, Alias) for v in dsk.values())
    model = unsym(ctx.lean(Sym("takeplan"), list(chunks[axis]), idx))
    if model[0] == "identity":
        ctx.eq("take: no-op shortcut taken", True, identity)
        ctx.branch("take-identity")
    else:
        ctx.eq("take: no-op shortcut taken", False, identity)
        ctx.eq("take: output chunks along the axis", model[1], [int(c) for c in out_chunks[axis]])
    # run the real graph on the real blocks
    graph = dict(dsk)
    cum = [np.cumsum((0,) + c) for c in chunks]
    for coords in itertools.product(*[range(len(c)) for c in chunks]):
        sl = tuple(slice(cum[a][b], cum[a][b + 1]) for a, b in enumerate(coords))
        graph[("x",) + coords] = DataNode(("x",) + coords, x[sl])
    keys = [("y-verif",) + c for c in itertools.product(*[range(len(c)) for c in out_chunks])]
    vals = get_sync(graph, keys)
    exp = np.take(x, idx, axis=axis)
    ocum = [np.cumsum((0,) + tuple(c)) for c in out_chunks]
    got = np.full(exp.shape, -1) if tuple(sum(c) for c in out_chunks) == exp.shape else None
    if got is None:
        ctx.fail("take: output chunks do not add up to the result shape", observed=[list(c) for c in out_chunks],
                 expected=list(exp.shape))
        return
    for k, v in zip(keys, vals):
        sl = tuple(slice(ocum[a][b], ocum[a][b + 1]) for a, b in enumerate(k[1:]))
        v = np.asarray(v)
        if v.shape != got[sl].shape:
            ctx.fail("take: block shape differs from the declared chunks", observed=[list(k[1:]), list(v.shape)])
            return
        got[sl] = v
    if (got != exp).any():
        ctx.fail("take plan does not read index[p] at output position p", observed=np.moveaxis(got, axis, 0).tolist(),
                 expected=np.moveaxis(exp, axis, 0).tolist())
    if len(idx) == n and not identity:
        ctx.branch("take-full-length-not-identity")
        if idx == sorted(idx):
            ctx.branch("take-full-length-sorted-with-duplicates")
    if idx != sorted(idx):
        ctx.branch("take-unsorted")
    if len(set(idx)) < len(idx):
        ctx.branch("take-duplicates")
    if len(out_chunks[axis]) > 1:
        ctx.branch("take-multi-output-chunk")
    if len(chunks) > 1:
        ctx.branch("take-nd")


# --------------------------------------------------------------------------------------
# API level
# --------------------------------------------------------------------------------------

def _blocks_agree(ctx, r, what):
    """Lazy chunks vs the computed blocks."""
    import numpy as np
    for idx in itertools.product(*[range(len(c)) for c in r.chunks]):
        b = np.asarray(r.blocks[idx].compute(scheduler="sync"))
        want = tuple(c[i] for c, i in zip(r.chunks, idx))
        if b.shape != want:
            ctx.fail(what + ": computed block shape differs from the lazy chunks", observed=[list(idx), list(b.shape)],
                     expected=list(want))
            return False
    return True


def case_api1d(ctx, inp):
    import numpy as np
    import dask.array as da
    lengths, s = tuple(inp["lengths"]), _mk_slice(inp["s"])
    n = sum(lengths)
    x = np.arange(n) * 7 + 1
    d = da.from_array(x, chunks=(lengths,))
    exp = x[s]
    try:
        r = d[s]
        got = r.compute(scheduler="sync")
    except Exception as e:  # indexing a 1-d array with a valid slice never raises in NumPy
        ctx.fail("x[slice] raised " + type(e).__name__, observed=repr(e)[:200])
        return
    if got.shape != exp.shape or (got != exp).any():
        ctx.fail("x[slice].compute() differs from NumPy", observed=got.tolist(), expected=exp.tolist())
    if tuple(r.shape) != exp.shape:
        ctx.fail("lazy shape differs from NumPy's", observed=list(r.shape), expected=list(exp.shape))
    _blocks_agree(ctx, r, "x[slice]")
    spec = unsym(ctx.lean(Sym("pyslice"), n, enc_slice(s)))
    ctx.eq("Lean spec vs NumPy", [int(x[p]) for p in spec[1]], exp.tolist())
    if r.name != d.name:
        ns = unsym(ctx.lean(Sym("normslice"), enc_slice(s), n))[1]
        nb = unsym(ctx.lean(Sym("newblockdim"), n, list(lengths), ns))
        ctx.eq("lazy chunks vs model new_blockdim", nb, ["ok", [int(c) for c in r.chunks[0]]])
    if len(r.chunks[0]) > 1:
        ctx.branch("api1d-multiblock" + ("-neg" if (s.step or 1) < 0 else ""))


def _rand_index_1ax(rng, n, allow):
    kind = rng.choice(allow)
    if kind == "slice":
        v = [None] + list(range(-n - 2, n + 3))
        return slice(rng.choice(v), rng.choice(v), rng.choice([None, 1, 2, 3, -1, -2, -3, max(n, 1), -max(n, 1)])), kind
    if kind == "int":
        return rng.randrange(-n, n), kind
    if kind == "list":
        if n and rng.random() < 0.5:
            return near_identity(rng, n), kind
        k = rng.randint(0, n + 2) if n else 0
        style = rng.random()
        idx = [rng.randrange(-n, n) for _ in range(k)]
        if style < 0.3 and n:
            idx = sorted(i % n for i in idx)
        return idx, kind
    if kind == "bool":
        return [rng.random() < 0.5 for _ in range(n)], kind
    raise AssertionError(kind)


def _to_index(spec):
    """JSON spec -> python index tuple."""
    import numpy as np
    out = []
    for kind, v in spec:
        if kind == "slice":
            out.append(slice(*v))
        elif kind == "int":
            out.append(int(v))
        elif kind == "none":
            out.append(None)
        elif kind == "ellipsis":
            out.append(Ellipsis)
        elif kind == "list":
            out.append(list(v) if v else np.array([], dtype=int))
        elif kind == "array":
            out.append(np.array(v, dtype=int))
        elif kind == "bool":
            out.append(np.array(v, dtype=bool))
        elif kind == "dalist":
            out.append(("da", np.array(v, dtype=int)))
        elif kind == "dabool":
            out.append(("da", np.array(v, dtype=bool)))
    return tuple(out)


FANCY = ("list", "array", "bool", "dalist", "dabool")


def _apind_class(inp, x, got):
    """Input class of an N-d index for the known-finding signatures (None when the class is not a known one).

    The only remaining class is `int+fancy-split`: NumPy counts integers as advanced indices, so when a slice or a
    np.newaxis separates an integer from the array index the broadcast dimension moves to the front; dask treats
    integers as basic indices (the array axis keeps its position). The class applies only when the computed result
    is exactly that documented alternative (every entry that is not an integer keeps one axis, in index order)."""
    import numpy as np
    kinds = [k for k, _ in inp["index"]]
    fancy = any(k in FANCY for k in kinds)
    if "int" in kinds and fancy and got is not None:
        shape = x.shape
        nell = len(shape) - sum(1 for k in kinds if k not in ("ellipsis", "none"))
        full = []
        for k, v in inp["index"]:
            full += [("slice", [None, None, None])] * nell if k == "ellipsis" else [(k, v)]
        full += [("slice", [None, None, None])] * (len(shape) - sum(1 for k, _ in full if k != "none"))
        idx2, squeeze, expand, ax = [], [], [], 0
        for k, v in full:
            if k == "none":
                expand.append(None)
                continue
            n = shape[ax]
            if k == "int":
                idx2.append(slice(v % n, v % n + 1))
                squeeze.append(ax)
            else:
                idx2.append(slice(*v) if k == "slice" else np.array(v, dtype=bool if k in ("bool", "dabool") else int))
                expand.append(slice(None))
            ax += 1
        alt = np.squeeze(x[tuple(idx2)], axis=tuple(squeeze))[tuple(expand)]
        if alt.shape == got.shape and (alt == got).all():
            return "int+fancy-split"
    return None


def case_apind(ctx, inp):
    """N-d getitem: slices of any sign, ints, None, Ellipsis, at most one integer list / bool mask (NumPy or dask)."""
    import numpy as np
    import dask.array as da
    shape, chunks = tuple(inp["shape"]), tuple(tuple(c) for c in inp["chunks"])
    x = (np.arange(int(np.prod(shape))).reshape(shape) * 3 + 1) if shape else np.array(5)
    d = da.from_array(x, chunks=chunks)
    idx = _to_index(inp["index"])
    np_idx = tuple(i[1] if isinstance(i, tuple) else i for i in idx)
    da_idx = tuple(da.from_array(i[1], chunks=max(1, (len(i[1]) + 1) // 2)) if isinstance(i, tuple) else i for i in idx)
    try:
        exp = x[np_idx]
    except IndexError:
        # NumPy rejects the index (out of bounds, too many indices, boolean index of the wrong length): dask must not
        # silently return something
        try:
            got = np.asarray(d[da_idx].compute(scheduler="sync"))
        except Exception:
            ctx.branch("nd-rejected-like-numpy")
            return
        ctx.fail("dask accepts an index that NumPy rejects with IndexError", observed=[list(got.shape), got.tolist()])
        return
    kinds = [k for k, _ in inp["index"]]

    def sig(symptom, got=None):
        cls = _apind_class(inp, x, got)
        return None if cls is None else f"getitem:{cls}:{symptom}"

    try:
        r = d[da_idx]
        got = np.asarray(r.compute(scheduler="sync"))
    except NotImplementedError:
        ctx.note("dask-not-implemented")
        return
    except Exception as e:
        ctx.fail("x[index] raised " + type(e).__name__ + " where NumPy succeeds", sig=sig(type(e).__name__),
                 observed=repr(e)[:300])
        return
    if got.shape != exp.shape:
        s_ = sig("axis-order", got) if _apind_class(inp, x, got) == "int+fancy-split" else sig("wrong-shape", got)
        ctx.fail("x[index].compute() has a different shape than NumPy's", sig=s_,
                 observed=[list(got.shape), got.tolist()], expected=[list(exp.shape), exp.tolist()])
        return
    if got.dtype != exp.dtype or (got != exp).any():
        s_ = sig("axis-order", got) if _apind_class(inp, x, got) == "int+fancy-split" else sig("wrong-values", got)
        ctx.fail("x[index].compute() differs from NumPy", sig=s_, observed=[list(got.shape), got.tolist()],
                 expected=[list(exp.shape), exp.tolist()])
        return
    unknown = any(c != c for ch in r.chunks for c in ch)
    if not unknown:
        if tuple(r.shape) != exp.shape:
            ctx.fail("lazy shape differs from the computed shape", sig=sig("lazy-shape", got), observed=list(r.shape),
                     expected=list(exp.shape))
        else:
            _blocks_agree(ctx, r, "x[index]")
    else:
        ctx.branch("unknown-chunks")
    # Lean specification per axis (basic indexing only): product of 1-d selections
    if all(k in ("slice", "int", "none", "ellipsis") for k in kinds):
        full = []
        nell = len(shape) - sum(1 for k in kinds if k in ("slice", "int"))
        for k, v in inp["index"]:
            if k == "ellipsis":
                full += [("slice", [None, None, None])] * nell
            elif k != "none":
                full.append((k, v))
        full += [("slice", [None, None, None])] * (len(shape) - len(full))
        sel = []
        for (k, v), n in zip(full, shape):
            if k == "int":
                p = unsym(ctx.lean(Sym("posify"), n, v))
                sel.append([p[1]])
            else:
                sel.append(unsym(ctx.lean(Sym("pyslice"), n, v))[1])
        flat = [int(x[t]) for t in itertools.product(*sel)] if shape else [int(x)]
        ctx.eq("Lean per-axis spec vs NumPy", flat, exp.ravel().tolist())
        ctx.branch("nd-basic-only")
    for k in set(kinds):
        ctx.branch("nd-" + k)
    if "none" in kinds:
        for k in set(kinds):
            if k in FANCY:
                ctx.branch("nd-newaxis+" + k)
    if any(k == "slice" and (v[2] or 1) < 0 for k, v in inp["index"]):
        ctx.branch("nd-negstep")


def case_vindex(ctx, inp):
    """Point-wise selection x.vindex[...]: integer arrays of any (broadcastable) shape, mixed with ints, slices and
    Ellipsis; the broadcast point dimensions come first. Reference: NumPy on the axes moved to the front."""
    import numpy as np
    import dask.array as da
    shape, chunks = tuple(inp["shape"]), tuple(tuple(c) for c in inp["chunks"])
    x = np.arange(int(np.prod(shape))).reshape(shape) * 3 + 1
    d = da.from_array(x, chunks=chunks)
    idx, nonfancy, arrays = [], [], []
    for kind, v in inp["index"]:
        if kind == "array":
            a = np.array(v, dtype=int).reshape(inp["ashapes"][len(arrays)])
            idx.append(a)
            nonfancy.append(slice(None))
            arrays.append(a)
        elif kind == "slice":
            idx.append(slice(*v))
            nonfancy.append(slice(*v))
        elif kind == "int":
            idx.append(int(v))
            nonfancy.append(int(v))
        else:
            idx.append(Ellipsis)
            nonfancy.append(Ellipsis)
    # reference
    y = x[tuple(nonfancy)]
    rem = []      # for each remaining axis of y: index array or None
    it = iter(arrays)
    nell = len(shape) - sum(1 for k, _ in inp["index"] if k != "ellipsis")
    for kind, v in inp["index"]:
        if kind == "array":
            rem.append(next(it))
        elif kind == "slice":
            rem.append(None)
        elif kind == "ellipsis":
            rem.extend([None] * nell)
    rem += [None] * (y.ndim - len(rem))
    axes = [i for i, r in enumerate(rem) if r is not None]
    oob = any(((r >= y.shape[i]) | (r < -y.shape[i])).any() for i, r in enumerate(rem) if r is not None)
    try:
        r = d.vindex[tuple(idx)]
        got = np.asarray(r.compute(scheduler="sync"))
    except IndexError as e:
        if oob:
            ctx.branch("vindex-out-of-bounds-rejected")
            return
        ctx.fail("x.vindex[index] raised IndexError for in-bounds points", observed=repr(e)[:300])
        return
    except Exception as e:
        ctx.fail("x.vindex[index] raised " + type(e).__name__, observed=repr(e)[:300])
        return
    if oob:
        ctx.fail("vindex accepted out-of-bounds points", observed=got.tolist())
        return
    exp = np.moveaxis(y, axes, list(range(len(axes))))[tuple(np.broadcast_arrays(*[rem[i] for i in axes]))] if axes else y
    if got.shape != exp.shape or (got != exp).any():
        ctx.fail("vindex differs from NumPy point selection", observed=[list(got.shape), got.tolist()],
                 expected=[list(exp.shape), exp.tolist()])
        return
    if tuple(r.shape) != exp.shape:
        ctx.fail("vindex lazy shape differs", observed=list(r.shape), expected=list(exp.shape))
    else:
        _blocks_agree(ctx, r, "vindex")
    ctx.branch("vindex")
    if not got.size:
        ctx.branch("vindex-no-points")
    if 0 in shape:
        ctx.branch("vindex-zero-length-axis")
    kinds = [k for k, _ in inp["index"]]
    for k in set(kinds):
        ctx.branch("vindex-" + k)
    if len(arrays) > 1:
        ctx.branch("vindex-several-arrays")
    if any(a.ndim != 1 for a in arrays):
        ctx.branch("vindex-nd-points")


def case_vindexplan(ctx, inp):
    """_vindex_array at graph level: the slice tasks (input block, in-block indices) and merge tasks (output block,
    output indices) vs the Lean model `VIndex.groups`; chunks of the point axis; the graph computed = NumPy."""
    import numpy as np
    import dask.array as da
    from dask.array.core import _vindex_array
    chunks = tuple(tuple(c) for c in inp["chunks"])
    shape = tuple(sum(c) for c in chunks)
    axes = list(inp["axes"])
    pts = [list(p) for p in inp["points"]]          # one coordinate vector (indexed axes only) per point
    x = np.arange(int(np.prod(shape))).reshape(shape) * 3 + 1
    d = da.from_array(x, chunks=chunks)
    dict_indexes = {ax: np.array([p[j] for p in pts], dtype=int) for j, ax in enumerate(axes)}
    r = _vindex_array(d, dict_indexes)
    model = unsym(ctx.lean(Sym("vindexplan"), [list(chunks[a]) for a in axes], pts))
    if model[0] != "ok":
        ctx.disagree("vindex plan", model, "ok")
        return
    M, pchunks, mgroups = model[1], model[2], model[3]
    ctx.eq("chunks of the point axis", pchunks, [int(c) for c in r.chunks[0]])
    if pts:
        g = dict(r.__dask_graph__())
        sl = {k: v for k, v in g.items() if isinstance(k, tuple) and str(k[0]).startswith("vindex-slice-")}
        mg = {k: v for k, v in g.items() if isinstance(k, tuple) and str(k[0]).startswith("vindex-merge-")}
        other = [a for a in range(len(shape)) if a not in axes]
        okey0 = tuple(0 for _ in other)
        impl = []
        for k in sorted(mg, key=lambda k: k[1]):
            if tuple(k[2:]) != okey0:
                continue
            t = mg[k]
            indexers, refs = t.args[0], t.args[1]
            refs = list(refs.args) if hasattr(refs, "args") else list(refs)
            for ind, ref in zip(indexers, refs):
                st = sl[ref.key]
                bkey = st.args[0].key
                blocks = [int(bkey[1 + a]) for a in axes]
                pnt = st.args[1]
                inblock = [np.asarray(pnt[a]).tolist() for a in axes]
                pairs = sorted((int(o), [int(ib[j]) for ib in inblock]) for j, o in enumerate(np.asarray(ind).tolist()))
                impl.append((int(ref.key[1]), [int(k[1])] + blocks, pairs))
        impl.sort(key=lambda t: t[0])
        got = [[key, [[o, ib] for o, ib in pairs]] for _, key, pairs in impl]
        want = [[key, sorted([[q[1], q[2]] for q in qs])] for key, qs in mgroups]
        ctx.eq("vindex slice/merge tasks (key order, per task the (output index, in-block index) pairs)", want, got)
    out = np.asarray(r.compute(scheduler="sync"))
    idx = tuple(dict_indexes[a] if a in axes else slice(None) for a in range(len(shape)))
    moved = np.moveaxis(x, axes, list(range(len(axes))))
    exp = moved[tuple(dict_indexes[a] for a in axes)] if pts else moved[tuple(np.array([], dtype=int) for _ in axes)]
    if out.shape != exp.shape or (out != exp).any():
        ctx.fail("_vindex_array differs from NumPy point selection", observed=out.tolist(), expected=exp.tolist())
    ctx.branch("vindexplan")
    if len(pts) > M:
        ctx.branch("vindexplan-several-output-blocks")
    if len(axes) > 1:
        ctx.branch("vindexplan-several-axes")
    if len(axes) < len(shape):
        ctx.branch("vindexplan-other-axes")


# --------------------------------------------------------------------------------------
# histories on ONE Array object: cached attributes vs in-place mutations
# --------------------------------------------------------------------------------------

_CACHED = ("_key_array", "numblocks", "npartitions", "shape", "ndim", "size")


def _filled(x):
    return [x._cached_keys is not None] + [k in x.__dict__ for k in _CACHED]


def _keys_summary(keys, ndim):
    """(name, numblocks) a nested key list / key array was made from; None if it is not a regular grid of one name"""
    import numpy as np
    arr = np.array(keys, dtype=object)
    if arr.ndim != ndim + 1 or arr.shape[-1] != ndim + 1:
        return None
    names = set(arr[..., 0].ravel().tolist())
    if len(names) != 1:
        return None
    for idx in np.ndindex(arr.shape[:-1]):
        if tuple(arr[idx][1:].tolist()) != idx:
            return None
    return names.pop(), [int(v) for v in arr.shape[:-1]]


def _cache_invariant(ctx, x, where):
    """The Lean predicate `ArrayCache.Valid` evaluated on the real object: every filled cache holds what a fresh array
    with the current name and chunks would compute."""
    import math
    nd = len(x.chunks)
    nb = [len(c) for c in x.chunks]
    fresh_shape = [sum(c) for c in x.chunks]

    def same(a, b):
        return len(a) == len(b) and all((u == v) or (u != u and v != v) for u, v in zip(a, b))

    d = x.__dict__
    bad = None
    if "numblocks" in d and list(d["numblocks"]) != nb:
        bad = ("numblocks", list(d["numblocks"]), nb)
    elif "npartitions" in d and d["npartitions"] != math.prod(nb):
        bad = ("npartitions", d["npartitions"], math.prod(nb))
    elif "shape" in d and not same(list(d["shape"]), fresh_shape):
        bad = ("shape", [repr(v) for v in d["shape"]], [repr(v) for v in fresh_shape])
    elif "ndim" in d and d["ndim"] != nd:
        bad = ("ndim", d["ndim"], nd)
    elif x._cached_keys is not None and _keys_summary(x._cached_keys, nd) != (x.name, nb):
        bad = ("_cached_keys", repr(_keys_summary(x._cached_keys, nd)), [x.name, nb])
    elif "_key_array" in d and _keys_summary(d["_key_array"], nd) != (x.name, nb):
        bad = ("_key_array", repr(_keys_summary(d["_key_array"], nd)), [x.name, nb])
    if bad is not None:
        ctx.fail("a cached attribute of the Array is stale after " + where + ": " + bad[0]
                 + " differs from what a fresh array with the current name and chunks computes",
                 observed=bad[1], expected=bad[2])
        return False
    return True


def case_cache(ctx, inp):
    """Primitive history on a real Array object — cached reads, `_name` / `_chunks` assignments, the real handle_out —
    against the Lean state machine `ArrayCache`: every answer and, after every step, WHICH caches are filled."""
    import numpy as np
    import dask.array as da
    from dask.array.core import handle_out
    chunks = [list(c) for c in inp["chunks"]]
    nd = len(chunks)
    x = da.zeros(tuple(sum(c) for c in chunks), chunks=tuple(tuple(c) for c in chunks), dtype="i8", name="n1")
    model_ops, real = [], []
    for op in inp["ops"]:
        k = op[0]
        if k == "r":
            what = op[1]
            model_ops.append([Sym("r"), Sym(what)])
            if what == "keys":
                sm = _keys_summary(x.__dask_keys__(), nd)
                ans = None if sm is None else [int(sm[0][1:]), sm[1]]
            elif what == "keyarray":
                sm = _keys_summary(x._key_array, nd)
                ans = None if sm is None else [int(sm[0][1:]), sm[1]]
            elif what in ("numblocks", "shape"):
                ans = [None, [int(v) for v in getattr(x, what)]]
            else:
                ans = [None, [int(getattr(x, what))]]
            real.append([ans, _filled(x)])
        elif k == "wname":
            model_ops.append([Sym("wname"), op[1]])
            x._name = "n%d" % op[1]
            real.append([None, _filled(x)])
        elif k == "wchunks":
            model_ops.append([Sym("wchunks"), op[1]])
            x._chunks = tuple(tuple(c) for c in op[1])
            real.append([None, _filled(x)])
        elif k == "assign":       # the two assignments of Array.__setitem__, in its order
            model_ops.append([Sym("assign"), op[1], op[2]])
            x._name = "n%d" % op[1]
            x._chunks = tuple(tuple(c) for c in op[2])
            real.append([None, _filled(x)])
        elif k == "out":          # the real handle_out (it reads out.shape first)
            res = da.zeros(tuple(sum(c) for c in op[2]), chunks=tuple(tuple(c) for c in op[2]), dtype="i8", name="n%d" % op[1])
            model_ops.append([Sym("r"), Sym("shape")])
            real.append([[None, [int(v) for v in x.shape]], _filled(x)])
            model_ops.append([Sym("out"), op[1], op[2]])
            handle_out(x, res)
            real.append([None, _filled(x)])
    model = unsym(ctx.lean(Sym("arraycache"), 1, chunks, model_ops))
    ctx.eq("Array cache state machine (answers and filled caches after every step)", model, real)
    kinds = [op[0] for op in inp["ops"]]
    for j in range(1, len(kinds)):
        if kinds[j] in ("wname", "assign", "out") and any(o == ["r", "keyarray"] for o in inp["ops"][:j]) and \
                any(o == ["r", "keyarray"] for o in inp["ops"][j + 1:]):
            ctx.branch("cache-keyarray-read-rename-read")
            break
    for k in set(kinds):
        ctx.branch("cache-op-" + k)


def _block_positions(true_chunks, spec):
    """global positions selected by indexing the block grid with `spec` (int / slice / list per axis)"""
    pos = []
    for ch, (kind, v) in zip(true_chunks, spec):
        starts = [sum(ch[:i]) for i in range(len(ch))]
        nb = len(ch)
        sel = [v % nb] if kind == "int" else (list(range(nb))[slice(*v)] if kind == "slice" else [i % nb for i in v])
        p = []
        for b in sel:
            p.extend(range(starts[b], starts[b] + ch[b]))
        pos.append(p)
    return pos


def _block_positions_sel(true_chunks, spec):
    """per axis the list of selected block numbers"""
    out = []
    for ch, (kind, v) in zip(true_chunks, spec):
        nb = len(ch)
        out.append([v % nb] if kind == "int" else (list(range(nb))[slice(*v)] if kind == "slice" else [i % nb for i in v]))
    return out


def case_hist(ctx, inp):
    """A HISTORY on one Array object: accessors that fill cached attributes (.blocks[...], .partitions[...],
    __dask_keys__(), numblocks, chunks, shape, npartitions, to_delayed(), .vindex[...], x[...]) mixed with in-place
    mutations (x[idx] = v, ufunc out=x with the same or with other chunks, compute_chunk_sizes()), no compute/persist of x
    in between unless the history says so. After every step the result is compared with NumPy applied to the same history
    and the cache invariant (Lean `ArrayCache.Valid`) is evaluated on the object."""
    import numpy as np
    import dask
    import dask.array as da
    chunks = [list(c) for c in inp["chunks"]]
    shape = [sum(c) for c in chunks]
    y = np.arange(int(np.prod(shape))).reshape(shape) * 2 + 1
    x = da.from_array(y.copy(), chunks=tuple(tuple(c) for c in chunks))
    true_chunks = [list(c) for c in chunks]
    if inp.get("start") == "masked":
        t = inp["threshold"]
        m = y > t
        cuts = np.cumsum([0] + chunks[0])
        true_chunks = [[int(m[a:b].sum()) for a, b in zip(cuts[:-1], cuts[1:])]]
        x = x[x > t]
        y = y[m]
    unknown = inp.get("start") == "masked"
    nd = y.ndim

    def bad(what, got, exp):
        ctx.fail(what, observed=np.asarray(got).tolist(), expected=np.asarray(exp).tolist())

    for step_no, op in enumerate(inp["ops"]):
        k = op["op"]
        where = "step %d (%s)" % (step_no, k)
        try:
            if k in ("blocks", "partitions"):
                view = x.blocks if k == "blocks" else x.partitions
                idx = tuple(v if kind == "int" else (slice(*v) if kind == "slice" else list(v)) for kind, v in op["idx"])
                r = view[idx if len(idx) > 1 else idx[0]]
                got = np.asarray(r.compute(scheduler="sync"))
                exp = y[np.ix_(*_block_positions(true_chunks, op["idx"]))]
                if got.shape != exp.shape or (got != exp).any():
                    bad("x.%s[...] after the history differs from NumPy (%s)" % (k, where), got, exp)
                    return
                if not unknown and tuple(r.shape) != exp.shape:
                    ctx.fail("lazy shape of x.%s[...] differs (%s)" % (k, where), observed=list(r.shape), expected=list(exp.shape))
                    return
            elif k == "keys":
                sm = _keys_summary(x.__dask_keys__(), nd)
                if sm != (x.name, [len(c) for c in true_chunks]):
                    ctx.fail("__dask_keys__() is not the key grid of the current name/chunks (%s)" % where, observed=repr(sm))
                    return
                k0 = x.__dask_keys__()
                while isinstance(k0, list):
                    k0 = k0[0]
                got = np.asarray(dask.get(dict(x.__dask_graph__()), k0))
                exp = y[tuple(slice(0, c[0]) for c in true_chunks)]
                if got.shape != exp.shape or (got != exp).any():
                    bad("the first key of __dask_keys__() does not compute to the first block (%s)" % where, got, exp)
                    return
            elif k in ("numblocks", "npartitions", "shape", "chunks", "ndim", "size"):
                v = getattr(x, k)
                exp = {"numblocks": tuple(len(c) for c in true_chunks), "npartitions": int(np.prod([len(c) for c in true_chunks])),
                       "shape": y.shape, "chunks": tuple(tuple(c) for c in true_chunks), "ndim": nd, "size": y.size}[k]
                if not (unknown and k in ("shape", "chunks", "size")) and v != exp:
                    ctx.fail("x.%s differs from NumPy applied to the same history (%s)" % (k, where), observed=repr(v), expected=repr(exp))
                    return
            elif k == "delayed":
                dl = x.to_delayed()
                if dl.shape != tuple(len(c) for c in true_chunks):
                    ctx.fail("to_delayed() has the wrong grid (%s)" % where, observed=list(dl.shape))
                    return
                first = np.asarray(dl.ravel()[-1].compute(scheduler="sync"))
                exp = y[tuple(slice(sum(c[:-1]), sum(c)) for c in true_chunks)]
                if first.shape != exp.shape or (first != exp).any():
                    bad("the last Delayed of to_delayed() is not the last block (%s)" % where, first, exp)
                    return
            elif k == "vindex":
                pts = tuple(np.array(p, dtype=int) for p in op["points"])
                got = np.asarray(x.vindex[pts].compute(scheduler="sync"))
                exp = y[pts]
                if got.shape != exp.shape or (got != exp).any():
                    bad("x.vindex[...] differs from NumPy (%s)" % where, got, exp)
                    return
            elif k == "getitem":
                idx = tuple(slice(*v) for v in op["idx"])
                got = np.asarray(x[idx].compute(scheduler="sync"))
                if got.shape != y[idx].shape or (got != y[idx]).any():
                    bad("x[...] differs from NumPy (%s)" % where, got, y[idx])
                    return
            elif k == "compute":
                got = np.asarray(x.compute(scheduler="sync"))
                if got.shape != y.shape or (got != y).any():
                    bad("x.compute() differs from NumPy (%s)" % where, got, y)
                    return
            # ---- in-place mutations
            elif k == "setitem":
                idx = tuple(slice(*v) if isinstance(v, list) else int(v) for v in op["idx"])
                x[idx] = op["value"]
                y = y.copy()
                y[idx] = op["value"]
            elif k == "out_add":
                da.add(x, op["k"], out=x)
                y = y + op["k"]
            elif k == "out_neg":
                np.negative(x, out=x)
                y = -y
            elif k == "out_rechunked":
                z = da.from_array(y.copy(), chunks=tuple(tuple(c) for c in op["chunks"]))
                da.multiply(z, 3, out=x)
                y = y * 3
                true_chunks = [list(c) for c in op["chunks"]]
            elif k == "ccs":
                x.compute_chunk_sizes()
                unknown = False
            else:
                raise AssertionError(k)
        except NotImplementedError:
            ctx.note("dask-not-implemented")
            return
        except Exception as e:
            if k in ("blocks", "partitions") and isinstance(e, ValueError) and \
                    any(not p for p in _block_positions_sel(true_chunks, op["idx"])):
                ctx.branch("hist-empty-block-selection-rejected")    # documented: an empty selection of blocks is rejected
                continue
            ctx.fail("history step raised %s (%s)" % (type(e).__name__, where), observed=repr(e)[:300])
            return
        if not _cache_invariant(ctx, x, where):
            return
    ops = [o["op"] for o in inp["ops"]]
    muts = ("setitem", "out_add", "out_neg", "out_rechunked", "ccs")
    for j, o in enumerate(ops):
        if o in muts and any(a in ("blocks", "partitions") for a in ops[:j]) and any(a in ("blocks", "partitions") for a in ops[j + 1:]) \
                and "compute" not in ops[:j + 1]:
            ctx.branch("hist-blocks-mutate-blocks")
            break
    for o in set(ops):
        ctx.branch("hist-" + o)
    if inp.get("start") == "masked":
        ctx.branch("hist-unknown-chunks-start")


def case_exotic(ctx, inp):
    """Index elements of unusual but valid types: NumPy integer scalars (signed/unsigned), integer-valued floats,
    0-d arrays, lists of NumPy ints, small-dtype / unsigned index arrays (NumPy and dask), Python bool lists,
    0-d dask integer arrays, dask indexers in vindex."""
    import numpy as np
    import dask.array as da
    n, lengths, kind, v = inp["n"], tuple(inp["lengths"]), inp["kind"], inp["v"]
    x = np.arange(n * 2).reshape(n, 2) * 3 + 1
    d = da.from_array(x, chunks=(lengths, (1, 1)))
    np_index = None
    if kind == "npint":
        idx = np.dtype(inp["dtype"]).type(v)
    elif kind == "float":
        idx = float(v)
        np_index = int(v)
    elif kind == "zerod":
        idx = np.array(v)
    elif kind == "list-npint":
        idx = [np.int64(i) for i in v]
    elif kind == "array-dtype":
        idx = np.array(v, dtype=inp["dtype"])
    elif kind == "da-array-dtype":
        idx = da.from_array(np.array(v, dtype=inp["dtype"]), chunks=max(1, len(v) // 2))
        np_index = np.array(v, dtype=inp["dtype"])
    elif kind == "boollist":
        idx = [bool(b) for b in v]
    elif kind == "da-zerod":
        idx = da.from_array(np.array(v))
        np_index = int(v)
    elif kind == "vindex-da":
        arr = np.array(v)
        exp = x[:, 0][arr]
        d1 = da.from_array(x[:, 0].copy(), chunks=n)
        try:
            r = d1.vindex[da.from_array(arr, chunks=max(1, len(v) // 2))]
            got = np.asarray(r.compute(scheduler="sync"))
        except Exception as e:
            ctx.fail("x.vindex[dask indexer] raised " + type(e).__name__, observed=repr(e)[:200])
            return
        if got.shape != exp.shape or (got != exp).any():
            ctx.fail("x.vindex[dask indexer] differs from NumPy", observed=got.tolist(), expected=exp.tolist())
        ctx.branch("exotic-vindex-da")
        return
    else:
        raise AssertionError(kind)
    exp = x[idx if np_index is None else np_index]
    try:
        r = d[idx]
        got = np.asarray(r.compute(scheduler="sync"))
    except Exception as e:
        ctx.fail("x[%s index] raised %s where NumPy succeeds" % (kind, type(e).__name__), observed=repr(e)[:200])
        return
    if got.shape != exp.shape or (got != exp).any():
        ctx.fail("x[%s index] differs from NumPy" % kind, observed=got.tolist(), expected=exp.tolist())
        return
    if not any(c != c for ch in r.chunks for c in ch) and tuple(r.shape) != exp.shape:
        ctx.fail("x[%s index]: lazy shape differs" % kind, observed=list(r.shape), expected=list(exp.shape))
    ctx.branch("exotic-" + kind)


def case_maskfull(ctx, inp):
    """x[mask] with a boolean mask of x's full shape (NumPy or dask, possibly chunked differently): the selected
    elements in C order; the lazy length is unknown (nan) unless the mask is 1-d NumPy."""
    import numpy as np
    import dask.array as da
    shape, chunks = tuple(inp["shape"]), tuple(tuple(c) for c in inp["chunks"])
    x = np.arange(int(np.prod(shape))).reshape(shape) * 3 + 1
    m = np.array(inp["mask"], dtype=bool).reshape(shape)
    d = da.from_array(x, chunks=chunks)
    dm = da.from_array(m, chunks=tuple(tuple(c) for c in inp["mchunks"])) if inp["dask_mask"] else m
    exp = x[m]
    try:
        r = d[dm]
        got = np.asarray(r.compute(scheduler="sync"))
    except Exception as e:
        ctx.fail("x[full-shape mask] raised " + type(e).__name__, observed=repr(e)[:300])
        return
    if got.shape != exp.shape or (got != exp).any():
        ctx.fail("x[full-shape mask] differs from NumPy", observed=got.tolist(), expected=exp.tolist())
        return
    if r.ndim != 1:
        ctx.fail("x[full-shape mask] is not 1-d", observed=r.ndim)
    known = not any(c != c for c in r.chunks[0])
    if known:
        if sum(r.chunks[0]) != len(exp):
            ctx.fail("x[full-shape mask]: known lazy chunks do not add up to the result length", observed=list(r.chunks[0]),
                     expected=len(exp))
    else:
        ctx.branch("maskfull-unknown-chunks")
        # compute_chunk_sizes must make the lazy chunks agree with the computed blocks
        r2 = r.compute_chunk_sizes()
        if sum(r2.chunks[0]) != len(exp):
            ctx.fail("compute_chunk_sizes() after x[mask] disagrees with the result length", observed=list(r2.chunks[0]),
                     expected=len(exp))
        else:
            _blocks_agree(ctx, r2, "x[mask].compute_chunk_sizes()")
    ctx.branch("maskfull-dask" if inp["dask_mask"] else "maskfull-numpy")
    if len(shape) > 1:
        ctx.branch("maskfull-nd")


def case_blocks(ctx, inp):
    """x.blocks[index] equals the corresponding region of the NumPy array."""
    import numpy as np
    import dask.array as da
    shape, chunks = tuple(inp["shape"]), tuple(tuple(c) for c in inp["chunks"])
    x = np.arange(int(np.prod(shape))).reshape(shape) * 3 + 1
    d = da.from_array(x, chunks=chunks)
    idx = _to_index(inp["index"])
    try:
        r = d.blocks[idx]
    except ValueError as e:
        # an array cannot have zero blocks along an axis: an empty selection of blocks is rejected
        full = list(idx) + [slice(None)] * (len(shape) - len(idx))
        empty = any(len(np.atleast_1d(np.arange(len(ch))[i if not isinstance(i, int) else slice(i, i + 1 if i != -1 else None)])) == 0
                    for i, ch in zip(full, chunks))
        if empty and "Empty tuples" in str(e):
            ctx.branch("blocks-empty-selection-rejected")
            return
        ctx.fail("blocks[] raised ValueError", observed=repr(e)[:200])
        return
    # reference: select block numbers per axis with NumPy's own semantics, then gather element ranges
    sel = []
    full = list(idx) + [slice(None)] * (len(shape) - len(idx))
    for ax, (i, ch) in enumerate(zip(full, chunks)):
        nums = np.arange(len(ch))[i if not isinstance(i, int) else slice(i, i + 1 if i != -1 else None)]
        cb = _cum_before(ch)
        pos = [p for b in np.atleast_1d(nums).tolist() for p in range(cb[b], cb[b] + ch[b])]
        sel.append(pos)
    exp = x[np.ix_(*sel)] if shape else x
    got = np.asarray(r.compute(scheduler="sync"))
    if got.shape != exp.shape or (got != exp).any():
        ctx.fail("blocks[] differs from the NumPy region", observed=got.tolist(), expected=exp.tolist())
        return
    if tuple(r.shape) != exp.shape:
        ctx.fail("blocks[] lazy shape differs", observed=list(r.shape), expected=list(exp.shape))
    else:
        _blocks_agree(ctx, r, "blocks[]")
    ctx.branch("blocks")


CASES = {"exotic": case_exotic, "maskfull": case_maskfull, "normidx": case_normidx, "take": case_take, "pyslice": case_pyslice, "norm": case_norm, "slice1d": case_slice1d, "slice1dint": case_slice1dint, "slicend": case_slicend,
         "api1d": case_api1d, "apind": case_apind, "vindex": case_vindex, "vindexplan": case_vindexplan, "cache": case_cache, "hist": case_hist, "blocks": case_blocks}
CASES.update(_c20x.CASES)      # extension round: blockview, intdaskchunk, intdaskagg, intdask
CASES.update(_c20xm.CASES)     # last round: boolmask (1-d dask boolean mask)


# --------------------------------------------------------------------------------------
# generators
# --------------------------------------------------------------------------------------

def _all_slices(n):
    v = slice_values(n)
    for st, sp, se in itertools.product(v, v, slice_steps(n)):
        yield [st, sp, se]


def _rand_nd(rng, maxd=3, maxn=5, zero=0.1):
    nd = rng.randint(1, maxd)
    shape = [rng.randint(0 if rng.random() < zero else 1, maxn) for _ in range(nd)]
    chunks = [list(random_chunks(rng, s, zeros=0.15)) for s in shape]
    return shape, chunks


def _rand_nd_index(rng, shape, fancy=True):
    spec = []
    used_fancy = False
    axes = list(range(len(shape)))
    use_ellipsis = rng.random() < 0.25
    drop = rng.randint(0, len(shape)) if (use_ellipsis or rng.random() < 0.3) else 0
    keep = axes[: len(axes) - drop]
    ell_at = rng.randint(0, len(keep)) if use_ellipsis else None
    if use_ellipsis and ell_at < len(keep):
        # axes after the ellipsis are the trailing ones
        tail = len(keep) - ell_at
        keep = keep[:ell_at] + axes[len(axes) - tail:]
    for pos, ax in enumerate(keep):
        if use_ellipsis and pos == ell_at:
            spec.append(("ellipsis", None))
        if rng.random() < 0.15:
            spec.append(("none", None))
        n = shape[ax]
        allow = ["slice", "slice", "slice"] + (["int"] if n else [])
        if fancy and not used_fancy:
            allow += ["list", "bool"]
        idx, kind = _rand_index_1ax(rng, n, allow)
        if kind == "slice":
            spec.append(("slice", [idx.start, idx.stop, idx.step]))
        elif kind == "int":
            spec.append(("int", idx))
        else:
            used_fancy = True
            flavour = rng.random()
            if kind == "list":
                spec.append(("dalist" if flavour < 0.25 and idx else ("array" if flavour < 0.5 else "list"), idx))
            else:
                spec.append(("dabool" if flavour < 0.3 and n else "bool", idx))
    if use_ellipsis and ell_at >= len(keep):
        spec.append(("ellipsis", None))
    if rng.random() < 0.1:
        spec.append(("none", None))
    return spec


def _rand_block_idx(rng, nbs):
    idx = []
    for nb in nbs:
        t = rng.random()
        if t < 0.35:
            idx.append(("int", rng.randrange(-nb, nb)))
        elif t < 0.8:
            if rng.random() < 0.85:
                a = rng.randrange(nb)
                b = rng.randint(a + 1, nb)
                sl = [a if a or rng.random() < 0.5 else None, b if b < nb or rng.random() < 0.5 else None, rng.choice([None, 1, 2])]
                if rng.random() < 0.25:
                    sl = [b - 1, a - 1 if a else None, -1]
                idx.append(("slice", sl))
            else:
                v = [None] + list(range(-nb, nb + 1))
                idx.append(("slice", [rng.choice(v), rng.choice(v), rng.choice([None, 1, -1, 2])]))
        else:
            idx.append(("list", [rng.randrange(nb) for _ in range(rng.randint(1, 3))]))
    seen = False
    for j, (k, _) in enumerate(idx):
        if k == "list":
            if seen:
                idx[j] = ("slice", [None, None, None])
            seen = True
    return idx


def _rand_hist(rng, force_pattern):
    """history on one array; with `force_pattern`: accessor that fills a cache, in-place mutation, the accessor again"""
    masked = rng.random() < 0.15
    nd = 1 if masked else rng.randint(1, 2)
    shape = [rng.randint(2, 7) for _ in range(nd)]
    chunks = [list(random_chunks(rng, n)) for n in shape]
    if all(len(c) == 1 for c in chunks):
        k = rng.randint(1, shape[0] - 1)
        chunks[0] = [k, shape[0] - k]
    cur = [list(c) for c in chunks]
    inp = {"chunks": chunks}
    nvals = 1
    for n in shape:
        nvals *= n
    if masked:
        inp["start"] = "masked"
        t = rng.randint(0, 2 * nvals - 2)
        inp["threshold"] = t
        vals = [2 * i + 1 for i in range(nvals)]
        cuts = [sum(chunks[0][:i]) for i in range(len(chunks[0]) + 1)]
        cur = [[sum(1 for v in vals[a:b] if v > t) for a, b in zip(cuts[:-1], cuts[1:])]]
    unknown = masked

    def accessor():
        nbs = [len(c) for c in cur]
        pool = ["blocks", "blocks", "partitions", "keys", "numblocks", "npartitions", "delayed", "chunks", "shape", "ndim", "size"]
        if not unknown:
            pool += ["vindex", "getitem"]
        k = rng.choice(pool)
        if k in ("blocks", "partitions"):
            return {"op": k, "idx": _rand_block_idx(rng, nbs)}
        if k == "vindex":
            npts = rng.randint(1, 4)
            return {"op": k, "points": [[rng.randrange(sum(c)) for _ in range(npts)] for c in cur]}
        if k == "getitem":
            return {"op": k, "idx": [[rng.choice([None, 0, 1]), rng.choice([None, -1, sum(c)]), rng.choice([None, 1, 2, -1])] for c in cur]}
        return {"op": k}

    def mutation():
        nonlocal unknown, cur
        if unknown:
            pool = ["ccs"]     # out= needs known shapes, setitem needs known chunks
        else:
            pool = ["out_add", "out_neg", "setitem", "setitem", "setitem", "out_rechunked"]
        k = rng.choice(pool)
        if k == "setitem":
            idx = []
            for c in cur:
                n = sum(c)
                idx.append(rng.randrange(n) if rng.random() < 0.3 else
                           [rng.choice([None, 0, 1]), rng.choice([None, n, n - 1]), rng.choice([None, 1, 2])])
            return {"op": k, "idx": idx, "value": -rng.randint(1, 9)}
        if k == "out_add":
            return {"op": k, "k": rng.randint(1, 5)}
        if k == "out_rechunked":
            cur = [list(random_chunks(rng, sum(c))) for c in cur]
            return {"op": k, "chunks": [list(c) for c in cur]}
        if k == "ccs":
            unknown = False
        return {"op": k}

    ops = []
    if force_pattern:
        first = {"op": rng.choice(["blocks", "partitions"]), "idx": _rand_block_idx(rng, [len(c) for c in cur])}
        ops.append(first)
        for _ in range(rng.randint(0, 2)):
            ops.append(accessor())
        ops.append(mutation())
        for _ in range(rng.randint(0, 1)):
            ops.append(mutation())
        ops.append({"op": rng.choice(["blocks", "partitions"]), "idx": _rand_block_idx(rng, [len(c) for c in cur])})
        for _ in range(rng.randint(0, 2)):
            ops.append(accessor())
    else:
        for _ in range(rng.randint(3, 8)):
            t = rng.random()
            if t < 0.6:
                ops.append(accessor())
            elif t < 0.95:
                ops.append(mutation())
            else:
                ops.append({"op": "compute"})
    inp["ops"] = ops
    return inp


def _rand_cache(rng):
    nd = rng.randint(1, 2)
    chunks = [list(random_chunks(rng, rng.randint(1, 6))) for _ in range(nd)]
    cur = [list(c) for c in chunks]
    ops, name = [], 1
    reads = ["numblocks", "npartitions", "shape", "ndim", "size", "keys", "keyarray", "keyarray", "keys"]
    for _ in range(rng.randint(3, 10)):
        t = rng.random()
        if t < 0.55:
            ops.append(["r", rng.choice(reads)])
        elif t < 0.65:
            name += 1
            ops.append(["wname", name])
        elif t < 0.75:
            # a bare _chunks assignment: usually the same number of blocks (compute_chunk_sizes), sometimes not
            if rng.random() < 0.8:
                cur = [[max(0, v + rng.choice([-1, 0, 1])) for v in c] for c in cur]
            else:
                cur = [list(random_chunks(rng, max(1, sum(c)))) for c in cur]
            ops.append(["wchunks", [list(c) for c in cur]])
        else:
            name += 1
            if rng.random() < 0.5:
                new = [list(random_chunks(rng, max(1, sum(c)))) if sum(c) else list(c) for c in cur]
            else:
                new = [list(c) for c in cur]
            kind = rng.choice(["assign", "out"])
            if kind == "out":
                # handle_out requires equal shapes
                new = [list(random_chunks(rng, sum(c))) if sum(c) else list(c) for c in cur] if rng.random() < 0.5 else [list(c) for c in cur]
            cur = new
            ops.append([kind, name, [list(c) for c in cur]])
    return {"chunks": chunks, "ops": ops}


def generate(ctx):
    rng = ctx.rng
    thorough = ctx.thorough()
    # (H) histories on ONE Array object: cached attributes vs in-place mutations
    yield "cache", {"chunks": [[2, 2], [3]], "ops": [["r", "keyarray"], ["assign", 2, [[2, 2], [3]]], ["r", "keyarray"]]}
    yield "cache", {"chunks": [[2, 2]], "ops": [["r", "keyarray"], ["out", 2, [[1, 3]]], ["r", "keyarray"], ["r", "keys"]]}
    yield "hist", {"chunks": [[2, 2, 2]], "ops": [{"op": "blocks", "idx": [("int", 1)]}, {"op": "setitem", "idx": [2], "value": -1},
                                                  {"op": "blocks", "idx": [("int", 1)]}]}
    yield "hist", {"chunks": [[2, 2, 2]], "ops": [{"op": "blocks", "idx": [("slice", [None, None, None])]}, {"op": "out_add", "k": 1},
                                                  {"op": "partitions", "idx": [("list", [2, 0])]}]}
    for _ in range(ctx.n(250, 5000)):
        yield "cache", _rand_cache(rng)
    for i in range(ctx.n(110, 2500)):
        yield "hist", _rand_hist(rng, force_pattern=(i % 2 == 0))
    # (0) Python's own semantics: the specification side
    for n in range(0, 5):
        for s in _all_slices(n):
            if thorough or rng.random() < 0.12:
                yield "pyslice", {"n": n, "s": s, "a": rng.randint(-9, 9)}
    yield "pyslice", {"n": 3, "s": [None, None, 0]}
    yield "norm", {"n": 3, "s": [1, None, 0]}
    # (1) normalize_slice: exhaustive for n <= 6 (cheap)
    for n in range(0, 7):
        for s in _all_slices(n):
            if thorough or rng.random() < 0.1:
                yield "norm", {"n": n, "s": s}
    # (2) _slice_1d / new_blockdim: every chunking of n <= 6; all slices in thorough, a sample in quick
    p_quick = {0: 1.0, 1: 0.5, 2: 0.2, 3: 0.08, 4: 0.025, 5: 0.01, 6: 0.004}
    for n in range(0, 7):
        for lengths in compositions(n):
            for s in _all_slices(n):
                if thorough or rng.random() < p_quick[n]:
                    yield "slice1d", {"lengths": list(lengths), "s": s}
            for i in range(-n - 1, n + 1):
                if thorough or rng.random() < 0.4:
                    yield "slice1dint", {"lengths": list(lengths), "i": i}
    # zero-length chunks (empty blocks inside the axis)
    for n in range(0, 4 if not thorough else 5):
        for lengths in compositions(n, zeros=True, maxparts=4):
            if 0 not in lengths or len(lengths) == 1:
                continue
            for s in _all_slices(n):
                if rng.random() < (0.025 if not thorough else 0.6):
                    yield "slice1d", {"lengths": list(lengths), "s": s}
            for i in range(-n, n):
                if rng.random() < 0.3:
                    yield "slice1dint", {"lengths": list(lengths), "i": i}
    # larger axes, random
    for _ in range(ctx.n(700, 30000)):
        n = rng.randint(5, 40)
        lengths = random_chunks(rng, n, zeros=0.2)
        v = [None] + list(range(-n - 2, n + 3))
        st = rng.choice([None, 1, 2, 3, 5, 7, n, -1, -2, -3, -5, -7, -n])
        yield "slice1d", {"lengths": list(lengths), "s": [rng.choice(v), rng.choice(v), st]}
    # un-normalised input to _slice_1d (model diff only)
    for _ in range(ctx.n(400, 6000)):
        n = rng.randint(1, 12)
        lengths = random_chunks(rng, n, zeros=0.1)
        v = [None] + list(range(-n - 2, n + 3))
        yield "slice1d", {"lengths": list(lengths), "s": [rng.choice(v), rng.choice(v), rng.choice([None, 0, 1, 2, 3, -1, -2, -3])],
                          "raw": True}
    # (2a') slice_slices_and_integers: the N-d product of the per-axis plans (tasks, block grid, blockdims)
    for n0 in range(1, 4):
        for c0 in compositions(n0):
            for c1 in compositions(2):
                for s0 in _all_slices(n0):
                    if rng.random() < (0.01 if not thorough else 0.2):
                        yield "slicend", {"chunks": [list(c0), list(c1)], "index": [("slice", s0), rng.choice(
                            [("slice", [None, None, -1]), ("int", rng.randrange(-2, 2)), ("slice", [1, None, None])])]}
    for _ in range(ctx.n(260, 5000)):
        nd = rng.randint(1, 3)
        chunks = [list(random_chunks(rng, rng.randint(1, 7), zeros=0.15)) for _ in range(nd)]
        index = []
        for c in chunks:
            n = sum(c)
            if rng.random() < 0.25:
                index.append(("int", rng.randrange(-n, n)))
            else:
                v = [None] + list(range(-n - 2, n + 3))
                index.append(("slice", [rng.choice(v), rng.choice(v), rng.choice([None, 1, 2, 3, -1, -2, -3, n, -n])]))
        yield "slicend", {"chunks": chunks, "index": index, "opt": rng.random() < 0.3}
    # (2b) take: near-identity indexers for every chunking of small axes (function level, real graph executed)
    for n in range(1, 6):
        full = _sorted_full_length(n)
        for lengths in compositions(n):
            for idx in full:
                if n <= 3 or thorough or rng.random() < (0.35 if n == 4 else 0.04):
                    yield "take", {"chunks": [list(lengths)], "axis": 0, "index": idx}
            for _ in range(3 if not thorough else 12):
                yield "take", {"chunks": [list(lengths)], "axis": 0, "index": near_identity(rng, n)}
    for _ in range(ctx.n(150, 3000)):
        nd = rng.randint(1, 3)
        chunks = [list(random_chunks(rng, rng.randint(1, 7), zeros=0.1)) for _ in range(nd)]
        axis = rng.randrange(nd)
        n = sum(chunks[axis])
        if rng.random() < 0.6:
            idx = near_identity(rng, n)
        else:
            idx = [rng.randrange(-n, n) for _ in range(rng.randint(1, n + 3))]
        yield "take", {"chunks": chunks, "axis": axis, "index": idx}
    # (2c) normalize_index on basic / integer-list indices, incl. too many indices and out-of-bounds entries
    for _ in range(ctx.n(350, 6000)):
        shape, _chunks = _rand_nd(rng, zero=0.05)
        spec = [e for e in _rand_nd_index(rng, shape) if e[0] in ("slice", "int", "none", "ellipsis", "list", "bool")]
        t = rng.random()
        if t < 0.08:
            spec.append(("slice", [None, None, None]))        # possibly one index too many
        elif t < 0.16 and spec:
            j = rng.randrange(len(spec))
            if spec[j][0] == "int":
                n = max(shape) + 1
                spec[j] = ("int", rng.choice([n, -n - 1, n + 1]))
        if sum(1 for k, _ in spec if k == "ellipsis") > 1:
            continue
        yield "normidx", {"shape": shape, "index": spec}
    # (2d) scale: axes longer than 255 / 65535 (index dtypes chosen with np.min_scalar_type) and more than 10 blocks
    for n, nb in [(300, 3), (257, 2), (600, 13)] + ([(70000, 2)] if thorough or rng.random() < 0.5 else []):
        base = n // nb
        lengths = [base] * (nb - 1) + [n - base * (nb - 1)]
        k = rng.choice([n, n + 3, 40])
        idx = [rng.randrange(-n, n) for _ in range(k)]
        if rng.random() < 0.5:
            idx[0], idx[-1] = n - 1, 0          # touch both ends
        yield "take", {"chunks": [lengths], "axis": 0, "index": idx}
        yield "take", {"chunks": [lengths], "axis": 0, "index": sorted(i % n for i in idx)}
    for _ in range(ctx.n(6, 60)):
        nb = rng.randint(11, 16)
        lengths = [rng.choice([1, 2, 3]) for _ in range(nb)]
        n = sum(lengths)
        v = [None] + list(range(-n - 2, n + 3))
        yield "api1d", {"lengths": lengths, "s": [rng.choice(v), rng.choice(v), rng.choice([None, 1, 2, 3, -1, -2, -3])]}
        yield "apind", {"shape": [n, 2], "chunks": [lengths, [2]],
                        "index": [(rng.choice(["list", "dalist"]), [rng.randrange(-n, n) for _ in range(rng.randint(1, n))])]}
    for n, c in [(600, 300), (520, 260)]:
        pts = [rng.randrange(-n, n) for _ in range(rng.choice([5, 300]))]
        yield "vindex", {"shape": [n, 2], "chunks": [[c, n - c], [1, 1]], "index": [("array", pts), ("slice", [None, None, None])],
                         "ashapes": [[len(pts)]]}
    # (2e) unusual but valid index element types
    for _ in range(ctx.n(70, 700)):
        n = rng.randint(1, 7)
        lengths = list(random_chunks(rng, n))
        kind = rng.choice(["npint", "float", "zerod", "list-npint", "array-dtype", "da-array-dtype", "boollist", "da-zerod",
                           "vindex-da"])
        inp = {"n": n, "lengths": lengths, "kind": kind}
        if kind == "npint":
            dt = rng.choice(["int8", "int32", "int64", "uint8", "uint32"])
            inp["dtype"] = dt
            inp["v"] = rng.randrange(0, n) if dt.startswith("u") else rng.randrange(-n, n)
        elif kind in ("float", "zerod", "da-zerod"):
            inp["v"] = rng.randrange(-n, n)
        elif kind == "list-npint":
            inp["v"] = [rng.randrange(-n, n) for _ in range(rng.randint(1, n + 2))]
        elif kind in ("array-dtype", "da-array-dtype"):
            dt = rng.choice(["int8", "int16", "uint8", "uint16", "uint64", "int64"])
            inp["dtype"] = dt
            inp["v"] = [rng.randrange(0, n) if dt.startswith("u") else rng.randrange(-n, n) for _ in range(rng.randint(1, n + 2))]
        elif kind == "boollist":
            inp["v"] = [rng.random() < 0.5 for _ in range(n)]
        else:
            inp["v"] = [rng.randrange(-n, n) for _ in range(rng.randint(1, n + 2))]
        yield "exotic", inp
    # (3) API level, one axis
    for n in range(0, 7):
        for lengths in compositions(n):
            for s in _all_slices(n):
                if rng.random() < (0.0012 if not thorough else 0.03):
                    yield "api1d", {"lengths": list(lengths), "s": s}
    for _ in range(ctx.n(30, 400)):
        n = rng.randint(1, 5)
        lengths = random_chunks(rng, n, zeros=1.0)
        v = [None] + list(range(-n - 2, n + 3))
        yield "api1d", {"lengths": list(lengths), "s": [rng.choice(v), rng.choice(v), rng.choice([None, 1, 2, -1, -2, -3])]}
    # (3b) API level: near-identity integer indexers, alone and inside N-d indices, all chunkings of small axes
    for n in range(1, 5):
        full = _sorted_full_length(n)
        for lengths in compositions(n):
            picks = full if (thorough or n <= 3) else rng.sample(full, 8)
            for idx in picks:
                if not thorough and rng.random() > 0.5:
                    continue
                form = rng.randrange(4)
                other = rng.randint(1, 3)
                och = list(random_chunks(rng, other))
                if form == 0:
                    yield "apind", {"shape": [n], "chunks": [list(lengths)], "index": [("list", idx)]}
                elif form == 1:
                    yield "apind", {"shape": [other, n], "chunks": [och, list(lengths)],
                                    "index": [("slice", [None, None, None]), ("array", idx)]}
                elif form == 2:
                    yield "apind", {"shape": [other, n], "chunks": [och, list(lengths)],
                                    "index": [("int", rng.randrange(-other, other)), ("list", idx)]}
                else:
                    yield "apind", {"shape": [n, other], "chunks": [list(lengths), och],
                                    "index": [("list", idx), ("slice", [None, None, rng.choice([None, -1, 2])])]}
    # (4) API level, N-d mixes
    for _ in range(ctx.n(140, 2500)):
        shape, chunks = _rand_nd(rng)
        yield "apind", {"shape": shape, "chunks": chunks, "index": _rand_nd_index(rng, shape)}
    # (4a') boolean masks (NumPy and dask) whose length differs from the axis, incl. length-one axes / length-one masks
    for _ in range(ctx.n(40, 600)):
        shape, chunks = _rand_nd(rng, zero=0.0)
        if rng.random() < 0.5:
            shape[0] = 1
            chunks[0] = [1]
        n = shape[0]
        m = rng.choice([1, n + 1, n + 2, max(1, n - 1)]) if rng.random() < 0.85 else n
        mask = [rng.random() < 0.7 for _ in range(m)]
        spec = [(rng.choice(["bool", "dabool", "dabool"]), mask)]
        if len(shape) > 1 and rng.random() < 0.4:
            spec.append(("slice", [None, None, rng.choice([None, -1])]))
        yield "apind", {"shape": shape, "chunks": chunks, "index": spec}
    # (4b) np.newaxis next to an array index (list / NumPy / dask, int / bool): at least one None and one array index
    made = 0
    while made < ctx.n(110, 1800):
        shape, chunks = _rand_nd(rng, zero=0.05)
        spec = _rand_nd_index(rng, shape)
        if not any(k in FANCY for k, _ in spec):
            continue
        for _ in range(rng.choice([1, 1, 2])):
            spec.insert(rng.randint(0, len(spec)), ("none", None))
        made += 1
        yield "apind", {"shape": shape, "chunks": chunks, "index": spec}
    for _ in range(ctx.n(70, 1200)):
        nd = rng.randint(1, 3)
        shape = [rng.randint(1, 5) for _ in range(nd)]
        chunks = [list(random_chunks(rng, s, zeros=0.1)) for s in shape]
        narr = rng.randint(1, nd)
        arr_axes = sorted(rng.sample(range(nd), narr))
        # broadcastable point shapes: a common shape with some entries replaced by 1 / dimensions dropped
        common = [rng.randint(1, 4) for _ in range(rng.choice([1, 1, 1, 2]))]
        index, ashapes = [], []
        use_ell = rng.random() < 0.15
        for ax in range(nd):
            n = shape[ax]
            if ax in arr_axes:
                sh = [c if rng.random() < 0.75 else 1 for c in common][rng.randint(0, len(common) - 1) if len(common) > 1 and rng.random() < 0.3 else 0:]
                cnt = 1
                for c in sh:
                    cnt *= c
                lo, hi = (-n, n) if rng.random() < 0.93 else (-n - 1, n + 1)
                index.append(("array", [rng.randrange(lo, hi) for _ in range(cnt)]))
                ashapes.append(sh)
            else:
                t = rng.random()
                if t < 0.35:
                    index.append(("int", rng.randrange(-n, n)))
                elif t < 0.8 or use_ell is None:
                    v = [None] + list(range(-n - 1, n + 2))
                    index.append(("slice", [rng.choice(v), rng.choice(v), rng.choice([None, 1, 2, -1, -2])]))
                else:
                    index.append(("slice", [None, None, None]))
        if use_ell:
            # replace a trailing run of full slices by an Ellipsis when there is one
            while index and index[-1] == ("slice", [None, None, None]):
                index.pop()
            index.append(("ellipsis", None))
        yield "vindex", {"shape": shape, "chunks": chunks, "index": index, "ashapes": ashapes}
    # _vindex_array at graph level
    for _ in range(ctx.n(120, 2000)):
        nd = rng.randint(1, 3)
        shape = [rng.randint(1, 6) for _ in range(nd)]
        chunks = [list(random_chunks(rng, n, zeros=0.15)) for n in shape]
        axes = sorted(rng.sample(range(nd), rng.randint(1, nd)))
        npts = rng.choice([0, 1, 2, 3, 5, 8, 13])
        pts = [[rng.randrange(shape[a]) for a in axes] for _ in range(npts)]
        yield "vindexplan", {"chunks": chunks, "axes": axes, "points": pts}
    if thorough:
        # exhaustive small space: every chunking (zero-length chunks included) of n <= 3, every list of <= 3 points
        for n in range(1, 4):
            for c in compositions(n, zeros=True, maxparts=3):
                for npts in range(0, 4):
                    for pts in itertools.product(range(n), repeat=npts):
                        yield "vindexplan", {"chunks": [list(c)], "axes": [0], "points": [[p] for p in pts]}
        for c0 in compositions(2):
            for c1 in compositions(3):
                for pts in itertools.product(itertools.product(range(2), range(3)), repeat=2):
                    yield "vindexplan", {"chunks": [list(c0), list(c1)], "axes": [0, 1], "points": [list(p) for p in pts]}
    # vindex with no points, incl. on axes of length zero (their largest chunk is 0)
    for _ in range(ctx.n(12, 120)):
        nd = rng.randint(1, 3)
        shape = [rng.choice([0, 0, 1, 3]) for _ in range(nd)]
        chunks = [list(random_chunks(rng, s, zeros=0.3)) for s in shape]
        arr_axes = sorted(rng.sample(range(nd), rng.randint(1, nd)))
        index, ashapes = [], []
        for ax in range(nd):
            if ax in arr_axes:
                index.append(("array", []))
                ashapes.append([0])
            else:
                index.append(("slice", [None, None, None]))
        yield "vindex", {"shape": shape, "chunks": chunks, "index": index, "ashapes": ashapes}
    for _ in range(ctx.n(60, 900)):
        nd = rng.randint(1, 3)
        shape = [rng.randint(1, 5) for _ in range(nd)]
        chunks = [list(random_chunks(rng, s, zeros=0.1)) for s in shape]
        size = 1
        for v in shape:
            size *= v
        p = rng.choice([0.0, 0.3, 0.5, 0.8, 1.0])
        dm = rng.random() < 0.6
        yield "maskfull", {"shape": shape, "chunks": chunks, "mask": [rng.random() < p for _ in range(size)], "dask_mask": dm,
                           "mchunks": chunks if rng.random() < 0.5 else [list(random_chunks(rng, s)) for s in shape]}
    for _ in range(ctx.n(60, 400)):
        nd = rng.randint(1, 3)
        shape = [rng.randint(1, 6) for _ in range(nd)]
        chunks = [list(random_chunks(rng, s)) for s in shape]
        spec = []
        for ch in chunks[: rng.randint(1, nd)]:
            nb = len(ch)
            t = rng.random()
            if t < 0.4:
                spec.append(("int", rng.randrange(-nb, nb)))
            elif t < 0.8:
                v = [None] + list(range(-nb - 1, nb + 2))
                spec.append(("slice", [rng.choice(v), rng.choice(v), rng.choice([None, 1, 2, -1])]))
            else:
                spec.append(("list", [rng.randrange(0, nb) for _ in range(rng.randint(1, 3))]))
        seen_list = False
        for j, (k, _) in enumerate(spec):
            if k == "list":
                if seen_list:
                    spec[j] = ("slice", [None, None, None])
                seen_list = True
        yield "blocks", {"shape": shape, "chunks": chunks, "index": spec}
    # extension round: BlockView graph/chunks and the dask integer-array index plan against their Lean models
    yield from _c20x.generate(ctx)
    yield from _c20xm.generate(ctx)


def search(ctx):
    """Failing-input search: the same streams, biased towards the API level and the exhaustive small space."""
    rng = ctx.rng
    for n in range(0, 6):
        for lengths in compositions(n):
            for s in _all_slices(n):
                if rng.random() < 0.05:
                    yield "slice1d", {"lengths": list(lengths), "s": s}
                if rng.random() < 0.01:
                    yield "api1d", {"lengths": list(lengths), "s": s}
    yield from generate(ctx)
