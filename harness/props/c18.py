"""C18 — size and duration helpers round-trip and meet their documented bounds.

Model:    lean/DaskModel/Model/Bytes.lean — format_bytes / parse_bytes / parse_timedelta / natural_sort_key with EXACT
          binary64 semantics in integer arithmetic (k*0.9, n/k, "%.2f", float("ddd.dd"), float*int), over tables
          re-extracted from the source on every run (lean/DaskModel/Generated/ByteTables.lean)
Theorems: lean/DaskModel/Props/C18.lean
Tie:      exact string / integer / exact-dyadic comparison of the model with the real functions (this validates the
          float model), on all band boundaries +-2, rounding edges of the printed cents, the 11-character boundary,
          random integers of every magnitude; every unit spelling x casing x numeric prefix; random strings.
          Property oracles on the real code: length bound, parse(format(n)) round trip, documented multipliers,
          totality/shape of key_split and natural_sort_key.
"""
from __future__ import annotations

import itertools
from fractions import Fraction

from sexp import Sym

PROP = "C18"
READY = True
DRIVER = "dm_stores"
LEAN_MODULES = ["DaskModel.Props.C18", "DaskModel.Props.C18b", "DaskModel.Props.C18c", "DaskModel.Props.C18xUnder"]
TABLES = ["ByteTables"]
CASE_TIMEOUT_S = 10
N0 = 1125894277343089729          # first n whose rendering has 11 characters (Lean: format_len_partial / _refuted)
FINDING_SIG = "format_bytes:11-chars:1125894277343089729<=n<2**60"
LEVEL_TEXT = (
    "PROVED (Lean 4, over an exact integer model of the binary64 arithmetic — k*0.9 as the extracted double, "
    "correctly rounded n/k, round-half-even '%.2f' — and the prefix table / factor / precision / unit tables extracted "
    "from the source on every run): format_len_le_10_refuted (the documented bound '<= 10 characters for all values "
    "< 2**60' is FALSE: n = 1125894277343089729 prints '1000.00 PiB'), format_len_partial (the bound holds for every "
    "n < 1125894277343089729; band by band from rn53_mono / rheDiv_mono / cents_mono and one evaluation per band "
    "end, no enumeration), format_len_exact (every N0 <= n < 2**60 prints exactly 11 characters: the finding's range "
    "is exact). The violation is a known finding (not repaired: the pinned test_format_bytes requires "
    "format_bytes(2**60) == '1024.00 PiB'). parse_bytes_units / parse_timedelta_units (every row of the extracted "
    "tables, any letter case, any supported numeric prefix: int(float(prefix) * multiplier) resp. the exact binary64 "
    "product), parse_bytes_units_underscore (the same for prefixes with PEP-515 digit separators, e.g. '1_000kB': "
    "int(float(prefix without its separators) * multiplier); stripUnder_filter / stripUnder_id / stripUnder_leading / "
    "stripUnder_trailing: separator removal as in CPython's float(), parseBytesU_conservative: without '_' the extended "
    "model is the old one), byte_sizes_documented / timedelta_sizes_documented, parse_timedelta_default_unit (a string without "
    "trailing letters is read in the default unit exactly as if the unit were written) and parse_timedelta_bare_unit "
    "(a bare unit means one of it), parse_format_roundtrip (every n < 2**60 in a band k: "
    "|parse_bytes(format_bytes(n)) - n| <= k/200 + 321, all binary64 roundings on the way accounted for) and "
    "parse_format_plain (exact below the first band), natural_sort_key_shape / splitDigits_concat, key_split: "
    "key_split_name_prefix / key_split_all_words (for keys `words-…-token` the result is the leading run of "
    "alphabetic words; 8-letter words starting a-f count as hex), key_split_hex32 (a bare 32-hex token is 'data'); "
    "totality of key_split / natural_sort_key is by construction (total functions, 'Other' on any exception). "
    "VALIDATED ONLY (exact differential correspondence on every run): format_time (exact binary64 model "
    "Model/FormatTime.lean: thresholds, float/int division, float-int subtraction, truncation, '%.2f'; diffed on all "
    "thresholds +- ulps, unit multiples +- ulps, random magnitudes; no theorem), typename (module/name/short model), "
    "funcname (oracle: partial unwrapping, lambda, 50-character cut), key_split on bytes/tuples/non-strings, "
    "non-string arguments of parse_bytes / parse_timedelta.")
LEVEL_NOTE = ("Trusted: Lean kernel + standard axioms; CPython's float formatting/parsing being correctly rounded "
              "(validated by exact string comparison against the integer model on every run); the extractor; the "
              "correspondence harness. Only ASCII input strings; float literal syntax limited to "
              "[sign]digits[.digits][e[sign]digits], for parse_bytes with PEP-515 digit separators between digits "
              "(Model/ParseUnder.lean; parse_timedelta with separators stays oracle only).")
TECHNIQUE = ("Lean 4 proof (monotonicity of the two roundings, band-wise bounds, list-level string reasoning for the "
             "parsers and key_split) over extractor-regenerated tables + exact differential correspondence of the float model")
ASSUMPTIONS = ["CPython float(), int/int and float/int true division, float*float, float-int and '%.2f' are correctly "
               "rounded (IEEE 754 binary64)",
               "no overflow / subnormal / inf / nan in the exercised ranges; format_time inputs are finite, >= 0, < 2**53",
               "ASCII strings (str.isalpha / isdigit / split() are modelled on ASCII only)"]
TRUSTED = ["re (hex_pattern, the 32-hex test and natural_sort_key's split are transliterated, validated by the diff)",
           "sys.intern (identity of the returned string is not observed)"]


# The DOCUMENTED multipliers (docstrings of parse_bytes / parse_timedelta, SI and IEC prefixes). The oracle scales by
# these, not by the tables found in the code, so that a changed table entry is a property failure and not a
# "harmless" change that model and code agree on. (Lean pins the extracted tables the same way:
# byte_sizes_documented / timedelta_sizes_documented.)
_SI = {"k": 10 ** 3, "m": 10 ** 6, "g": 10 ** 9, "t": 10 ** 12, "p": 10 ** 15}
DOC_BYTES = {"b": 1, "": 1}
for _p, _v in _SI.items():
    DOC_BYTES[_p + "b"] = _v
    DOC_BYTES[_p] = _v
    DOC_BYTES[_p + "ib"] = 1024 ** (list(_SI).index(_p) + 1)
    DOC_BYTES[_p + "i"] = 1024 ** (list(_SI).index(_p) + 1)
DOC_TD = {"s": 1, "ms": 1e-3, "us": 1e-6, "ns": 1e-9, "m": 60, "h": 3600, "d": 86400, "w": 604800}
for _n, _v in (("second", 1), ("minute", 60), ("hour", 3600), ("day", 86400), ("week", 604800),
               ("millisecond", 1e-3), ("microsecond", 1e-6), ("nanosecond", 1e-9)):
    DOC_TD[_n] = _v
    DOC_TD[_n + "s"] = _v


def _tables():
    """the documented tables; the keys the code knows are only used to enumerate spellings"""
    return DOC_BYTES, DOC_TD


def _bands():
    """(prefix, k) as the real format_bytes scans them — recovered from the source by the extractor; here only for
    the generator and the round-trip tolerance, taken from the documented powers of 1024"""
    return [("Pi", 2 ** 50), ("Ti", 2 ** 40), ("Gi", 2 ** 30), ("Mi", 2 ** 20), ("ki", 2 ** 10)]


def case_fmt(ctx, inp):
    from dask.utils import format_bytes, parse_bytes
    n = int(inp["n"])
    real = format_bytes(n)
    ctx.eq("format_bytes", ctx.lean(Sym("fmt-bytes"), n), real)
    if 0 <= n < 2 ** 60:
        if len(real) > 10:
            ctx.branch("eleven-characters")
            ctx.fail("format_bytes output longer than the documented 10 characters", sig=FINDING_SIG if n >= N0 else None,
                     observed=[n, real])
        elif n >= N0:
            ctx.fail("finding no longer reproduces: update known_findings / the Lean refutation", observed=[n, real])
    unit = real.split(" ")[1]
    ctx.branch("band-" + unit)
    if n >= 2 ** 53:
        ctx.branch("n-above-2^53")
    kk = {p + "B": k for p, k in _bands()}.get(unit)
    if kk is not None and n >= 0:
        # the model's shortcut for powers of two (rn53(n) * 2^-e) against its general correctly rounded quotient
        q = ctx.lean(Sym("quot-general"), n, kk)
        ctx.eq("model: general quotient vs power-of-two shortcut", q[0], q[1])
    # round trip within the printed precision
    try:
        back = parse_bytes(real)
    except ValueError as e:
        ctx.fail("parse_bytes cannot read format_bytes output", observed=[n, real, str(e)])
        return
    ctx.eq("parse_bytes(format_bytes(n))", ctx.lean(Sym("parse-bytes"), real), [Sym("ok"), back])
    if n >= 0:
        k = {p + "B": kk for p, kk in _bands()}.get(unit, None)
        tol = 0 if k is None else Fraction(k, 200) + 1 + Fraction(n, 2 ** 52)
        if abs(back - n) > tol:
            ctx.fail("parse_bytes(format_bytes(n)) is further from n than the printed precision allows",
                     observed=[n, real, back], expected=float(tol))


def _td_result(r):
    if isinstance(r, int) and not isinstance(r, bool):
        return [Sym("int"), r]
    f = Fraction(r)
    return ("float", f)


def _td_match(model, r):
    if isinstance(r, tuple):
        if model[0] != "float":
            return False
        v = Fraction(model[2]) * (Fraction(2) ** model[3])
        return (-v if model[1] else v) == r[1]
    return model == r


def case_parse(ctx, inp):
    from dask.utils import parse_bytes
    s = inp["s"]
    try:
        impl = [Sym("ok"), parse_bytes(s)]
    except ValueError as e:
        impl = [Sym("bad-number" if "as a number" in str(e) else "bad-unit")]
    if "_" in s:
        # float() accepts PEP-515 digit separators ("1_000"): Model/ParseUnder.lean (stripUnder in front of the literal grammar)
        ctx.eq("parse_bytes (digit separators)", ctx.lean(Sym("parse-bytes-u"), s), impl)
        ctx.branch("parse-underscore-" + str(impl[0]))
    else:
        ctx.eq("parse_bytes", ctx.lean(Sym("parse-bytes"), s), impl)
        if inp.get("both"):
            # parseBytesU_conservative: without separators the extended model is the old one
            ctx.eq("parse_bytes (extended model, no separator)", ctx.lean(Sym("parse-bytes-u"), s), impl)
            ctx.branch("parse-extended-model-no-separator")
    ctx.branch("parse-" + str(impl[0]))
    if "unit" in inp:
        # documented multiplier, independent of letter case / spaces
        byte_sizes, _ = _tables()
        want = int(float(inp["num"]) * byte_sizes[inp["unit"].lower()]) if inp["num"] else byte_sizes[inp["unit"].lower()]
        if impl != [Sym("ok"), want]:
            ctx.fail("parse_bytes does not scale a documented unit spelling by its multiplier",
                     observed=[s, impl], expected=want)
        if inp["unit"] != inp["unit"].lower() and inp["unit"] != inp["unit"].upper():
            ctx.branch("mixed-case-unit")


def case_td(ctx, inp):
    from dask.utils import parse_timedelta
    s, d = inp["s"], inp.get("default", "seconds")
    try:
        r = _td_result(parse_timedelta(s, default=d))
    except (IndexError, ValueError, KeyError) as e:
        r = [Sym(type(e).__name__)]
    m = ctx.lean(Sym("parse-td"), s, d)
    if not _td_match(m, r):
        ctx.disagree("parse_timedelta", m, r if not isinstance(r, tuple) else ["float", str(r[1])])
    ctx.branch("td-" + (r[0] if isinstance(r, tuple) else str(r[0])))
    if "unit" in inp:
        _, td = _tables()
        want = float(inp["num"]) * td[inp["unit"].lower()]
        got = r[1] if isinstance(r, tuple) else (Fraction(r[1]) if r[0] == "int" else None)
        if got is None or got != Fraction(want):
            ctx.fail("parse_timedelta does not scale a documented unit spelling by its multiplier",
                     observed=[s, str(got)], expected=want)


def case_natsort(ctx, inp):
    from dask.utils import natural_sort_key
    s = inp["s"]
    real = natural_sort_key(s)
    ctx.eq("natural_sort_key", ctx.lean(Sym("nat-sort"), s), real)
    # documented shape: text, int, text, ..., text; digit runs maximal; the pieces spell the input
    if len(real) % 2 != 1:
        ctx.fail("natural_sort_key: even number of parts", observed=real)
    for i, p in enumerate(real):
        if i % 2 == 0 and not (isinstance(p, str) and not any(c.isdigit() for c in p)):
            ctx.fail("natural_sort_key: even position is not digit-free text", observed=real)
        if i % 2 == 1 and not (isinstance(p, int) and not isinstance(p, bool)):
            ctx.fail("natural_sort_key: odd position is not an int", observed=real)
    if len(real) > 1:
        ctx.branch("natsort-%d-numbers" % min(len(real) // 2, 3))


DOC_KEY_SPLIT = [("x", "x"), ("x-1", "x"), ("x-1-2-3", "x"), (("x-2", 1), "x"), ("('x-2', 1)", "x"), ("('x', 1)", "x"),
                 ("hello-world-1", "hello-world"), (b"hello-world-1", "hello-world"),
                 ("ae05086432ca935f6eba409a8ecd4896", "data"), ("<module.submodule.myclass object at 0xdaf372", "myclass"),
                 (None, "Other"), ("x-abcdefab", "x"), ("_(x)", "x")]


def case_keysplit(ctx, inp):
    from dask.utils import key_split
    kind, s = inp["kind"], inp["s"]
    arg = {"str": s, "bytes": s.encode() if isinstance(s, str) else s, "tuple": (s, 1), "none": None, "int": 7,
           "doc": None}[kind]
    if kind == "doc":
        arg, want = DOC_KEY_SPLIT[inp["i"]]
        arg = tuple(arg) if isinstance(arg, list) else arg
    try:
        r = key_split(arg)
    except Exception as e:  # noqa: BLE001 - key_split is documented total
        ctx.fail("key_split raised", observed=f"{type(e).__name__}: {e}")
        return
    if not isinstance(r, str):
        ctx.fail("key_split did not return a str", observed=repr(r))
    if kind == "str" or (kind == "doc" and isinstance(arg, str)):
        ctx.eq("key_split", ctx.lean(Sym("key-split"), arg), r)
    if kind == "doc" and r != want:
        ctx.fail("key_split differs from its documented example", observed=r, expected=want)
    if kind in ("bytes", "tuple") and r != key_split(s):
        ctx.fail("key_split of bytes / tuple differs from key_split of the text", observed=[r, key_split(s)])
    ctx.branch("keysplit-" + ("Other" if r == "Other" else "data" if r == "data" else "name"))


def case_misc(ctx, inp):
    """non-string arguments (documented): numbers pass through, timedeltas are total seconds, None stays None"""
    import datetime
    from dask.utils import parse_bytes, parse_timedelta
    kind, v = inp["kind"], inp["v"]
    if kind == "bytes-int":
        if parse_bytes(v) != v or type(parse_bytes(v)) is not int:
            ctx.fail("parse_bytes(int) is not the identity", observed=[v, parse_bytes(v)])
    elif kind == "bytes-float":
        x = v / 4
        if parse_bytes(x) != int(x):
            ctx.fail("parse_bytes(float) is not int(float)", observed=[x, parse_bytes(x)])
    elif kind == "td-none":
        if parse_timedelta(None) is not None:
            ctx.fail("parse_timedelta(None) is not None")
    elif kind == "td-delta":
        d = datetime.timedelta(milliseconds=v)
        r = parse_timedelta(d)
        want = d.total_seconds()
        if r != want or (int(want) == want) != isinstance(r, int):
            ctx.fail("parse_timedelta(timedelta) is not its total seconds (int when integral)", observed=[v, repr(r)])
    elif kind == "td-number":
        x = v / 4
        for unit, mult in (("seconds", 1), ("ms", 1e-3), ("h", 3600)):
            r = parse_timedelta(x, default=unit)
            want = float(str(x)) * mult
            if r != want or (int(want) == want) != isinstance(r, int):
                ctx.fail("parse_timedelta(number, default=unit) is not number * unit", observed=[x, unit, repr(r)], expected=want)
        try:
            parse_timedelta(x, default=False)
            ctx.fail("parse_timedelta(number, default=False) did not raise ValueError")
        except ValueError:
            pass
    ctx.branch("misc-" + kind)


def case_tables(ctx, inp):
    """the tables in the code are the documented ones"""
    import dask.utils as du
    if dict(du.byte_sizes) != DOC_BYTES:
        diff = {k: (du.byte_sizes.get(k), DOC_BYTES.get(k)) for k in set(du.byte_sizes) | set(DOC_BYTES)
                if du.byte_sizes.get(k) != DOC_BYTES.get(k)}
        ctx.fail("byte_sizes differs from the documented units / multipliers", observed=diff)
    low = {k: v for k, v in du.timedelta_sizes.items() if k == k.lower()}
    if low != DOC_TD:
        diff = {k: (low.get(k), DOC_TD.get(k)) for k in set(low) | set(DOC_TD) if low.get(k) != DOC_TD.get(k)}
        ctx.fail("timedelta_sizes differs from the documented units / multipliers", observed=diff)
    ctx.branch("tables")


def _float_me(x):
    """a finite float >= 0 as (m, e) with x == m * 2**e"""
    num, den = float(x).as_integer_ratio()
    return num, -(den.bit_length() - 1)


def case_fmttime(ctx, inp):
    """format_time against the exact binary64 model (lean/DaskModel/Model/FormatTime.lean)"""
    from dask.utils import format_time
    if "int" in inp:
        n = int(inp["int"])
        real = format_time(n)
        if real != format_time(float(n)):
            ctx.fail("format_time(int) differs from format_time(float(int))", observed=[n, real, format_time(float(n))])
        x = float(n)
    else:
        x = float.fromhex(inp["hex"])
        real = format_time(x)
    m, e = _float_me(x)
    ctx.eq("format_time", ctx.lean(Sym("fmt-time"), m, e), real)
    unit = real.split(" ")[-1] if " " in real else real
    ctx.branch("time-" + ("d-hr" if real.endswith("hr") and "d " in real else "hr-m" if real.endswith("m") else
                          "m-s" if "m " in real else unit))
    # documented shapes: two fields, units in decreasing order; the small branches print two decimals
    if x >= 1 and x <= 600 and not (real.endswith(" s") and len(real.split(".")[-1]) == 4):
        ctx.fail("format_time: seconds are not printed as 'x.xx s'", observed=[x, real])


def case_names(ctx, inp):
    """typename (modelled: module / name / short) and funcname (oracle: documented unwrapping and the 50-char cut)"""
    import functools
    from dask.utils import funcname, typename
    kind = inp["kind"]
    if kind == "typename":
        mod, name = inp["module"], inp["name"]
        typ = type(name, (), {})
        typ.__module__ = mod
        for short in (False, True):
            real = typename(typ, short=short)
            ctx.eq("typename", ctx.lean(Sym("typename"), mod, name, short), real)
            # an instance is named after its type — in the LONG form whatever `short` says (the code recurses with
            # `typename(type(typ))`, dropping the flag; noted in notes/stores.md, outside the statement of C18)
            ctx.eq("typename(instance)", ctx.lean(Sym("typename"), mod, name, False), typename(typ(), short=short))
        ctx.branch("typename-" + ("bare" if not mod or mod == "builtins" else "dotted" if "." in mod else "module"))
        return
    base_name = inp["name"]

    def f():
        pass
    f.__name__ = base_name
    want = "lambda" if base_name == "<lambda>" else base_name[:50]
    obj = f
    for _ in range(inp.get("partials", 0)):
        obj = functools.partial(obj, 1)
    got = funcname(obj)
    if got != want:
        ctx.fail("funcname of a (partial of a) function is not its name cut to 50 characters", observed=got, expected=want)
    from dask.utils import methodcaller     # dask's own picklable methodcaller (funcname knows this one)
    mc = funcname(methodcaller(base_name if base_name.isidentifier() else "m"))
    if mc != (base_name if base_name.isidentifier() else "m")[:50]:
        ctx.fail("funcname(methodcaller(name)) is not the method name", observed=mc)
    if len(got) > 50 or len(mc) > 50:
        ctx.fail("funcname longer than 50 characters", observed=[got, mc])
    ctx.branch("funcname-" + ("lambda" if want == "lambda" else "cut" if len(base_name) > 50 else "plain"))


CASES = {"fmt": case_fmt, "parse": case_parse, "td": case_td, "natsort": case_natsort, "keysplit": case_keysplit,
         "tables": case_tables, "misc": case_misc, "fmttime": case_fmttime, "names": case_names}


def _casings(rng, u, k=3):
    out = {u, u.lower(), u.upper(), u.capitalize()}
    for _ in range(k):
        out.add("".join(c.upper() if rng.random() < 0.5 else c.lower() for c in u))
    return sorted(out)


NUMS = ["1", "5", "100", "5.4", ".5", "1.", "0.1", "1e3", "1e-3", "1.5e2", "12.34", "999.99", "1000.00", "0", "007",
        "123456789.123456789", "2.5E1", "1e+2"]


def _huge_exponent(s):
    """float overflow / underflow is outside the model (and outside the statement)"""
    import re
    return re.search(r"[eE]\s*[+-]?\s*\d\s*\d\s*\d", s) is not None


def generate(ctx):
    from props._stores_util import ensure_budget
    ensure_budget(ctx, quick_scale=2.0)
    rng = ctx.rng
    byte_sizes, td_sizes = _tables()
    yield "tables", {}
    yield "misc", {"kind": "td-none", "v": 0}
    for _ in range(ctx.n(40, 400)):
        yield "misc", {"kind": rng.choice(["bytes-int", "bytes-float", "td-delta", "td-number"]),
                       "v": rng.choice([0, 1, 2, 3, 100, 1500, 86400000, rng.randrange(0, 10 ** 7)])}
    # ---- format_bytes: boundaries, rounding edges, the finding's boundary, magnitudes
    yield "fmt", {"n": 2 ** 60 - 1}
    for d in (-3, -2, -1, 0, 1, 2):
        yield "fmt", {"n": N0 + d}
    for n in (0, 1, 9, 10, 99, 100, 920, 921, 922, 930, 999, 1000, 1023, 1024, -1, -1024, 2 ** 60, 2 ** 60 + 1, 2 ** 64):
        yield "fmt", {"n": n}
    for _, k in _bands():
        t = int(k * 0.9)
        for d in range(-2, 3):
            yield "fmt", {"n": t + d}
            yield "fmt", {"n": k + d}
            yield "fmt", {"n": 1000 * k + d}
            yield "fmt", {"n": int(999.995 * k) + d}
    for e in range(53, 61):
        for d in (-2, -1, 0, 1, 2):
            yield "fmt", {"n": 2 ** e + d}
    for _ in range(ctx.n(600, 6000)):
        # rounding edges: x.xx5 in some band
        _, k = rng.choice(_bands())
        c = rng.randint(90, 102399)
        n = (2 * c + 1) * k // 200 + rng.randint(-2, 2)
        yield "fmt", {"n": max(n, 0)}
    for _ in range(ctx.n(1500, 20000)):
        yield "fmt", {"n": rng.randrange(0, 2 ** rng.randint(1, 60))}
    for _ in range(ctx.n(200, 2000)):
        yield "fmt", {"n": rng.randrange(N0 - 2 ** 20, 2 ** 60)}
    # ---- parse_bytes: every unit spelling x casings x numeric prefixes
    units = sorted(byte_sizes)
    for u in units:
        for cu in _casings(rng, u):
            for num in rng.sample(NUMS, 4 if not ctx.thorough() else len(NUMS)) + [""]:
                sp = rng.choice(["", " ", "  "])
                s = f"{num}{sp}{cu}"
                if num == "" and cu == "":
                    continue
                if cu and cu[0] in "eE" and num and num[-1].isdigit():
                    continue
                yield "parse", {"s": s, "unit": cu, "num": num}
    for num, u in (("1_0", "kB"), ("1_000", "MiB"), ("1_0.5_0", "kiB"), ("1_0e0_1", "B"), ("2_5", "")):
        yield "parse", {"s": num + u, "unit": u, "num": num}
    for s in ["1__0kB", "_1kB", "1_kB", "1_.5kB", "1._5kB", "1e_5", "1_e5", "1e5_", "1e+_5", "-_1kB", "_", "_kB", "1_0 k_B", "1 _0kB",
              "1_0e-0_1MB", "+1_2.3_4E0_2", "0_0", "1_2_3_4 B", "._5", "5_.", "1_000_000"]:
        yield "parse", {"s": s}
    ualpha = "0123456789__..eE+- kMiB"
    for _ in range(ctx.n(250, 2500)):
        # random placements of digit separators (valid and refused) around digits, points, exponents, signs, units
        s = "".join(rng.choice(ualpha) for _ in range(rng.randint(1, 8)))
        if not _huge_exponent(s.replace("_", "")):
            yield "parse", {"s": s, "both": True}
    for s in ["", " ", "5 foos", "1.5.3kB", "kB5", "5kB5", "-5kB", "+3MiB", "1e", "e5", ".", "..5", "5 k B", "12abc34", "MB"]:
        yield "parse", {"s": s}
    alphabet = "0123456789.eE+- kKmMgGtTpPiIbBx"
    for _ in range(ctx.n(400, 4000)):
        s = "".join(rng.choice(alphabet) for _ in range(rng.randint(0, 8)))
        if not _huge_exponent(s):
            yield "parse", {"s": s}
    # ---- parse_timedelta
    tunits = sorted(set(k.lower() for k in td_sizes))
    for u in tunits:
        for cu in _casings(rng, u, 2):
            for num in rng.sample(NUMS, 3 if not ctx.thorough() else len(NUMS)):
                if cu[0] in "eE":
                    continue
                yield "td", {"s": f"{num}{rng.choice(['', ' '])}{cu}", "unit": cu, "num": num}
    for s, d in [("1", "seconds"), ("1", "ms"), ("", "seconds"), ("ms", "seconds"), (".5s", "seconds"), ("1 foo", "seconds"),
                 ("3 Ms", "seconds"), ("x5s", "seconds"), ("5", "HOURS"), ("-5s", "seconds"), ("1e3us", "seconds")]:
        yield "td", {"s": s, "default": d}
    talpha = "0123456789.e msuhdwMSn"
    for _ in range(ctx.n(300, 3000)):
        s = "".join(rng.choice(talpha) for _ in range(rng.randint(0, 7)))
        if not _huge_exponent(s):
            yield "td", {"s": s, "default": rng.choice(["seconds", "ms", "h"])}
    # ---- format_time: documented examples, every threshold +- a few ulps, integers, random magnitudes
    import math
    for x in (1, 0.001234, 0.00012345, 123.456, 1234.567, 12345.67, 123456.78, 1234567.89, 0.0, 1e-9, 0.999999, 1e-3,
              0.0009999999, 599.9999, 600.0, 600.5, 7200.0, 7200.5, 172800.0, 172800.5, 86400.0 * 3, 3600.0 * 5):
        yield "fmttime", {"hex": float(x).hex()}
    for t in (1e-3, 1.0, 600.0, 7200.0, 172800.0, 0.995, 9.995, 0.009995, 59.995):
        x = t
        for _ in range(3):
            x = math.nextafter(x, 0.0)
        for _ in range(7):
            yield "fmttime", {"hex": x.hex()}
            x = math.nextafter(x, math.inf)
    for _ in range(ctx.n(150, 1500)):
        # just below / at / above whole multiples of the units (the quotient may round up to an integer)
        unit = rng.choice([60, 3600, 86400])
        k = rng.randint(1, 5000 if unit < 86400 else 300)
        x = float(unit * k)
        for _ in range(rng.randint(0, 3)):
            x = math.nextafter(x, 0.0 if rng.random() < 0.7 else math.inf)
        yield "fmttime", {"hex": x.hex()}
    for _ in range(ctx.n(300, 3000)):
        x = rng.random() * 10.0 ** rng.randint(-9, 8)
        yield "fmttime", {"hex": x.hex()}
    for _ in range(ctx.n(100, 1000)):
        yield "fmttime", {"int": rng.choice([0, 1, 59, 60, 600, 601, 7200, 7201, 172800, 172801, rng.randrange(0, 10 ** rng.randint(1, 9))])}
    # ---- typename / funcname
    for mod in (None, "", "builtins", "dask", "dask.core", "a.b.c", "numpy"):
        for name in ("int", "literal", "X"):
            yield "names", {"kind": "typename", "module": mod, "name": name}
    for name in ("f", "<lambda>", "x" * 49, "x" * 50, "x" * 51, "x" * 120, "inc"):
        for partials in (0, 1, 3):
            yield "names", {"kind": "funcname", "name": name, "partials": partials}
    # ---- natural_sort_key, key_split
    for s in ["f0", "f10", "abc", "12", "a1b22c", "", "x007y", "1a", "a1", "a--1", "9" * 30]:
        yield "natsort", {"s": s}
    nalpha = "abXY019-_ ."
    for _ in range(ctx.n(300, 3000)):
        yield "natsort", {"s": "".join(rng.choice(nalpha) for _ in range(rng.randint(0, 10)))}
    for i in range(len(DOC_KEY_SPLIT)):
        yield "keysplit", {"kind": "doc", "s": "", "i": i}
    # str.split() whitespace inside the `<…>` branch: \t \n \r \x0b \x0c and the separators \x1c-\x1f
    for ws in " \t\n\r\x0b\x0c\x1c\x1d\x1e\x1f":
        for s in (f"<a.b{ws}c d>", f"<{ws}a.b>", f"<a{ws}>", f"x{ws}y-1", f"<{ws}>"):
            yield "keysplit", {"kind": "str", "s": s}
    kalpha = "abcdefxyz0123456789-_'(),.<> \"\t\x1c\x1f"
    words = ["x", "hello", "world", "abcdefab", "deadbeef", "ae05086432ca935f6eba409a8ecd4896", "<a.b.C object at 0x1>",
             "1", "22", "", "-", "('x', 1)", "_(x)", "getitem", "0abc", "<>", "< >",
             "ae05086432ca935f6eba409a8ecd489", "ae05086432ca935f6eba409a8ecd48961", "ge05086432ca935f6eba409a8ecd4896",
             "AE05086432CA935F6EBA409A8ECD4896", "abcdefgh", "abcdefg", "abcdefabc", "gbcdefab", "Abcdefab",
             "<a.b object>", "<a b.c d>", "<<x>>", "x,y", "(x,y)", "'x'", "\"x\"", "_x_", "x y", "<.>", "<a.>"]
    for _ in range(ctx.n(500, 5000)):
        if rng.random() < 0.6:
            s = "-".join(rng.choice(words) for _ in range(rng.randint(1, 4)))
        else:
            s = "".join(rng.choice(kalpha) for _ in range(rng.randint(0, 12)))
        yield "keysplit", {"kind": rng.choice(["str", "str", "str", "bytes", "tuple", "none", "int"]), "s": s}
