"""C29 extension round: the file plumbing of `to_npy_stack` / `from_npy_stack`.

Model:    lean/DaskModel/Model/NpyStack.lean (toNpyTasks, toNpyInfo, runSaves, fromNpyGraph, loadBlock, roundTrip)
Theorems: lean/DaskModel/Props/C29xNpy.lean (npy_key_grid, to_npy_tasks_den, from_npy_graph_den, npy_stack_roundtrip,
          npy_stale_files_ignored, from_npy_raises_iff, npy_needs_single_blocks)
Tie:      `npyplan`  the real `to_npy_stack` with its graph recorded (`compute_as_if_collection` of dask.array.core wrapped
                     for the call): the `np.save` tasks (file number, path, key of the rechunked array) vs `toNpyTasks`,
                     the pickled `info` vs `toNpyInfo`; the real `from_npy_stack` graph (key -> file) in dict order vs
                     `fromNpyGraph` on the info that was read; every block of the loaded array vs the block the model's
                     round trip names (clauses of `npy_stack_roundtrip` on the real output); stale higher-numbered files
                     untouched; `info` with an axis outside the chunks -> IndexError iff the model raises.
Imported by c29.py (section appended to its CASES / generate).
"""
from __future__ import annotations

import itertools
import os
import pickle
import shutil
import tempfile

from sexp import Sym

from props._slicing_util import random_chunks, unsym


def _slab(a, grid_chunks, key):
    sl = []
    for c, k in zip(grid_chunks, key):
        off = sum(c[:k])
        sl.append(slice(off, off + c[k]))
    return a[tuple(sl)]


def _fileno(dirname, path):
    d, base = os.path.split(path)
    if os.path.normpath(d) != os.path.normpath(dirname) or not base.endswith(".npy"):
        return None
    try:
        return int(base[:-4])
    except ValueError:
        return None


def case_npyplan(ctx, inp):
    import numpy as np
    import dask
    import dask.array as da
    import dask.array.core as C
    chunks = [list(c) for c in inp["chunks"]]
    axis = inp["axis"]
    nd = len(chunks)
    shape = [sum(c) for c in chunks]
    a = np.arange(int(np.prod(shape)) if shape else 1, dtype="int64").reshape(shape)
    x = da.from_array(a, chunks=tuple(tuple(c) for c in chunks))
    stale = sorted(set(inp.get("stale") or []))
    tmp = tempfile.mkdtemp(prefix="verif_c29x_")
    marker = np.array([-7, -7, -7], dtype="int64")
    rec = {}
    try:
        dirname = os.path.join(tmp, "stack")
        os.mkdir(dirname)
        for j in stale:
            np.save(os.path.join(dirname, "%d.npy" % j), marker)
        orig = C.compute_as_if_collection

        def recording(cls, dsk, keys, **kw):
            rec["graph"] = dsk
            return orig(cls, dsk, keys, **kw)

        C.compute_as_if_collection = recording
        try:
            with dask.config.set(scheduler=inp["scheduler"]):
                da.to_npy_stack(dirname, x, axis=axis)
        except Exception as e:
            ctx.fail("to_npy_stack raised " + type(e).__name__, observed=repr(e)[:300])
            return
        finally:
            C.compute_as_if_collection = orig
        # ---- the save tasks
        layer = [dict(l) for n, l in rec["graph"].layers.items() if n.startswith("to-npy-stack-")]
        if len(layer) != 1:
            ctx.disagree("to-npy-stack layer", 1, len(layer))
            return
        real_tasks = []
        for k, t in layer[0].items():
            if not (isinstance(t, tuple) and len(t) == 3 and t[0] is np.save):
                ctx.disagree("to_npy_stack task is not (np.save, path, key)", "np.save", repr(t)[:200])
                return
            real_tasks.append([int(k[1]), _fileno(dirname, t[1]), [int(v) for v in t[2][1:]]])
        for i, f, _k in real_tasks:
            if i != f:
                ctx.fail("to_npy_stack: task %d writes another file number" % i, observed=real_tasks)
        model_tasks = unsym(ctx.lean(Sym("npytasks"), axis, chunks))
        ctx.eq("np.save tasks of to_npy_stack (file number, key)", model_tasks, [[i, k] for i, _f, k in real_tasks])
        # ---- info
        with open(os.path.join(dirname, "info"), "rb") as f:
            info = pickle.load(f)
        info_chunks = [[int(v) for v in c] for c in info["chunks"]]
        ctx.eq("info chunks", unsym(ctx.lean(Sym("npychunks"), axis, chunks)), info_chunks)
        ctx.eq("info axis", axis, info["axis"])
        # ---- stale files untouched, own files written
        nfiles = len(model_tasks)
        for j in stale:
            if j >= nfiles:
                got = np.load(os.path.join(dirname, "%d.npy" % j))
                if got.shape != marker.shape or (got != marker).any():
                    ctx.fail("to_npy_stack changed a file it does not own", observed=[j, got.tolist()])
        present = sorted(int(f[:-4]) for f in os.listdir(dirname) if f.endswith(".npy"))
        if present != sorted(set(range(nfiles)) | set(stale)):
            ctx.fail("files in the directory after to_npy_stack", observed=present, expected=sorted(set(range(nfiles)) | set(stale)))
        # ---- from_npy_stack: the graph
        model_from = unsym(ctx.lean(Sym("npyfrom"), info["axis"], info_chunks))
        try:
            b = da.from_npy_stack(dirname, mmap_mode=None)
        except IndexError:
            ctx.eq("from_npy_stack outcome", model_from, ["raised"])
            ctx.branch("npyplan-axis-outside-raises")
            return
        except Exception as e:
            ctx.fail("from_npy_stack raised " + type(e).__name__, observed=repr(e)[:300])
            return
        real_from = []
        for k, t in dict(b.dask).items():
            t = tuple(t) if isinstance(t, (tuple, list)) else t
            if not (isinstance(t, tuple) and len(t) == 3 and t[0] is np.load):
                ctx.disagree("from_npy_stack task is not (np.load, path, mmap_mode)", "np.load", repr(t)[:200])
                return
            real_from.append([[int(v) for v in k[1:]], _fileno(dirname, t[1])])
        ctx.eq("graph of from_npy_stack (key, file number) in dict order", model_from, ["ok"] + real_from)
        ctx.eq("chunks of from_npy_stack", info_chunks, [[int(v) for v in c] for c in b.chunks])
        if 0 <= axis < nd and list(b.chunks[axis]) != chunks[axis]:
            ctx.fail("chunks along the stacking axis not preserved", observed=list(b.chunks[axis]), expected=chunks[axis])
        # ---- round trip: every block of the declared grid
        order = list(range(nfiles))
        order = inp.get("order") or order
        model_rt = unsym(ctx.lean(Sym("npyround"), axis, chunks, stale, [o for o in order if o < nfiles] +
                                  [o for o in range(nfiles) if o not in order]))
        if model_rt[0] != "ok":
            ctx.disagree("model round trip raised although from_npy_stack did not", model_rt, "ok")
            return
        grid = [list(k) for k in itertools.product(*[range(len(c)) for c in info_chunks])]
        ctx.eq("keys of the loaded array", [kv[0] for kv in model_rt[1:]], grid)
        for key, content in model_rt[1:]:
            if content != key:
                ctx.disagree("model: block loaded for a key is not the block saved under that key", key, content)
            try:
                blk = np.asarray(b.blocks[tuple(key)].compute(scheduler="sync"))
            except Exception as e:
                ctx.fail("a block of from_npy_stack(to_npy_stack(x)) cannot be loaded: " + type(e).__name__,
                         observed=[key, repr(e)[:200]])
                return
            want = _slab(a, info_chunks, key)
            if blk.shape != want.shape or (blk != want).any():
                ctx.fail("block of from_npy_stack(to_npy_stack(x)) is not the block of x", observed=[key, blk.tolist()],
                         expected=want.tolist())
                return
        try:
            got = np.asarray(b.compute(scheduler="sync"))
        except Exception as e:
            ctx.fail("from_npy_stack(to_npy_stack(x)).compute() raised " + type(e).__name__, observed=repr(e)[:300])
            return
        if got.shape != a.shape or got.dtype != a.dtype or (got != a).any():
            ctx.fail("to_npy_stack -> from_npy_stack does not reproduce the array", observed=got.tolist(), expected=a.tolist())
        # ---- an info whose axis is not an axis of the chunks
        if inp.get("bad_axis") is not None:
            bad = nd + inp["bad_axis"]
            with open(os.path.join(dirname, "info"), "wb") as f:
                pickle.dump(dict(info, axis=bad), f)
            m = unsym(ctx.lean(Sym("npyfrom"), bad, info_chunks))
            try:
                da.from_npy_stack(dirname, mmap_mode=None)
                real = "ok"
            except IndexError:
                real = "raised"
            ctx.eq("from_npy_stack with an axis outside the chunks", m[0], real)
            ctx.branch("npyplan-info-axis-outside")
        del b, got
    finally:
        shutil.rmtree(tmp, ignore_errors=True)
    ctx.branch("npyplan-axis-%d-of-%d" % (axis, nd))
    if nfiles > 10:
        ctx.branch("npyplan-more-than-10-files")
    if any(j >= nfiles for j in stale):
        ctx.branch("npyplan-stale-higher-files")
    if any(j < nfiles for j in stale):
        ctx.branch("npyplan-overwrites-existing-files")
    if any(len(c) > 1 for i, c in enumerate(chunks) if i != axis):
        ctx.branch("npyplan-other-axes-rechunked")
    if any(0 in c for c in chunks):
        ctx.branch("npyplan-zero-length-chunk")
    if inp["scheduler"] == "threads":
        ctx.branch("npyplan-threads")


CASES = {"npyplan": case_npyplan}


def generate(ctx):
    rng = ctx.rng
    yield "npyplan", {"chunks": [[1, 1], [1, 1]], "axis": 0, "scheduler": "sync", "stale": [3], "bad_axis": 0}
    yield "npyplan", {"chunks": [[2, 1, 0], [1, 3]], "axis": 0, "scheduler": "sync", "stale": [], "bad_axis": None}
    yield "npyplan", {"chunks": [[1, 1]], "axis": 1, "scheduler": "sync", "stale": [], "bad_axis": None}
    for _ in range(ctx.n(40, 600)):
        nd = rng.randint(1, 3)
        chunks = [list(random_chunks(rng, rng.randint(0 if rng.random() < 0.1 else 1, 5), zeros=0.15)) for _ in range(nd)]
        axis = rng.randrange(nd)
        if rng.random() < 0.2:
            chunks[axis] = [rng.choice([1, 1, 2, 0]) for _ in range(rng.randint(11, 16))]
        k = len(chunks[axis])
        stale = sorted(rng.sample(range(0, k + 6), rng.randint(1, 4))) if rng.random() < 0.4 else []
        if rng.random() < 0.06:
            axis = nd + rng.randint(0, 1)        # to_npy_stack accepts it (one file); from_npy_stack raises IndexError
        yield "npyplan", {"chunks": chunks, "axis": axis, "scheduler": rng.choice(["sync", "threads"]), "stale": stale,
                          "bad_axis": rng.randint(0, 2) if rng.random() < 0.15 else None,
                          "order": rng.sample(range(k), k)}
