"""C43 — the DataFrame optimizer preserves results and converges.

Model:    lean/DaskModel/Model/RelExpr.lean (relational expressions E, pandas denotation `den`, normal form `nf`,
          decidable equivalence `NF.equiv`, step/trace checker)
Theorems: lean/DaskModel/Props/C43.lean (nf_sound, equiv_sound, checkStep_sound, checkTrace_sound, idempotent_result)
Tie:      (1) the REAL optimizer's trace (every `simplify_once` round, tune, every `lower_once` round, second simplify)
          is recorded for random programs; every intermediate expression whose classes are in the modelled fragment is
          translated and every consecutive pair must be accepted by the compiled, proved-sound checker;
          (2) the model's denotation of the first/last expression is diffed against the real computation;
          (3) API level: optimised vs optimize(fuse=False) vs lowered-without-simplify vs pandas, optimise-twice
          fixed point, non-convergence watch, for programs that also use reductions inside predicates, shared
          sub-expressions, shadowing assigns (outside the fragment these are compared by value only).
"""
from __future__ import annotations

from sexp import Sym

from props import _dfrows_util as U
from props import _dfrows_c43x as X

U.warm()

PROP = "C43"
READY = True
DRIVER = "dm_dfrows"
LEAN_MODULES = ["DaskModel.Props.C43", "DaskModel.Props.C43x"]
CASE_TIMEOUT_S = 60
LEVEL_TEXT = (
    "Partial. Proved in Lean: (1) a normal form for relational expressions over one source (FromPandas/FromMap root, Projection "
    "list/scalar, Filter, Assign, Binop subclasses, Invert, literals) is sound (nf_sound); equality of normal forms up to the "
    "SET of filter conjuncts or their truth table implies equal results (equiv_sound / checkStep_sound), hence every optimizer "
    "trace whose steps the checker accepts preserves the result (checkTrace_sound, idempotent_result): uniformly projection "
    "pushdown through filter/assign/elemwise, projection collapse, filter pushdown/squashing, assign shadowing, dropping of "
    "unused assigns. (2) rewrite_filters / _replace_common_or_components (the OR-of-AND rewrite of Filter._simplify_up) is "
    "MODELLED as a function and proved sound for every predicate and truth assignment (rewriteFilters_sound) with a "
    "termination measure (rewriteFilters_size: it leaves the predicate alone or returns a strictly smaller one). "
    "Validated, not proved: that the real optimizer only performs accepted steps (every recorded step of the real "
    "simplify/lower/simplify trace inside the fragment is checked on each run), that the real rewrite_filters IS the modelled "
    "function (diffed on OR-of-AND predicates with shared conjuncts / absorbing clauses in every position), projection "
    "pushdown through groupby, the Lengths shortcut, head/tail pushdowns, blockwise fusion and lowering of other classes (by value "
    "against pandas and the unoptimised graph), convergence of the whole optimizer (observed: no RuntimeError, "
    "re-optimising is a fixed point). "
    "Extension (Props/C43x): the expression language over SEVERAL sources with Merge (inner/left on key columns, suffixes "
    "_x/_y), Concat (axis 0, outer), Index and Len; one proved soundness theorem per rewrite schema - Merge._simplify_up "
    "projection pushdown keeping the join keys and the origin of every selected column (rMergeL_sound, rMergeR_sound, "
    "rMergeDrop_sound), Concat._simplify_up (rConcatL_sound, rConcatR_sound, rConcatDrop_sound), Len._simplify_down / "
    "FromPandas._simplify_up(Len) / Index through Filter (lenCands_sound) - and the extended checker check2 (schemas at any "
    "position + congruence + the old checker on single-source sub-steps) is sound: an accepted step refines the value "
    "(check2_old_sound, checkTrace2_old_sound; value equality for the pushdowns, refinement for Len rules, which may drop an "
    "ill-formed wrapper). Validated per run (section xtrace): real simplify_once steps of merge/concat/len programs are sent "
    "to this checker (about 110 of 125 comparable steps accepted per quick run; the rest are filter pushdown INTO a merge, "
    "projection through assign-after-merge and projection-of-projection above a merge: not modelled as schemas, compared by "
    "value); the column computations of the real rules equal projectSides / concatCols / lenDown and satisfy the proved "
    "side conditions (section xfn); that projectSides ALWAYS satisfies them is validated, not proved.")
LEVEL_NOTE = ("Trusted: Lean kernel; the translator from dask expression objects to the model AST (harness); pandas as value "
              "oracle; integer-cell encoding; pyarrow stub.")
TECHNIQUE = "Lean 4 proved-sound equivalence checker (normal forms) + validation of real optimizer traces + 4-way differential (optimised / unfused / unsimplified / pandas)"
ASSUMPTIONS = ["the translator maps each dask expression class to the model constructor with the same pandas semantics (validated: opteval vs the real computation)",
               "programs use one FromPandas root (co-aligned operands)"]

BINOPS = {"Add": "add", "Sub": "sub", "Mul": "mul", "LT": "lt", "LE": "le", "GT": "gt", "GE": "ge", "EQ": "eq", "NE": "ne",
          "And": "and", "Or": "or"}


class Unmodelled(Exception):
    pass


def to_model(e, root_name):
    """dask expression -> model AST (s-expression); raises Unmodelled for classes outside the fragment"""
    import numbers
    from dask._expr import Expr
    if not isinstance(e, Expr):
        if isinstance(e, bool):
            raise Unmodelled("bool literal")
        if isinstance(e, numbers.Integral):
            return [Sym("lit"), int(e)]
        raise Unmodelled("literal " + type(e).__name__)
    cls = type(e).__name__
    if cls == "FromMap":
        if e.operand("_partitions") is not None:
            raise Unmodelled("FromMap with selected partitions")
        return Sym("src")
    if cls == "FromPandas":
        if e.operand("_partitions") is not None:
            raise Unmodelled("FromPandas with selected partitions")
        cols = e.operand("columns")
        if e.operand("_series"):
            return [Sym("col"), Sym("src"), str(list(cols)[0] if isinstance(cols, (list, tuple)) else cols)]
        if cols is None:
            return Sym("src")
        return [Sym("proj"), [str(c) for c in cols], Sym("src")]
    if cls == "Projection":
        c = e.operand("columns")
        f = to_model(e.frame, root_name)
        if e.frame.ndim < 2:
            raise Unmodelled("projection of a series")
        if isinstance(c, list):
            return [Sym("proj"), [str(x) for x in c], f]
        if isinstance(c, str):
            return [Sym("col"), f, c]
        raise Unmodelled("projection key " + type(c).__name__)
    if cls == "Filter":
        return [Sym("filter"), to_model(e.frame, root_name), to_model(e.predicate, root_name)]
    if cls == "Assign":
        out = to_model(e.frame, root_name)
        base = e.frame
        for k, v in zip(e.keys, e.vals):
            out = [Sym("assign"), out, str(k), to_model(v, root_name)]
        return out
    if cls in BINOPS:
        return [Sym("bin"), Sym(BINOPS[cls]), to_model(e.left, root_name), to_model(e.right, root_name)]
    if cls == "Invert":
        return [Sym("not"), to_model(e.frame, root_name)]
    raise Unmodelled(cls)


def record_trace(expr):
    """replay `optimize_until(expr, 'simplified-physical')` step by step, returning every intermediate expression"""
    import dask
    from dask._expr import collect_dependents
    trace = [("logical", expr)]

    def simplify(e, tag):
        seen = set()
        while True:
            dependents = collect_dependents(e)
            new = e.simplify_once(dependents=dependents, simplified={})
            if new._name == e._name:
                return e
            if new._name in seen:
                raise RuntimeError("Optimizer does not converge")
            seen.add(new._name)
            e = new
            trace.append((tag, e))
    e = simplify(expr, "simplify")
    if dask.config.get("optimization.tune.active", True):
        new = e.rewrite(kind="tune", rewritten={})
        if new._name != e._name:
            e = new
            trace.append(("tune", e))
    lowered = {}
    while True:
        new = e.lower_once(lowered)
        if new._name == e._name:
            break
        e = new
        trace.append(("lower", e))
    e = simplify(e, "simplify2")
    return trace, e


# ------------------------------------------------------------------------------------------------
# programs
# ------------------------------------------------------------------------------------------------

_ROOT = [None]


def s_expr(f, e):
    """series/scalar expression over frame f (pandas or dask); `rootcol` reads a column of the program's ROOT frame"""
    k = e[0]
    if k == "col":
        return f[e[1]]
    if k == "rootcol":
        return _ROOT[0][e[1]]
    if k == "lit":
        return e[1]
    if k == "not":
        return ~s_expr(f, e[1])
    if k == "mean":
        return f[e[1]].mean()
    if k == "sumred":
        return f[e[1]].sum()
    a, b = s_expr(f, e[1]), s_expr(f, e[2])
    return {"add": lambda: a + b, "sub": lambda: a - b, "mul": lambda: a * b, "lt": lambda: a < b, "le": lambda: a <= b,
            "gt": lambda: a > b, "ge": lambda: a >= b, "eq": lambda: a == b, "ne": lambda: a != b,
            "and": lambda: a & b, "or": lambda: a | b}[k]()


def run_program(f, prog):
    _ROOT[0] = f
    for st in prog:
        if st[0] == "sel":
            f = f[st[1]]
        elif st[0] == "filt":
            f = f[s_expr(f, st[1])]
        elif st[0] == "assign":
            f = f.assign(**{st[1]: s_expr(f, st[2])})
    return f


def _mk(inp):
    import pandas as pd
    data = {c: U.mk_series(v, "int64" if None not in v else "float64", index=inp["index"]) for c, v in inp["cols"].items()}
    return pd.DataFrame(data, index=inp["index"])


def _val_of_frame(df):
    """pandas frame -> model Val encoding without row numbers (values only)"""
    return [[str(c) for c in df.columns], [[U.cell_of(v) for v in row] for row in df.itertuples(index=False, name=None)]]


def case_trace(ctx, inp):
    import pandas as pd
    df = _mk(inp)
    d = U.from_parts(df, inp["lens"], known=inp.get("known", True)) if inp.get("parts") else U.dd().from_pandas(df, npartitions=max(1, len(inp["lens"])), sort=False)
    try:
        expected = run_program(df, inp["prog"])
    except Exception as e:
        ctx.note("pandas_rejected:" + type(e).__name__)
        return
    coll = run_program(d, inp["prog"])
    expr = coll.expr
    try:
        trace, final = record_trace(expr)
    except RuntimeError as e:
        ctx.fail("optimizer does not converge", observed=str(e)[:300])
        return
    cols = [str(c) for c in df.columns]
    rows = [[U.cell_of(v) for v in r] for r in df.itertuples(index=False, name=None)]
    models = []
    for tag, e in trace:
        try:
            models.append(to_model(e, ""))
        except Unmodelled as u:
            models.append(None)
            ctx.note("unmodelled:" + str(u))
    # (1) every consecutive pair inside the fragment must be accepted by the proved checker
    runs, cur = [], []
    for (tag, e), m in zip(trace, models):
        if m is None:
            if len(cur) > 1:
                runs.append(cur)
            cur = []
        else:
            cur.append((tag, m))
    if len(cur) > 1:
        runs.append(cur)
    checked = 0
    for run in runs:
        verdicts = ctx.lean(Sym("optcheck"), cols, [m for _, m in run])
        for (tag, _), v in zip(run[1:], verdicts):
            checked += 1
            ctx.note("step:" + tag + ":" + str(v))
            if v != "ok":
                ctx.disagree("optimizer step not accepted by the checker (%s)" % tag, "ok", str(v))
    if checked:
        ctx.branch("trace-checked-steps")
        if checked >= 3:
            ctx.branch("trace-3plus-steps")
    # (2) the model's denotation of first / last modelled expression vs pandas
    if isinstance(expected, pd.DataFrame) and all(str(t) in ("int64", "float64", "bool") for t in expected.dtypes):
        exp_cols, exp_rows = _val_of_frame(expected.astype({c: "int64" for c in expected.columns if str(expected[c].dtype) == "bool"}))
        for which in (0, -1):
            m = models[which]
            if m is None:
                continue
            val = ctx.lean(Sym("opteval"), cols, [U.cells_to_sexp(r) for r in rows], m)
            if val[0] == "frame":
                got = [val[1], [r[1:] for r in val[2]]]
                ctx.eq("model denotation vs pandas (%s expression)" % ("first" if which == 0 else "last"), got, [exp_cols, exp_rows])
            else:
                ctx.disagree("model denotation is not a frame", val, [exp_cols])
    # (3) 4-way comparison of values
    _four_way(ctx, coll, expected)
    if any(st[0] == "filt" for st in inp["prog"]) and any(st[0] == "sel" for st in inp["prog"]):
        ctx.branch("prog-filter+projection")
    if sum(1 for st in inp["prog"] if st[0] == "filt") >= 2:
        ctx.branch("prog-filter-chain")
    names = [st[1] for st in inp["prog"] if st[0] == "assign"]
    if len(set(names)) < len(names) or any(n in inp["cols"] for n in names):
        ctx.branch("prog-shadowing-assign")


def _same(got, exp):
    import pandas as pd
    if isinstance(exp, pd.DataFrame):
        pd.testing.assert_frame_equal(got, exp, check_exact=False, rtol=1e-12)
    elif isinstance(exp, pd.Series):
        pd.testing.assert_series_equal(got, exp, check_exact=False, rtol=1e-12)
    else:
        assert (got == exp) or (got != got and exp != exp), (got, exp)


def _raw_compute(expr):
    """lower WITHOUT simplify, no fusion, and run the graph"""
    import dask
    import pandas as pd
    low = expr.lower_completely()
    graph = low.__dask_graph__()
    keys = low.__dask_keys__()
    parts = dask.get(dict(graph), keys)
    parts = list(parts)
    if low.ndim == 0 if hasattr(low, "ndim") else False:
        return parts[0]
    return pd.concat(parts) if len(parts) > 1 else parts[0]


def _four_way(ctx, coll, expected):
    from dask.dataframe.dask_expr._collection import new_collection
    variants = {}
    try:
        variants["optimised"] = coll.compute(scheduler="sync")
        variants["unfused"] = new_collection(coll.expr.optimize(fuse=False)).compute(scheduler="sync")
        variants["unsimplified"] = _raw_compute(coll.expr)
        o1 = coll.expr.optimize(fuse=True)
        o2 = o1.optimize(fuse=True)
        variants["optimised-twice"] = new_collection(o2).compute(scheduler="sync")
        if o2._name != o1._name:
            ctx.note("reoptimise_changed_expression")
    except (RuntimeError, NotImplementedError) as e:
        if "Partition size is less than overlapping" in str(e):
            ctx.note("overlap_partition_too_small")     # documented limitation of map_overlap (C46), not an optimizer matter
            return
        if "does not converge" in str(e):
            ctx.fail("optimizer does not converge", observed=str(e)[:300])
            return
        ctx.fail("optimised computation raised RuntimeError", observed=str(e)[:300])
        return
    except Exception as e:
        ctx.fail(f"optimised computation raised {type(e).__name__}", observed=f"{type(e).__name__}: {e}"[:300])
        return
    for name, got in variants.items():
        try:
            _same(got, expected)
        except AssertionError as e:
            ctx.fail(f"{name} result differs from pandas", observed=str(e)[:400])
            return
    ctx.branch("fourway-agree")


def case_api(ctx, inp):
    """programs outside the fragment: reductions inside predicates, shared sub-expressions, two consumers"""
    df = _mk(inp)
    if inp["shape"] == "filter-then-nonlocal-filter" and not inp.get("known", True):
        ctx.note("skipped:rolling-needs-known-divisions")
        return
    if inp["shape"] == "or-filter-binop" and U.splits_equal_labels(inp["index"], inp["lens"]):
        ctx.note("skipped:alignment-needs-colocated-labels")   # index alignment is only partition-local for co-located labels
        return
    d = U.from_parts(df, inp["lens"], known=inp.get("known", True))
    try:
        expected = _api_program(df, inp)
    except Exception as e:
        ctx.note("pandas_rejected:" + type(e).__name__)
        return
    try:
        coll = _api_program(d, inp)
    except Exception as e:
        ctx.fail(f"building the program raised {type(e).__name__}", observed=f"{type(e).__name__}: {e}"[:300])
        return
    _four_way(ctx, coll, expected)
    ctx.branch("api-" + inp["shape"])


def _api_program(f, inp):
    sh = inp["shape"]
    a, b = inp["names"][:2]
    k = inp["k"]
    if sh == "reduction-in-predicate":
        x = run_program(f, inp["prog"])
        return x[x[a] > x[a].mean()]
    if sh == "two-consumers":
        x = run_program(f, inp["prog"])
        y = x[[a, b]] if b in x.columns and a in x.columns else x
        return y.assign(s=y[a] + k, t=y[a] * 2)[["t", "s"]]
    if sh == "shared-filter":
        x = f[f[a] > k]
        return x.assign(u=x[a] + x[b])[x[b] < 4][["u", a]]
    if sh == "sum-of-filtered-projection":
        x = run_program(f, inp["prog"])
        return x[a].sum()
    if sh == "diamond":
        x = f[[a, b]]
        l = x[x[a] > k]
        return l.assign(w=l[a] - l[b]).assign(**{a: l[b]})[["w", a]]
    if sh == "count":
        x = run_program(f, inp["prog"])
        return x[a].count()
    if sh == "filter-then-reduction-filter":
        # the second predicate compares with a reduction of the ALREADY FILTERED column: squashing the two
        # filters must not move the reduction onto the unfiltered frame
        y = f[f[a] > k]
        red = getattr(y[b], inp.get("red", "mean"))()
        z = y[y[b] >= red] if inp.get("red") != "count" else y[y[a] < red]
        return z[[b, a]] if inp.get("tailsel") else z
    if sh == "filter-then-nonlocal-filter":
        # the second predicate looks at neighbouring rows (cumsum / shift / diff / rolling / cummax): it must be
        # evaluated on the FILTERED frame, so the two filters must not be squashed
        y = f[f[a] > k]
        how = inp.get("nonlocal_op", "cumsum")
        s2 = {"cumsum": lambda: y[b].cumsum() > 3, "shift": lambda: y[b].shift(1) > 1, "diff": lambda: y[b].diff() > 0,
              "cummax": lambda: y[b].cummax() >= 3, "frame-cumsum": lambda: y.cumsum()[b] > 3,
              "rolling": lambda: y[b].rolling(2).sum() > 3}[how]()
        z = y[s2]
        return z[[a]] if inp.get("tailsel") else z
    if sh == "and-with-reduction-then-projection":
        # re-optimising the fused result must keep working (and keep the value)
        z = f[(f[a] > k) & (f[b] * 2 > f[b].sum())]
        return z[[b, a]]
    if sh == "astype-filter":
        g = f.assign(h=f[a] * 0.5).astype({"h": "int64"})
        return g[g["h"] >= k][["h", b]]
    if sh == "filter-head-head":
        # Head(Head(x, n1, npartitions=k1), n2): the collapsed Head must keep looking at k1 partitions of x
        # (a filter may have emptied the first ones)
        import pandas as pd
        y = f[f[a] > k]
        n1, n2, k1 = inp["heads"]
        if isinstance(f, pd.DataFrame):
            b_ = U.bounds_of(inp["lens"])
            nparts = len(inp["lens"]) if k1 == -1 else k1
            first = pd.concat([f.iloc[b_[i]:b_[i + 1]] for i in range(nparts)]) if nparts else f.iloc[:0]
            first = first[first[a] > k]
            return first.head(n1).head(n2)
        import warnings
        with warnings.catch_warnings():
            warnings.simplefilter("ignore")
            return y.head(n1, npartitions=k1, compute=False).head(n2, compute=False)
    if sh == "or-filter-binop":
        x = f[[a, b]]
        flt = x[((x[a] > k) & (x[b] > 0)) | ((x[a] > k) & (x[b] < -1))]
        return (x - flt).assign(u=x[a])
    raise KeyError(sh)


# ------------------------------------------------------------------------------------------------
# rewrite_filters (OR-of-AND predicates): function level vs the Lean model, truth-table oracle, API level
# ------------------------------------------------------------------------------------------------

_OPS = {"lt": lambda a, b: a < b, "le": lambda a, b: a <= b, "gt": lambda a, b: a > b, "ge": lambda a, b: a >= b,
        "eq": lambda a, b: a == b, "ne": lambda a, b: a != b}


def _pred_build(frames, atoms, t):
    """predicate tree -> pandas/dask boolean series; atom i reads frames[atoms[i][3] % len(frames)]"""
    if t[0] == "atom":
        col, op, k, which, neg = atoms[t[1]]
        f = frames[which % len(frames)]
        a = _OPS[op](f[col], k)
        return ~a if neg else a
    l, r = _pred_build(frames, atoms, t[1]), _pred_build(frames, atoms, t[2])
    return (l & r) if t[0] == "and" else (l | r)


def _pred_sexp(t):
    if t[0] == "atom":
        return [Sym("atom"), t[1]]
    return [Sym(t[0]), _pred_sexp(t[1]), _pred_sexp(t[2])]


def _pred_of_expr(e, names):
    cls = type(e).__name__
    if cls in ("And", "Or"):
        return [cls.lower(), _pred_of_expr(e.left, names), _pred_of_expr(e.right, names)]
    if e._name not in names:
        raise KeyError("rewrite_filters produced a node that is not one of the input atoms: " + str(e))
    return ["atom", names[e._name]]


def _sexp_to_tree(x):
    if x[0] == "atom":
        return ["atom", int(x[1])]
    return [str(x[0]), _sexp_to_tree(x[1]), _sexp_to_tree(x[2])]


def case_orrewrite(ctx, inp):
    import pandas as pd
    from dask.dataframe.dask_expr._expr import And, Or, _get_predicate_components, rewrite_filters
    df = _mk(inp)
    d = U.from_parts(df, inp["lens"], known=inp.get("known", True))
    atoms, tree = inp["atoms"], inp["tree"]
    atoms = [list(a) + [0, False][len(a) - 3:] for a in atoms]
    # the same atom built twice has the same name: one frame only at function level
    pred = _pred_build([d], atoms, tree)
    names = {}
    for i in range(len(atoms)):
        nm = _pred_build([d], atoms, ["atom", i]).expr._name
        names.setdefault(nm, i)      # two syntactically equal atoms ARE the same conjunct for the code
    canon = {i: names[_pred_build([d], atoms, ["atom", i]).expr._name] for i in range(len(atoms))}

    def canon_tree(t):
        return ["atom", canon[t[1]]] if t[0] == "atom" else [t[0], canon_tree(t[1]), canon_tree(t[2])]
    ctree = canon_tree(tree)
    got = _pred_of_expr(rewrite_filters(pred.expr), names)
    model = _sexp_to_tree(ctx.lean(Sym("rewritefilters"), _pred_sexp(ctree)))
    ctx.eq("rewrite_filters", model, got)
    for kind, cls in (("or", Or), ("and", And)):
        comps = [_pred_of_expr(c, names) for c in _get_predicate_components(pred.expr, [], type_=cls)]
        ctx.eq("_get_predicate_components(%s)" % kind, [_sexp_to_tree(c) for c in ctx.lean(Sym("predcomps"), Sym(kind), _pred_sexp(ctree))], comps)
    # property oracle: the rewritten predicate selects the same rows (pandas semantics, row by row)
    before = _pred_build([df], atoms, tree)
    after = _pred_build([df], atoms, got)
    if list(before) != list(after):
        ctx.fail("rewrite_filters changed the rows the predicate selects", observed=[bool(v) for v in after],
                 expected=[bool(v) for v in before])
    # API level: the filter (optionally reading the atoms through a copy() of the frame, so that the common
    # conjuncts only coincide after the filter has been pushed below the copy)
    frames_d, frames_p = [d], [df]
    if inp.get("copy"):
        frames_d, frames_p = [d.copy(), d], [df.copy(), df]
    target_d, target_p = frames_d[0], frames_p[0]
    expected = target_p[_pred_build(frames_p, atoms, tree)]
    coll = target_d[_pred_build(frames_d, atoms, tree)]
    if inp.get("tailsel"):
        cols = [c for c in df.columns][:2]
        expected, coll = expected[cols], coll[cols]
    _four_way(ctx, coll, expected)
    clauses = inp.get("clauses", [])
    shared = set(clauses[0]) if clauses else set()
    for c in clauses[1:]:
        shared &= set(c)
    ctx.branch("orrw-shared-%d" % min(len(shared), 2))
    for j, c in enumerate(clauses):
        if shared and set(c) <= shared:
            ctx.branch("orrw-absorbing-" + ("first" if j == 0 else "last" if j == len(clauses) - 1 else "middle"))
    if model != ctree:
        ctx.branch("orrw-rewritten")
    if inp.get("copy"):
        ctx.branch("orrw-through-copy")


def case_orrewrite_fn(ctx, inp):
    """function level only (no computation): exhaustive small OR-of-AND predicates"""
    import pandas as pd
    from dask.dataframe.dask_expr._expr import rewrite_filters
    df = pd.DataFrame({"a": [1, 2, 3, 4], "b": [0, 1, 0, 1], "c": [5, 6, 7, 8]})
    d = U.dd().from_pandas(df, npartitions=2)
    atoms = [["a", "gt", 1, 0, False], ["b", "eq", 1, 0, False], ["c", "lt", 7, 0, False]]
    clauses = inp["clauses"]

    def fold(kind, items, right):
        items = list(items)
        while len(items) > 1:
            if right:
                items[-2:] = [[kind, items[-2], items[-1]]]
            else:
                items[:2] = [[kind, items[0], items[1]]]
        return items[0]
    tree = fold("or", [fold("and", [["atom", a] for a in c], inp["right"]) for c in clauses], inp["right"])
    pred = _pred_build([d], atoms, tree)
    names = {_pred_build([d], atoms, ["atom", i]).expr._name: i for i in range(len(atoms))}
    got = _pred_of_expr(rewrite_filters(pred.expr), names)
    model = _sexp_to_tree(ctx.lean(Sym("rewritefilters"), _pred_sexp(tree)))
    ctx.eq("rewrite_filters (exhaustive small predicates)", model, got)
    before, after = _pred_build([df], atoms, tree), _pred_build([df], atoms, got)
    if list(before) != list(after):
        ctx.fail("rewrite_filters changed the rows the predicate selects", observed=[bool(v) for v in after],
                 expected=[bool(v) for v in before])
    ctx.branch("orrw-fn-%d-clauses" % len(clauses))
    if model != tree:
        ctx.branch("orrw-fn-rewritten")


CASES = {"trace": case_trace, "api": case_api, "orrewrite": case_orrewrite, "orrewrite_fn": case_orrewrite_fn}
CASES.update(X.CASES)       # extension round: xtrace, xfn (merge / concat / len in the proved checker)


# ------------------------------------------------------------------------------------------------
# generators
# ------------------------------------------------------------------------------------------------

def gen_sexpr(rng, names, depth, boolean):
    if boolean:
        k = rng.choice(["cmp", "cmp", "cmp", "and", "or", "not"] if depth > 0 else ["cmp"])
        if k == "cmp":
            rhs = ["lit", rng.randint(-1, 4)] if rng.random() < 0.6 else gen_sexpr(rng, names, depth - 1, False)
            return [rng.choice(["lt", "le", "gt", "ge", "eq", "ne"]), gen_sexpr(rng, names, depth - 1, False), rhs]
        if k == "not":
            return ["not", gen_sexpr(rng, names, depth - 1, True)]
        return [k, gen_sexpr(rng, names, depth - 1, True), gen_sexpr(rng, names, depth - 1, True)]
    if depth <= 0 or rng.random() < 0.45:
        return ["col", rng.choice(names)]
    k = rng.choice(["add", "sub", "mul"])
    rhs = ["lit", rng.randint(-2, 3)] if rng.random() < 0.5 else gen_sexpr(rng, names, depth - 1, False)
    return [k, gen_sexpr(rng, names, depth - 1, False), rhs]


def gen_prog(rng, names, nsteps):
    prog = []
    cur = list(names)
    for _ in range(nsteps):
        t = rng.random()
        if t < 0.3 and len(cur) > 1:
            k = rng.randint(1, len(cur))
            cur = rng.sample(cur, k)
            prog.append(["sel", list(cur)])
        elif t < 0.65:
            prog.append(["filt", gen_sexpr(rng, cur, 2, True)])
        else:
            nm = rng.choice(cur + ["z", "y", "z"])
            prog.append(["assign", nm, gen_sexpr(rng, cur, 2, False)])
            if nm not in cur:
                cur.append(nm)
    if rng.random() < 0.6 and len(cur) > 1:
        prog.append(["sel", rng.sample(cur, rng.randint(1, len(cur) - 1))])
    return prog


def gen_assign_chain(rng, names):
    """assign / select-a-list / re-assign chains of length 3-5: re-assigning KEPT columns, DROPPED columns and NEW columns,
    with values that read original columns (of the current frame or of the root) or previously assigned ones"""
    prog, cur, assigned = [], list(names), []
    length = rng.randint(3, 5)
    fresh = iter(["x", "y", "z", "w", "v"])

    def value(allow_assigned):
        pool = [c for c in cur if allow_assigned or c not in assigned] or cur
        t = rng.random()
        if t < 0.25:
            return ["add", ["rootcol", rng.choice(names)], ["lit", rng.randint(-1, 2)]]
        if t < 0.45:
            return ["mul", ["rootcol", rng.choice(names)], ["lit", 2]]
        a = ["col", rng.choice(pool)]
        return rng.choice([["add", a, ["lit", 1]], ["mul", a, ["lit", 2]], ["sub", a, ["col", rng.choice(pool)]], a])
    # 1. an assign of a new column
    x = next(fresh)
    prog.append(["assign", x, value(False)])
    cur.append(x); assigned.append(x)
    while len(prog) < length:
        last = prog[-1][0]
        if last == "assign" and rng.random() < 0.7:
            # select a LIST: keep or drop the assigned column(s)
            keep_assigned = rng.random() < 0.7
            others = [c for c in cur if c not in assigned]
            sel = rng.sample(others, rng.randint(1, len(others))) if others else []
            if keep_assigned:
                sel = sel + [c for c in assigned if c in cur]
            rng.shuffle(sel)
            if not sel:
                sel = [cur[0]]
            prog.append(["sel", sel])
            cur = list(sel)
        else:
            t = rng.random()
            if t < 0.45 and any(c in cur for c in assigned):
                target = rng.choice([c for c in assigned if c in cur])        # re-assign a KEPT assigned column
            elif t < 0.6 and any(c not in cur for c in assigned):
                target = rng.choice([c for c in assigned if c not in cur])    # re-create a DROPPED column
            elif t < 0.8:
                target = rng.choice(cur)                                      # overwrite any current column
            else:
                target = next(fresh)
            prog.append(["assign", target, value(rng.random() < 0.4)])
            if target not in cur:
                cur.append(target)
            if target not in assigned:
                assigned.append(target)
    return prog


def gen_frame(rng):
    n = rng.randint(0, 10)
    ncols = rng.randint(2, 4)
    names = ["a", "b", "c", "d"][:ncols]
    cols = {}
    for c in names:
        fl = rng.random() < 0.4
        cols[c] = [None if (fl and rng.random() < 0.25) else rng.randint(-2, 5) for _ in range(n)]
    uniq = rng.random() < 0.6
    idx = sorted(rng.sample(range(30), n)) if uniq else sorted(rng.randint(0, 5) for _ in range(n))
    return {"cols": cols, "index": idx, "lens": U.gen_lens(rng, n, 4), "known": rng.random() < 0.7}, names


def gen_orrewrite(rng):
    """OR of AND clauses whose shared conjuncts sit in every position; an ABSORBING clause (shared conjuncts only) first, in
    the middle or last; occasionally duplicated conjuncts and syntactically equal atoms under two ids"""
    inp, names = gen_frame(rng)
    natoms = rng.randint(2, 6)
    atoms = []
    for _ in range(natoms):
        atoms.append([rng.choice(names), rng.choice(["lt", "le", "gt", "ge", "eq", "ne"]), rng.randint(-1, 4), rng.randint(0, 1),
                      rng.random() < 0.15])
    if rng.random() < 0.2:
        atoms.append(list(atoms[0]))            # the same conjunct under a second id
    ids = list(range(len(atoms)))
    nclauses = rng.randint(2, 4)
    shared = rng.sample(ids, rng.randint(0, min(2, len(ids))))
    absorbing = rng.randrange(nclauses) if (shared and rng.random() < 0.6) else None
    clauses = []
    for j in range(nclauses):
        extra = [] if j == absorbing else rng.sample(ids, rng.randint(0 if shared else 1, min(3, len(ids))))
        c = list(shared) + extra
        if rng.random() < 0.15 and c:
            c.append(rng.choice(c))             # a conjunct twice inside one clause
        rng.shuffle(c)
        clauses.append(c or [rng.choice(ids)])

    def fold(kind, items):
        items = list(items)
        while len(items) > 1:
            i = rng.randrange(len(items) - 1)   # random association
            items[i:i + 2] = [[kind, items[i], items[i + 1]]]
        return items[0]
    tree = fold("or", [fold("and", [["atom", a] for a in c]) for c in clauses])
    inp.update({"atoms": atoms, "tree": tree, "clauses": clauses, "copy": rng.random() < 0.35, "tailsel": rng.random() < 0.3})
    inp["lens"] = U.snap_lens(inp["index"], inp["lens"])
    return inp


def generate(ctx):
    rng = ctx.rng
    yield from X.generate(ctx)
    for _ in range(ctx.n(60, 1500)):
        yield "orrewrite", gen_orrewrite(rng)
    # exhaustive small space: every list of 2 (thorough: also 3) clauses over the non-empty conjunct lists of <= 2 of 3 atoms
    import itertools
    small = [list(c) for n in (1, 2) for c in itertools.permutations(range(3), n)] + [[0, 0], [1, 2, 1]]
    for k in ((2,) if not ctx.thorough() else (2, 3)):
        for cl in itertools.product(small, repeat=k):
            if rng.random() < (0.5 if ctx.thorough() else 0.55):
                continue
            yield "orrewrite_fn", {"clauses": [list(c) for c in cl], "right": rng.random() < 0.5}
    for _ in range(ctx.n(120, 2500)):
        inp, names = gen_frame(rng)
        inp["prog"] = gen_assign_chain(rng, names) if rng.random() < 0.3 else gen_prog(rng, names, rng.randint(1, 5))
        inp["parts"] = rng.random() < 0.7
        yield "trace", inp
    shapes = ["reduction-in-predicate", "two-consumers", "shared-filter", "sum-of-filtered-projection", "diamond", "count",
              "filter-then-reduction-filter", "filter-then-reduction-filter", "astype-filter", "or-filter-binop",
              "filter-then-nonlocal-filter", "filter-then-nonlocal-filter", "and-with-reduction-then-projection",
              "filter-head-head", "filter-head-head"]
    for _ in range(ctx.n(95, 1000)):
        inp, names = gen_frame(rng)
        inp["prog"] = [st for st in gen_prog(rng, names, rng.randint(0, 3)) if st[0] != "sel"]
        inp["names"] = names
        inp["k"] = rng.randint(-1, 3)
        inp["shape"] = rng.choice(shapes)
        inp["lens"] = U.snap_lens(inp["index"], inp["lens"])   # index alignment needs equal labels co-located
        inp["red"] = rng.choice(["mean", "max", "min", "count", "sum"])
        inp["tailsel"] = rng.random() < 0.5
        inp["nonlocal_op"] = rng.choice(["cumsum", "shift", "diff", "cummax", "frame-cumsum", "rolling"])
        inp["heads"] = [rng.randint(1, 8), rng.randint(1, 4), rng.choice([-1, -1, 1, 2, len(inp["lens"])])]
        if inp["heads"][2] > len(inp["lens"]):
            inp["heads"][2] = len(inp["lens"])
        if inp["shape"] == "filter-then-nonlocal-filter":
            # shift/diff/rolling need partitions that can lend a row: keep every partition non-trivial
            n = len(inp["index"])
            inp["lens"] = [n] if n < 4 else [n - n // 2, n // 2]
            inp["lens"] = U.snap_lens(inp["index"], inp["lens"])
            inp["known"] = True      # rolling / shift need known divisions ("Can only rolling dataframes with known divisions")
            inp["cols"] = {c: [0 if v is None else v for v in vals] for c, vals in inp["cols"].items()}
        yield "api", inp


def search(ctx):
    yield from generate(ctx)
