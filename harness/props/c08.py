"""C08 — task-spec conversion and execution preserve the graph's meaning.

Model:    lean/DaskModel/Model/TaskTerm.lean (convert_legacy_task / convert_legacy_graph, Task.__call__, execute_graph,
          the statement's legacy semantics)
Theorems: lean/DaskModel/Props/C08.lean
Tie:      structure of the real converted graph vs the model's `convertGraph`; `dask.core.get` vs the model's `coreGet`;
          the statement's semantics evaluated three ways (Lean `legacyGet`, a plain-Python interpreter, the real code);
          `node.dependencies` vs the model's `deps` and vs the keys referenced; pickle round trips; task-spec object
          graphs (`Task/Alias/DataNode/List/Tuple/Dict/TaskRef`) evaluated by `node(values)` / `execute_graph` vs the model.
"""
from __future__ import annotations

import json
import pickle

from sexp import Sym
from props._graph_terms import (FUNCS, Raised, build, gen_legacy_graph, has_ref_or_call, jsexp, legacy_refs, node_sexp,
                                ref_eval, to_sexp)

PROP = "C08"
READY = True
DRIVER = "dm_graph"
LEAN_MODULES = ["DaskModel.Props.C08"]
TABLES = ["TaskSpecSlots"]
LEVEL_TEXT = ("FULL. Lean 4 theorems over a transliteration of convert_legacy_task/convert_legacy_graph, Task.__call__/_eval, "
              "NestedContainer evaluation, execute_graph as it runs, and the statement's legacy semantics, with user functions "
              "uninterpreted. PROVED for all objects/graphs/key sets/environments: convert_preserves_eval (evaluating the "
              "converted node = the legacy value: calls, lists and dicts elementwise at any depth, keys are references, "
              "everything else incl. non-task tuples is a literal; only hypothesis: dict keys hashable and distinct) and "
              "convertGraph_preserves_eval (graph level, any cache, any depth); deps_exact (a node's dependencies are sufficient "
              "and each is necessary for its evaluation, through nested containers/kwargs) and deps_exact_legacy "
              "(node.dependencies = get_dependencies, same list, for every object); execute_graph_operational (the cache filled "
              "in an order with dependencies first -- what order() returns, C06 -- with refcount[dep] -= 1 / del cache[dep]: "
              "everything in the returned cache is the denotational value of its key, every key that may not be deleted is in "
              "it, and if every key has a value the run never fails); task_pickle_roundtrip / container_pickle_roundtrip (slot "
              "lists re-extracted from the AST on every run), alias_pickle_roundtrip. The two refutations of the builder's "
              "round are gone: the code was repaired (ca6daad/7bc9664: dict values; 83e63e1: non-task tuples and sets are "
              "literals), the former witnesses are positive examples. VALIDATED ONLY: namedtuples and futures in legacy graphs "
              "(not generated); that order() is a valid order is C06.")
LEVEL_NOTE = ("Trusted: Lean kernel + standard axioms; the hand transliteration, tied on every run by (a) structural diff of the "
              "real converted graph against the model's, (b) dask.core.get vs the model's coreGet on every key, (c) the legacy "
              "semantics computed by Lean and by an independent Python interpreter, (d) node.dependencies / get_dependencies vs "
              "the model, (e) task-spec object graphs through node(values) and execute_graph, incl. the whole returned cache "
              "after reference-count deletions for several `keys` arguments against the operational model (nodes listed in the "
              "real order()), (f) real pickle round trips. Fixed in /repo: dask.core.get rejected single int/tuple keys (5af6762); "
              "dict values of legacy tasks were dependencies but were neither evaluated nor substituted (ca6daad, 7bc9664); "
              "non-task tuples/sets were evaluated elementwise although nothing else treats them as part of the graph (83e63e1).")
TECHNIQUE = "Lean 4 proof (mutual structural induction over legacy terms / task nodes; loop invariant with reference counts) + differential correspondence"
ASSUMPTIONS = ["user functions are pure and total; they are left uninterpreted (free term algebra), so equality of the symbolic "
               "results implies equality under every interpretation",
               "Python objects outside {int, str, None, function, literal(...), tuple, list, dict} are not generated",
               "execute_graph_operational assumes the nodes are taken in an order with dependencies first (TopoListed); that "
               "dask.order.order returns such an order is property C06 (proved checker on every real output)",
               "the caller's cache holds no key of the graph (dask.core.get passes none)"]
CASE_TIMEOUT_S = 30

def _outcome(fn):
    try:
        return [Sym("ok"), to_sexp(fn())]
    except Exception:
        return [Sym("raised")]


def _ok(v):
    return [Sym("ok"), to_sexp(v)]


def case_legacy(ctx, inp):
    """a legacy graph: conversion structure, dask.core.get on every key, dependencies, pickle"""
    from dask._task_spec import convert_legacy_graph
    from dask.core import get, get_dependencies
    items = inp["graph"]
    dsk = {build(k): build(v) for k, v in items}
    if len(dsk) != len(items):
        return
    gs = [[jsexp(k), jsexp(v)] for k, v in items]
    keys_s = [jsexp(k) for k, _ in items]
    # (1) structure of the converted graph
    conv = convert_legacy_graph(dsk)
    impl = [[to_sexp(k), node_sexp(n)] for k, n in conv.items()]
    model = ctx.lean(Sym("convert_graph"), keys_s, gs)
    ctx.eq("convert_legacy_graph structure", model, impl)
    kinds = set()
    for _, n in conv.items():
        kinds.add(type(n).__name__)
    for kd in kinds:
        ctx.branch("node-" + kd)
    if inp.get("enum"):
        ctx.branch("enumerated-term")
    # (2) values.  A graph is compared against the statement only if it has a meaning at all: every key must
    # evaluate under the statement's traversal (no cycle); otherwise only the model/implementation diff is made.
    wellformed = all(_outcome(lambda k=build(kj), f=f: ref_eval(dsk, k, *f))[0] == "ok"
                     for kj, _ in items for f in ((True, False),))
    if not wellformed:
        ctx.branch("ill-formed-cyclic")
    for (kj, _), ks in zip(items, keys_s):
        k = build(kj)
        try:
            real = get(dsk, k)
            impl_v = _ok(real)
        except Exception as e:
            real = None
            impl_v = [Sym("raised")]
            exc = f"{type(e).__name__}: {e}"
        mv = ctx.lean(Sym("core_get"), gs, ks)
        ctx.eq("dask.core.get", mv, impl_v)
        ml = ctx.lean(Sym("legacy_get"), gs, ks)
        try:
            want = ref_eval(dsk, k)
            want_s = _ok(want)
        except Raised:
            want_s = [Sym("raised")]
        ctx.eq("statement semantics: Lean evalKeyL vs Python reference", ml, want_s)
        if wellformed and impl_v != want_s:
            sig = None           # no known divergence is left: every difference from the statement is a fresh failure
            what = ("dask.core.get raised (" + exc + ") although the legacy semantics gives a value" if impl_v[0] == "raised"
                    else "dask.core.get returned although the legacy semantics raises (cycle)" if want_s[0] == "raised"
                    else "dask.core.get differs from the legacy semantics of the statement")
            ctx.fail(what, sig=sig, observed=impl_v, expected=want_s)
            ctx.branch("diverges-" + (sig or "unexplained"))
        else:
            ctx.branch("value-agrees")
    # (3) dependencies: converted node vs model vs the keys it references (code's traversal) vs get_dependencies
    for (kj, vj), ks in zip(items, keys_s):
        gd = get_dependencies(dsk, build(kj))
        ml = ctx.lean(Sym("legacy_refs"), keys_s, jsexp(vj))
        ctx.eq("get_dependencies vs legacyRefs", sorted(set(json.dumps(x, default=str) for x in ml)),
               sorted(json.dumps(to_sexp(x), default=str) for x in gd))
        if gd != legacy_refs(dsk, dsk[build(kj)], True, False):
            ctx.fail("get_dependencies is not the set of keys referenced under the statement's semantics",
                     observed=sorted(map(repr, gd)))
    for k, n in conv.items():
        md = ctx.lean(Sym("deps"), node_sexp(n))
        ctx.eq("node.dependencies", sorted(set(json.dumps(x, default=str) for x in md)),
               sorted(json.dumps(to_sexp(x), default=str) for x in n.dependencies))
        refs = legacy_refs(dsk, dsk[k], True, False)
        if set(n.dependencies) != refs and type(n).__name__ != "DataNode":
            ctx.fail("converted node's dependencies are not the keys it references", observed=sorted(map(repr, n.dependencies)),
                     expected=sorted(map(repr, refs)))
        if n.dependencies:
            ctx.branch("has-deps")
        # pickle round trip
        n2 = pickle.loads(pickle.dumps(n))
        if set(n2.dependencies) != set(n.dependencies):
            ctx.fail("pickle round trip changes dependencies", observed=sorted(map(repr, n2.dependencies)))
        ctx.eq("pickle round trip structure", node_sexp(n2), node_sexp(n))
        env = {d: ("val", i) for i, d in enumerate(sorted(n.dependencies, key=repr))}
        try:
            a = n(env)
            b = n2(env)
            if to_sexp(a) != to_sexp(b):
                ctx.fail("pickle round trip changes the computed value", observed=repr(b), expected=repr(a))
        except Exception as e:
            ctx.fail(f"node evaluation raised {type(e).__name__}: {e}")


def _enc_slot(v):
    """slot value -> s-expression of an `Obj` (nested nodes / TaskRefs / classes are encoded by a stable string)"""
    from dask._task_spec import GraphNode, TaskRef
    if v is None or isinstance(v, str):
        return v
    if isinstance(v, bool):
        return [Sym("t"), "bool", int(v)]
    if isinstance(v, int):
        return int(v)
    if isinstance(v, (frozenset, set)):
        return [Sym("l")] + sorted((_enc_slot(x) for x in v), key=repr)
    if isinstance(v, tuple):
        return [Sym("t")] + [_enc_slot(x) for x in v]
    if isinstance(v, list):
        return [Sym("l")] + [_enc_slot(x) for x in v]
    if isinstance(v, dict):
        return [Sym("d")] + [[_enc_slot(k), _enc_slot(x)] for k, x in v.items()]
    if isinstance(v, (GraphNode, TaskRef)):
        return "node:" + json.dumps(node_sexp(v), default=str)
    try:
        return to_sexp(v)
    except TypeError:
        return "obj:" + getattr(v, "__qualname__", type(v).__name__)


def _slot_check(ctx, n):
    """Task / NestedContainer: slot list vs the extracted table, and the slot values after a real pickle round trip vs
    the model's `taskRoundtrip` / `containerRoundtrip`"""
    from dask._task_spec import NestedContainer, Task
    if not isinstance(n, Task):
        return
    is_c = isinstance(n, NestedContainer)
    slots = type(n).get_all_slots()
    ctx.eq("get_all_slots vs extracted table", ctx.lean(Sym("slots"), Sym("container" if is_c else "task")), list(slots))
    attrs = [[sl, _enc_slot(getattr(n, sl))] for sl in slots]
    n2 = pickle.loads(pickle.dumps(n))
    attrs2 = [[sl, _enc_slot(getattr(n2, sl))] for sl in slots]
    if is_c:
        m = ctx.lean(Sym("container_roundtrip"), _enc_slot(type(n).constructor), attrs)
        ctx.branch("pickle-container")
    else:
        m = ctx.lean(Sym("task_roundtrip"), attrs)
        ctx.branch("pickle-task")
    if m[0] == "ok":
        # the model keeps dict entries in insertion order; Python dict equality ignores it
        def norm(a):
            return [[k, sorted(v[1:], key=repr) if isinstance(v, list) and v and v[0] == "d" else v] for k, v in a]
        ctx.eq("slot values after pickle round trip", norm(m[1]), norm(attrs2))
    else:
        ctx.disagree("model cannot pickle the node", m, attrs2)
    for a in n.args:
        _slot_check(ctx, a)
    for a in n.kwargs.values():
        _slot_check(ctx, a)


def _mk_node(j, key=None):
    """JSON description of a task-spec node -> real object.
    {"alias": k} {"data": obj} {"ref": k} {"raw": obj} {"task": fn, "args": [...], "kw": [[name, node]...]}
    {"cont": "list"|"tuple"|"dict", "args": [...]}"""
    from dask._task_spec import Alias, DataNode, Dict, List, Task, TaskRef, Tuple
    if "alias" in j:
        t = build(j["alias"])
        return Alias(t if key is None else key, t)
    if "data" in j:
        return DataNode(key, build(j["data"]))
    if "ref" in j:
        return TaskRef(build(j["ref"]))
    if "raw" in j:
        return build(j["raw"])
    if "cont" in j:
        args = [_mk_node(a) for a in j["args"]]
        return {"list": List, "tuple": Tuple, "dict": Dict}[j["cont"]](*args)
    return Task(key, FUNCS[j["task"]], *[_mk_node(a) for a in j["args"]], **{k: _mk_node(v) for k, v in j["kw"]})


def _node_jsexp(j):
    if "alias" in j:
        return [Sym("alias"), jsexp(j["alias"])]
    if "data" in j:
        return [Sym("data"), jsexp(j["data"])]
    if "ref" in j:
        return [Sym("ref"), jsexp(j["ref"])]
    if "raw" in j:
        return [Sym("raw"), jsexp(j["raw"])]
    if "cont" in j:
        return [Sym("task"), [Sym("cont"), Sym(j["cont"])], [_node_jsexp(a) for a in j["args"]], []]
    return [Sym("task"), [Sym("call"), [Sym("fn"), j["task"]]], [_node_jsexp(a) for a in j["args"]],
            [[k, _node_jsexp(v)] for k, v in j["kw"]]]


def case_spec(ctx, inp):
    """a task-spec graph built from node descriptions: node(values), dependencies, execute_graph, pickle"""
    from dask._task_spec import execute_graph
    items = inp["graph"]
    dsk = {}
    for kj, nj in items:
        k = build(kj)
        dsk[k] = _mk_node(nj, key=k)
    gs = [[jsexp(k), _node_jsexp(n)] for k, n in items]
    # structure of the constructed objects = the description (constructors normalise nothing unexpected)
    ctx.eq("constructed node structure", [[jsexp(k), _node_jsexp(n)] for k, n in items],
           [[to_sexp(k), node_sexp(n)] for k, n in dsk.items()])
    cache_j = inp.get("cache", [])
    cache = {build(k): build(v) for k, v in cache_j}
    cs = [[jsexp(k), jsexp(v)] for k, v in cache_j]
    try:
        res = execute_graph(dict(dsk), cache=dict(cache))
        impl = [Sym("ok"), sorted(([to_sexp(k), to_sexp(v)] for k, v in res.items() if k in dsk), key=repr)]
    except Exception as e:
        impl = [Sym("raised")]
    model = ctx.lean(Sym("exec_graph"), gs, cs)
    if model[0] == "ok":
        model = [Sym("ok"), sorted(model[1], key=repr)]
        ctx.branch("executes")
    else:
        ctx.branch("raises")
    ctx.eq("execute_graph", model, impl)
    # execute_graph as it runs: nodes in the real `order`, reference counts, deletion of values no longer needed.
    # The whole returned cache (which keys survive, with which values) against Model/ExecGraph.lean
    if impl[0] == "ok" and not (set(cache) & set(dsk)):
        from dask.order import order
        try:
            prio = order(dict(dsk))
        except Exception:
            prio = None
        if prio is not None:
            listed = sorted(dsk.items(), key=lambda it: prio[it[0]])
            gl = [[to_sexp(k), node_sexp(n)] for k, n in listed]
            allk = list(dsk)
            for sel in (None, [], allk[:1], allk[-2:], [allk[len(allk) // 2]] + [("not", "a", "key")]):
                try:
                    r = execute_graph(dict(dsk), cache=dict(cache), keys=None if sel is None else set(sel))
                    impl2 = [Sym("ok"), sorted(([to_sexp(k), to_sexp(v)] for k, v in r.items()), key=repr)]
                except Exception:
                    impl2 = [Sym("raised")]
                m2 = ctx.lean(Sym("exec_ordered"), gl, cs, Sym("nokeys") if sel is None else [to_sexp(k) for k in sel])
                if m2[0] == "ok":
                    m2 = [Sym("ok"), sorted(m2[1], key=repr)]
                ctx.eq("execute_graph: returned cache after reference-count deletions (operational model)", m2, impl2)
                if impl2[0] == "ok" and sel and len(r) < len(dsk) + len(cache):
                    ctx.branch("refcount-deletes")
    for k, n in dsk.items():
        md = ctx.lean(Sym("deps"), node_sexp(n))
        ctx.eq("node.dependencies", sorted(set(json.dumps(x, default=str) for x in md)),
               sorted(json.dumps(to_sexp(x), default=str) for x in n.dependencies))
        env = {d: ("val", i) for i, d in enumerate(sorted(n.dependencies, key=repr))}
        envs = [[to_sexp(d), to_sexp(v)] for d, v in env.items()]
        try:
            a = n(env)
            impl_v = _ok(a)
        except Exception:
            a = None
            impl_v = [Sym("raised")]
        ctx.eq("node(values)", ctx.lean(Sym("eval_node"), node_sexp(n), envs), impl_v)
        # a missing dependency must be reported, never silently ignored
        for d in n.dependencies:
            e2 = {x: v for x, v in env.items() if x != d}
            try:
                n(e2)
                ctx.fail("node evaluated although a reported dependency is missing", observed=repr(d))
            except (RuntimeError, KeyError):
                pass
            ctx.eq("node(values) with a dependency missing",
                   ctx.lean(Sym("eval_node"), node_sexp(n), [[to_sexp(x), to_sexp(v)] for x, v in e2.items()]), [Sym("raised")])
            break
        n2 = pickle.loads(pickle.dumps(n))
        ctx.eq("pickle round trip structure", node_sexp(n2), node_sexp(n))
        _slot_check(ctx, n)
        if set(n2.dependencies) != set(n.dependencies):
            ctx.fail("pickle round trip changes dependencies", observed=sorted(map(repr, n2.dependencies)))
        if impl_v[0] == "ok":
            try:
                if to_sexp(n2(env)) != to_sexp(a):
                    ctx.fail("pickle round trip changes the computed value")
            except Exception as e:
                ctx.fail(f"unpickled node raised {type(e).__name__}: {e}")


def case_api(ctx, inp):
    """schedulers on the legacy graph agree with dask.core.get (sync + threaded)"""
    import dask
    from dask.core import get
    from dask.local import get_sync
    from dask.threaded import get as tget
    items = inp["graph"]
    dsk = {build(k): build(v) for k, v in items}
    ks = [build(k) for k, _ in items]
    try:
        want = [get(dsk, k) for k in ks]
    except Exception as e:
        want = None
    for name, g in (("sync", get_sync), ("threaded", tget)):
        try:
            got = list(g(dsk, ks))
        except Exception as e:
            got = None
        if want is None or got is None:
            if (want is None) != (got is None):
                ctx.fail(f"{name} scheduler and dask.core.get disagree on raising", observed=repr(got), expected=repr(want))
        elif got != want:
            ctx.fail(f"{name} scheduler result differs from dask.core.get", observed=repr(got), expected=repr(want))
    ctx.branch("api")


FALSY_AND_TRUTHY = [0, "", (), 0.0, False, 1, "a", ("x", 0), ("", 0), 2.5, True, "0"]


def case_alias(ctx, inp):
    """`Alias(key[, target])` for every pair of keys incl. the falsy ones (0, '', (), 0.0, False): stored target,
    dependencies, evaluation, copy, pickle; and the three public ways an alias enters a graph"""
    from dask._task_spec import Alias, DataNode, Task, TaskRef, convert_legacy_graph, execute_graph
    from dask.core import get
    key = FALSY_AND_TRUTHY[inp["key"]]
    tgt = None if inp["target"] is None else FALSY_AND_TRUTHY[inp["target"]]
    how = inp.get("how", "plain")
    if tgt is None:
        a = Alias(key)
        want = key
    elif how == "taskref":
        a = Alias(key, TaskRef(tgt))
        want = tgt
    elif how == "alias":
        a = Alias(key, Alias("other", tgt))
        want = tgt
    else:
        a = Alias(key, tgt)
        want = tgt

    def same(x, y):
        return type(x) is type(y) and x == y
    if not same(a.target, want):
        ctx.fail("Alias(key, target) does not store the given target", observed=repr(a.target), expected=repr(want))
    if set(a.dependencies) != {want} or not all(same(d, want) for d in a.dependencies):
        ctx.fail("Alias.dependencies is not {target}", observed=repr(sorted(map(repr, a.dependencies))), expected=repr(want))
    try:
        v = a({want: "VALUE"})
        if v != "VALUE":
            ctx.fail("Alias(values) does not return the target's value", observed=repr(v))
    except Exception as e:
        ctx.fail(f"Alias(values) raised {type(e).__name__}: {e}")
    for b, what in ((pickle.loads(pickle.dumps(a)), "pickle round trip"), (a.copy(), "copy")):
        if not same(b.target, want) or not same(b.key, a.key):
            ctx.fail(f"{what} changes key/target of an Alias", observed=[repr(b.key), repr(b.target)], expected=[repr(a.key), repr(want)])
    # modelled part (ints / strs / tuples only)
    modelled = all(type(x) in (int, str, tuple) and not isinstance(x, bool) for x in (key, want))
    if modelled:
        m = ctx.lean(Sym("alias_init"), to_sexp(key), Sym("notarget") if tgt is None else to_sexp(tgt))
        ctx.eq("Alias.__init__ (model)", m, node_sexp(a))
        ctx.branch("alias-modelled")
    if not want and want is not None and tgt is not None:
        ctx.branch("falsy-target")
    # graphs: {target: 10, key: <alias>} through the three entry points
    if tgt is not None and not (key == tgt):
        for gname, dsk in (("legacy value equal to a key", {tgt: 10, key: tgt}),
                           ("Alias node", {tgt: DataNode(tgt, 10), key: Alias(key, tgt)}),
                           ("Task with TaskRef", {tgt: DataNode(tgt, 10), key: Task(key, _ident, TaskRef(tgt))})):
            try:
                got = get(dsk, key)
            except Exception as e:
                ctx.fail(f"dask.core.get on a graph with an alias to {tgt!r} ({gname}) raised {type(e).__name__}: {e}")
                continue
            if got != 10:
                ctx.fail(f"alias to {tgt!r} ({gname}) computes {got!r}", expected=10)
            conv = convert_legacy_graph(dsk)
            if key not in conv:
                ctx.fail(f"convert_legacy_graph dropped the entry {key!r} -> {tgt!r} ({gname})")
            elif set(conv[key].dependencies) != {tgt}:
                ctx.fail(f"converted entry {key!r} -> {tgt!r} has dependencies {sorted(map(repr, conv[key].dependencies))} ({gname})")


def _ident(x):
    return x


CASES = {"legacy": case_legacy, "spec": case_spec, "api": case_api, "alias": case_alias}


def _gen_node(rng, prev, depth):
    r = rng.random()
    if depth <= 0 or r < 0.3:
        c = rng.random()
        if prev and c < 0.4:
            return {"ref": rng.choice(prev)}
        if prev and c < 0.6:
            return {"alias": rng.choice(prev)}
        if c < 0.7:
            return {"data": rng.choice([1, "s", {"l": [1, 2]}, {"t": ["x", 1]}, None])}
        return {"raw": rng.choice([1, "k0", {"l": [1, "k0"]}, {"t": ["x", 0]}, {"d": [["a", "k0"]]}, None, {"fn": 1}])}
    if r < 0.65:
        return {"task": rng.randrange(6), "args": [_gen_node(rng, prev, depth - 1) for _ in range(rng.randint(0, 3))],
                "kw": [[nm, _gen_node(rng, prev, depth - 1)] for nm in rng.sample(["a", "b", "c"], rng.randint(0, 2))]}
    kind = rng.choice(["list", "tuple", "dict"])
    if kind == "dict":
        nk = rng.randint(0, 3)
        args = []
        for i in rng.sample(["p", "q", "r", 1], nk):
            args += [{"raw": i}, _gen_node(rng, prev, depth - 1)]
        return {"cont": "dict", "args": args}
    args = [_gen_node(rng, prev, depth - 1) for _ in range(rng.randint(0, 3))]
    if len(args) == 1 and "raw" in args[0] and isinstance(args[0]["raw"], dict) and ("l" if kind == "list" else "t") in args[0]["raw"]:
        # List([..]) / Tuple((..)) unpack a single argument of their own class (constructor convenience): not a node shape
        args.append({"raw": 0})
    return {"cont": kind, "args": args}


def _gen_spec_graph(rng, n):
    keys, items = [], []
    for i in range(n):
        k = rng.choice(["" if i == 0 else f"k{i}", i, {"t": []} if i == 0 else {"t": ["x", i]}])   # incl. falsy keys
        r = rng.random()
        if r < 0.15 and keys:
            nd = {"alias": rng.choice(keys)}
        elif r < 0.3:
            nd = {"data": rng.choice([i, "s", {"l": [i]}])}
        else:
            nd = _gen_node(rng, keys, rng.randint(1, 3))
            if "ref" in nd or "raw" in nd:
                nd = {"task": 0, "args": [nd], "kw": []}
            if "cont" in nd:
                nd = {"task": 1, "args": [nd], "kw": []}
        items.append([k, nd])
        keys.append(k)
    rng.shuffle(items)
    return items


def generate(ctx):
    rng = ctx.rng
    # the witnesses of the two former divergences (repaired: ca6daad, 83e63e1) and the statement's own example
    yield "legacy", {"graph": [["a", 1], ["b", {"t": [{"fn": 0}, {"d": [["x", "a"]]}]}]]}
    yield "legacy", {"graph": [["a", 1], ["b", {"t": [{"fn": 0}, {"t": [1, "a"]}]}]]}
    yield "legacy", {"graph": [[{"t": ["x", 0]}, 5], ["b", {"t": [{"fn": 1}, {"d": [["k", {"l": [{"t": ["x", 0]}, 2]}]]}]}]]}
    yield "legacy", {"graph": [[{"t": ["x", 0]}, 5], ["b", {"t": [{"fn": 1}, {"l": [{"t": ["x", 0]}, {"t": ["x", 1]}]}]}]]}
    for flavour, nq in (((), 900), (("dictref",), 200), (("tupleref",), 200), (("dictref", "tupleref"), 80)):
        for _ in range(ctx.n(nq)):
            n = rng.randint(1, 6)
            yield "legacy", {"graph": gen_legacy_graph(rng, n, flavour)}
    # exhaustive bounded terms (the statement's quantifier): every term of depth <= 1 over the leaves {string key,
    # tuple key, literals, quoted key} and the constructors {call/1, call/2, list, non-task tuple, dict/1, dict/2} in
    # quick; in the thorough tier also every depth-2 term with one depth-1 child
    leaves = ["a", {"t": ["x", 1]}, 50, "zz", None, {"q": "a"}]

    def cons(c1, c2):
        return [{"t": [{"fn": 0}, c1]}, {"t": [{"fn": 1}, c1, c2]}, {"l": [c1, c2]}, {"t": [51, c1]},
                {"d": [["k", c1]]}, {"d": [["k", c1], [61, c2]]}]
    depth1 = [{"l": []}] + [t for c1 in leaves for c2 in leaves for t in cons(c1, c2)]
    seen_t = set()

    def emit(t):
        key = json.dumps(t, sort_keys=True)
        if key in seen_t:
            return None
        seen_t.add(key)
        return "legacy", {"graph": [["a", 1], [{"t": ["x", 1]}, {"t": [{"fn": 2}, 7]}], ["b", t]], "enum": True}
    for t in depth1:
        r = emit(t)
        if r:
            yield r
    if ctx.thorough():
        for d1 in depth1:
            for lf in leaves[:4]:
                for t in cons(d1, lf)[:5] + cons(lf, d1)[1:3]:
                    r = emit(t)
                    if r:
                        yield r
    for _ in range(ctx.n(500)):
        yield "spec", {"graph": _gen_spec_graph(rng, rng.randint(1, 6)),
                       "cache": [["ext", 7]] if rng.random() < 0.2 else []}
    # Alias construction: every (key, target) pair incl. target=None and all falsy keys
    nk = len(FALSY_AND_TRUTHY)
    for k in range(nk):
        yield "alias", {"key": k, "target": None}
        for t in range(nk):
            yield "alias", {"key": k, "target": t, "how": ["plain", "taskref", "alias"][(k + t) % 3] if (k + t) % 4 == 0 else "plain"}
    for _ in range(ctx.n(100)):
        yield "api", {"graph": gen_legacy_graph(rng, rng.randint(1, 7), rng.choice([(), ("dictref",), ("tupleref",)]))}
