"""C26 extension round: the N-d overlap as the product of the 1-d index maps.

Model:    lean/DaskModel/Model/ArrOverlapNd.lean (ndOverlapBlock, ndRect, trimSpec, winAxes, rectSpec, globalIdx)
Theorems: lean/DaskModel/Props/C26xNd.lean (overlap_nd_block, trim_overlap_nd_id, map_overlap_nd_eq_global, …)
Tie:      `ndblocks`  2-d / 3-d position-valued arrays, per-axis depths (asymmetric on 'none' axes), a boundary kind per
                      axis: the declared chunks of the real `overlap_internal` / `overlap`, the content of EVERY
                      computed extended block (corner blocks included) vs the model's product block, vs the closed-form
                      hyper-rectangle `ndRect`, and vs the slice `rectSpec` of the sequentially np.pad-ded array; the
                      real `_trim` on that block vs the model's `trimSpec` and vs the original block
          `ndmapov`   real `map_overlap` of a position-weighted window sum (a function local within the per-axis depths,
                      windows cut at the ends of the array it is given) vs the model's global windows (`winAxes` on the
                      padded axes at `globalIdx`) for sampled cells of every block, local windows = global windows, and the
                      whole result vs the function on the np.pad-ded array, trimmed
Imported by c26.py (sections appended to its CASES / generate).
"""
from __future__ import annotations

import itertools

from sexp import Sym

from props._slicing_util import random_chunks, unsym

KINDS = {"periodic": "wrap", "reflect": "symmetric", "nearest": "edge"}


def _lr(d):
    return (d[0], d[1]) if isinstance(d, (list, tuple)) else (d, d)


def _kind_sym(k):
    return Sym(k if (k in KINDS or k == "none") else "constant")


def _axes_arg(chunks, depth, bnd):
    return [[list(c), _lr(d)[0], _lr(d)[1], _kind_sym(k)] for c, d, k in zip(chunks, depth, bnd)]


def _depth_dict(depth):
    return {i: (tuple(d) if isinstance(d, list) else d) for i, d in enumerate(depth)}


def _fill(bnd):
    return [k if (k not in KINDS and k != "none") else None for k in bnd]


def _gather(x, lists, fills):
    """X[np.ix_(lists)] with -1 = the constant fill of that axis (axes padded in order: the last one wins)"""
    import numpy as np
    out = x[np.ix_(*[np.maximum(np.asarray(l, dtype=int), 0) for l in lists])].copy()
    for ax, l in enumerate(lists):
        neg = [i for i, v in enumerate(l) if v < 0]
        if neg:
            sl = [slice(None)] * x.ndim
            sl[ax] = neg
            out[tuple(sl)] = fills[ax]
    return out


def _padded(x, depth, bnd):
    import numpy as np
    p = x
    for ax in range(x.ndim):
        d, k = _lr(depth[ax])[0], bnd[ax]
        if k == "none" or d == 0:
            continue
        pw = [(0, 0)] * x.ndim
        pw[ax] = (d, d)
        p = np.pad(p, pw, mode=KINDS[k]) if k in KINDS else np.pad(p, pw, mode="constant", constant_values=k)
    return p


def _setup(inp):
    import numpy as np
    import dask.array as da
    chunks = tuple(tuple(c) for c in inp["chunks"])
    shape = tuple(sum(c) for c in chunks)
    x = np.arange(1, int(np.prod(shape)) + 1).reshape(shape)
    return chunks, shape, x, da.from_array(x, chunks=chunks)


def _branches(ctx, pre, chunks, depth, bnd):
    nd = len(chunks)
    ctx.branch("%s-%dd" % (pre, nd))
    active = [ax for ax in range(nd) if max(_lr(depth[ax])) > 0 and (len(chunks[ax]) > 1 or bnd[ax] != "none")]
    if len(active) >= 2:
        ctx.branch(pre + "-corner-blocks")
    if len(active) >= 3:
        ctx.branch(pre + "-3-axis-corners")
    if any(_lr(d)[0] != _lr(d)[1] for d in depth):
        ctx.branch(pre + "-asymmetric")
    if len(set(map(str, bnd))) > 1:
        ctx.branch(pre + "-mixed-boundaries")
    for k in set(map(str, bnd)):
        ctx.branch(pre + "-" + (k if (k in KINDS or k == "none") else "constant"))
    if any(len(c) > 2 for c in chunks):
        ctx.branch(pre + "-interior-blocks")


def case_ndblocks(ctx, inp):
    import numpy as np
    from dask.array.overlap import overlap, overlap_internal, _trim
    chunks, shape, x, d = _setup(inp)
    depth, bnd = inp["depth"], inp["boundary"]
    nd = len(shape)
    ddict, bdict = _depth_dict(depth), {i: k for i, k in enumerate(bnd)}
    big = all(min(c) >= max(_lr(depth[ax])) for ax, c in enumerate(chunks))
    if all(k == "none" for k in bnd):
        g = overlap_internal(d, ddict)
    else:
        g = overlap(d, ddict, bdict, allow_rechunk=False)
    axes = _axes_arg(chunks, depth, bnd)
    fills = _fill(bnd)
    P = _padded(x, depth, bnd)
    # the array overlap_internal is applied to (after boundaries()), its blocks and the shift of the block numbers
    from dask.array.overlap import boundaries
    x2 = d if all(k == "none" for k in bnd) else boundaries(d, ddict, bdict)
    x2v = np.asarray(x2.compute(scheduler="sync"))
    x2off = [[sum(c[:i]) for i in range(len(c) + 1)] for c in x2.chunks]
    dims2 = list(x2.numblocks)
    shift = [1 if (bnd[ax] != "none" and _lr(depth[ax])[0] > 0) else 0 for ax in range(nd)]
    for idx in itertools.product(*[range(len(c)) for c in chunks]):
        ext, rect, blk, trim, rspec, padded, pieces = unsym(ctx.lean(Sym("ndoverlap"), axes, list(idx)))
        real = np.asarray(g.blocks[idx].compute(scheduler="sync"))
        if ext == "none" or ext is None:
            ctx.disagree("ndOverlapBlock: no block", None, list(idx))
            return
        want = tuple(g.chunks[ax][b] for ax, b in enumerate(idx))
        if big:
            ctx.eq("declared chunks of the overlapped array vs the model's block extents", [len(l) for l in ext], list(want))
        exp = _gather(x, ext, fills)
        if real.shape != exp.shape or (real != exp).any():
            ctx.disagree("extended block content (product of the 1-d models)", [list(idx), exp.tolist()], [list(idx), real.tolist()])
            return
        ctx.eq("pieces concatenated per axis = the extended block (proved)", [[v for seg in segs for v in seg] for segs in pieces], ext)
        if not _pieces_vs_real(ctx, x2v, x2off, dims2, shift, ddict, idx, pieces, x, fills):
            return
        if not big:
            continue
        ctx.eq("ndOverlapBlock = ndRect (proved)", ext, rect)
        # the closed-form hyper-rectangle, independently: a slice of the sequentially np.pad-ded array
        sl = tuple(slice(b, b + e) for b, e in rspec)
        hyper = P[sl]
        if real.shape != hyper.shape or (real != hyper).any():
            ctx.fail("extended block is not the hyper-rectangle [lo-d, hi+d) of the padded global array",
                     observed=[list(idx), real.tolist()], expected=hyper.tolist())
            return
        for ax, (b, e) in enumerate(rspec):
            dl, dr = _lr(depth[ax])
            lo = sum(chunks[ax][:idx[ax]])
            ln = chunks[ax][idx[ax]]
            if bnd[ax] == "none":
                wb = lo - (dl if idx[ax] > 0 else 0)
                we = ln + (dl if idx[ax] > 0 else 0) + (dr if idx[ax] < len(chunks[ax]) - 1 else 0)
            else:
                wb, we = lo, ln + 2 * dl
            if (b, e) != (wb, we):
                ctx.disagree("rectSpec (base, extent)", [ax, b, e], [ax, wb, we])
        # _trim on the real block: the model's (front, length) and the original block
        t = _trim(real, ddict, bdict, (idx, tuple(len(c) for c in chunks)))
        own = x[tuple(slice(sum(chunks[ax][:b]), sum(chunks[ax][:b + 1])) for ax, b in enumerate(idx))]
        mt = real[tuple(slice(f, f + l) for f, l in trim)]
        if t.shape != mt.shape or (t != mt).any():
            ctx.disagree("_trim vs trimSpec", [list(idx), mt.tolist()], [list(idx), t.tolist()])
            return
        if t.shape != own.shape or (t != own).any():
            ctx.fail("_trim(extended block) is not the original block", observed=[list(idx), t.tolist()], expected=own.tolist())
            return
        ctx.eq("ndBlock", _gather(x, blk, fills).tolist(), own.tolist())
    if big:
        _branches(ctx, "ndblocks", chunks, depth, bnd)
    else:
        ctx.branch("ndblocks-chunk-smaller-than-depth")


def _pieces_vs_real(ctx, x2v, x2off, dims2, shift, ddict, idx, pieces, x, fills):
    """the real task of one extended block: `_expand_keys_around_center` (which neighbours, in which grid) and
    `fractional_slice` (how each neighbour is cut) evaluated on the padded array's blocks, piece by piece, vs the model's
    per-axis pieces (their product: a piece with two non-centre coordinates comes from a diagonal neighbour)"""
    import numpy as np
    from dask.layers import _expand_keys_around_center, fractional_slice
    key = ("x",) + tuple(b + s for b, s in zip(idx, shift))
    seq, shp = _expand_keys_around_center(key, dims=dims2, name="g", axes=ddict)
    if list(shp) != [len(segs) for segs in pieces]:
        ctx.disagree("_expand_keys_around_center: grid of pieces", [len(segs) for segs in pieces], list(shp))
        return False
    grid = list(itertools.product(*[range(len(segs)) for segs in pieces]))
    if len(seq) != len(grid):
        ctx.disagree("_expand_keys_around_center: number of pieces", len(grid), len(seq))
        return False
    diag = False
    for k, ps in zip(seq, grid):
        fs = fractional_slice(k, ddict)
        if fs is False:
            ctx.disagree("fractional_slice rejects a key _expand_keys_around_center produced", list(ps), [str(t) for t in k])
            return False
        if fs == k:
            rounded, index = k[1:], tuple(slice(None) for _ in k[1:])
        else:
            rounded, index = fs[1][1:], fs[2]
        blk = x2v[tuple(slice(x2off[ax][r], x2off[ax][r + 1]) for ax, r in enumerate(rounded))][index]
        exp = _gather(x, [pieces[ax][p] for ax, p in enumerate(ps)], fills)
        if blk.shape != exp.shape or (blk != exp).any():
            ctx.disagree("piece of the concatenate_shaped task", [list(ps), exp.tolist()], [list(ps), blk.tolist()])
            return False
        if sum(1 for ax, r in enumerate(rounded) if r != key[1 + ax]) >= 2:
            diag = True
    if diag:
        ctx.branch("ndblocks-diagonal-neighbour-piece")
    return True


def _wsum(W, depth):
    """position-weighted window sum: out[i] = sum over rel in prod([-dl_a, dr_a]) of W[rel] * a[i + rel], the window cut at
    the ends of `a`"""
    import numpy as np
    lrs = [_lr(dv) for dv in depth]

    def f(a):
        out = np.zeros(a.shape, dtype="int64")
        for rel in itertools.product(*[range(-dl, dr + 1) for dl, dr in lrs]):
            w = W[tuple(r + dl for r, (dl, _) in zip(rel, lrs))]
            src, dst = [], []
            ok = True
            for ax, o in enumerate(rel):
                n = a.shape[ax]
                if abs(o) >= n and o != 0:
                    ok = False
                    break
                if o >= 0:
                    src.append(slice(o, n)); dst.append(slice(0, n - o))
                else:
                    src.append(slice(0, n + o)); dst.append(slice(-o, n))
            if ok:
                out[tuple(dst)] += w * a[tuple(src)]
        return out
    return f


def case_ndmapov(ctx, inp):
    import numpy as np
    import dask.array as da
    chunks, shape, x, d = _setup(inp)
    x = x.astype("int64")
    depth, bnd = inp["depth"], inp["boundary"]
    nd = len(shape)
    lrs = [_lr(dv) for dv in depth]
    W = np.asarray(inp["weights"], dtype="int64").reshape([dl + dr + 1 for dl, dr in lrs])
    f = _wsum(W, depth)
    ddict, bdict = _depth_dict(depth), {i: k for i, k in enumerate(bnd)}
    r = da.map_overlap(f, d, depth=ddict, boundary=bdict, dtype="int64", allow_rechunk=False)
    got = np.asarray(r.compute(scheduler="sync"))
    # API level: the function on the padded whole array, pads cut off
    P = _padded(x, depth, bnd)
    pads = [(_lr(depth[ax])[0] if (bnd[ax] != "none") else 0) for ax in range(nd)]
    ref = f(P)[tuple(slice(p, P.shape[ax] - p) for ax, p in enumerate(pads))]
    if got.shape != ref.shape or (got != ref).any():
        ctx.fail("N-d map_overlap differs from the function on the padded whole array", observed=got.tolist(), expected=ref.tolist())
        return
    axes = _axes_arg(chunks, depth, bnd)
    fills = _fill(bnd)
    for idx in itertools.product(*[range(len(c)) for c in chunks]):
        for c in inp["cells"]:
            c = [ci % chunks[ax][idx[ax]] for ax, ci in enumerate(c)]
            core, loc, glob, lidx, gidx, boff = unsym(ctx.lean(Sym("ndwin"), axes, list(idx), c))
            if core is not True:
                ctx.disagree("coreIdx", core, True)
                return
            ctx.eq("windows in the extended block = windows in the padded global array (proved)", loc, glob)
            ctx.eq("globalIdx = pad + lo + c (proved)", gidx, boff)
            want_g = [pads[ax] + sum(chunks[ax][:idx[ax]]) + c[ax] for ax in range(nd)]
            ctx.eq("globalIdx", gidx, want_g)
            cells = _gather(x, [w for _, w in glob], fills)
            # the weights seen from the cell's offset in its window
            wsl = tuple(slice(dl - off, dl - off + len(w)) for (off, w), (dl, _) in zip(glob, lrs))
            val = int((W[wsl] * cells).sum())
            pos = tuple(sum(chunks[ax][:idx[ax]]) + c[ax] for ax in range(nd))
            if int(got[pos]) != val:
                ctx.disagree("map_overlap cell vs g(window of the padded global array)", [list(pos), val], [list(pos), int(got[pos])])
                return
    _branches(ctx, "ndmapov", chunks, depth, bnd)


CASES = {"ndblocks": case_ndblocks, "ndmapov": case_ndmapov}


def _chunks_ge(rng, n, m):
    """a chunking of n whose chunks are all >= m"""
    m = max(m, 1)
    out, left = [], n
    while left >= 2 * m and rng.random() < 0.75:
        c = rng.randint(m, min(left - m, m + 2))
        out.append(c)
        left -= c
    out.append(left)
    rng.shuffle(out)
    return out


def _axis_spec(rng, maxd, maxn):
    k = rng.choice(["none", "none", "none", "periodic", "reflect", "nearest", 0, -7])
    if k == "none":
        d = [rng.randint(0, maxd), rng.randint(0, maxd)] if rng.random() < 0.5 else rng.randint(0, maxd)
    else:
        d = rng.randint(0, maxd)
    m = max(_lr(d))
    n = rng.randint(max(m, 1), max(m, 1) + maxn)
    return k, d, _chunks_ge(rng, n, m)


def generate(ctx):
    rng = ctx.rng
    for _ in range(ctx.n(45, 500)):
        nd = rng.choice([2, 2, 3])
        specs = [_axis_spec(rng, 2, 5 if nd == 2 else 3) for _ in range(nd)]
        if rng.random() < 0.6:          # make corners likely: every axis active
            specs = [s if max(_lr(s[1])) > 0 else (s[0], 1, _chunks_ge(rng, rng.randint(2, 5), 1)) for s in specs]
        yield "ndblocks", {"chunks": [s[2] for s in specs], "depth": [s[1] for s in specs], "boundary": [s[0] for s in specs]}
    for _ in range(ctx.n(4, 60)):        # chunks smaller than the depth (overlap_internal only): product model still holds
        nd = rng.choice([2, 3])
        yield "ndblocks", {"chunks": [list(random_chunks(rng, rng.randint(2, 5))) for _ in range(nd)],
                           "depth": [[rng.randint(0, 2), rng.randint(0, 2)] for _ in range(nd)], "boundary": ["none"] * nd}
    for _ in range(ctx.n(22, 300)):
        nd = rng.choice([2, 2, 3])
        specs = [_axis_spec(rng, 2 if nd == 2 else 1, 4 if nd == 2 else 3) for _ in range(nd)]
        depth = [s[1] for s in specs]
        nw = 1
        for dv in depth:
            nw *= sum(_lr(dv)) + 1
        yield "ndmapov", {"chunks": [s[2] for s in specs], "depth": depth, "boundary": [s[0] for s in specs],
                          "weights": [rng.randint(-3, 4) for _ in range(nw)],
                          "cells": [[rng.randint(0, 9) for _ in range(nd)] for _ in range(3)]}
