"""C23 — chunk normalisation and rechunking are exact.

Model:    lean/DaskModel/Model/Chunks.lean (K4: normalize_chunks / blockdims_from_blockshape, _breakpoints /
          _intersect_1d / old_to_new, divide_to_width, estimate_graph_size), Model/ChunksAuto.lean (auto_chunks, both
          branches; floats observed), Model/ChunksPlanner.lean (merge_to_number incl. the heap path,
          find_split_rechunk, find_merge_rechunk, the plan_rechunk loop; candidate order observed; planLocate/ndLocate)
Theorems: lean/DaskModel/Props/C23.lean
Tie:      function-level diffs of every modelled function (auto_chunks through a line tracer that reads the floats
          of the real call, plan_rechunk / find_merge_rechunk / find_split_rechunk through wrappers and a profile
          hook), property oracles on the real outputs, API-level rechunk vs NumPy and vs the Lean `rechunk1d`,
          several rechunks of one source in one graph (task names must depend on the target chunks).
"""
from __future__ import annotations

import math

from sexp import Sym

from props._chunks_util import comps, rand_comp, rand_comp_zeros, valid_dim, setup_dask

PROP = "C23"
READY = True
DRIVER = "dm_chunks"
LEAN_MODULES = ["DaskModel.Props.C23"]
CASE_TIMEOUT_S = 20
LEVEL_TEXT = ("Lean 4 theorems over transliterations of normalize_chunks / blockdims_from_blockshape / auto_chunks and of the "
              "rechunk kernels and planner. PROVED FOR ALL INPUTS: normalize_sum_nonneg, normalize_sum_pos (positive sizes or "
              "exactly (0,), adding up to the shape; explicit tuples must themselves be positive), auto_chunks_post + "
              "normalize_sum_pos_auto (the modelled auto_chunks - both branches, every value of its floating-point "
              "quantities - returns one entry per dimension, no negative size, tuples positive or (0,): no hypothesis about "
              "auto_chunks is left in the first sentence of the statement), auto_noprev_within_limit (branch without "
              "previous_chunks: if one element fits next to the explicit dimensions and int(size)^k*itemsize*largest_block <= "
              "limit at every recursion level, the largest block is within the byte limit; invariant over the recursion), "
              "intersect1d_covers (loop invariant of the _intersect_1d state machine, no size bound), rechunk_identity / "
              "rechunk_values_unchanged, rechunk_locate (element level), rechunk_nd_exact / rechunk_nd_values (n-d: every "
              "element of every new block is read from an existing old element with the same global index on every axis), "
              "merge_to_number_spec (all paths incl. the heap loop with lazy deletion: same total, positive, exactly "
              "max_number chunks; zero-length chunks accepted), divide_to_width_spec, balance_chunksizes_valid, find_split_valid, "
              "find_merge_valid, find_merge_never_raises (both assertions of find_merge_rechunk hold, no division by zero, "
              "the result fits the limit - for every duplicate-free candidate order), merge_to_number_total (heap "
              "invariant: no pop from an empty heap, no index past the end, no None+int, and the lazy-deletion loop terminates "
              "within its fuel - for max_number >= 1 and any chunks), plan_rechunk_total / plan_rechunk_never_raises (the "
              "modelled plan_rechunk returns on valid chunkings; the only error left is an observed candidate order that does "
              "not fit), plan_rechunk_stages_valid "
              "(every stage of every plan is a valid chunking of the shape and the plan ends with the target, for every "
              "threshold / byte limit / candidate order), plan_compose, plan_rechunk_exact (executing the modelled plan "
              "stage by stage yields exactly the requested chunks over unchanged data). VALIDATED ONLY: the byte limit "
              "with previous_chunks (false as stated: documented tolerance, known finding), termination of the auto_chunks "
              "fix-point loop and of plan_rechunk's `while True` (both depend on floats; observed), the float "
              "arithmetic itself (k-th root, log-ratio sort key, int(a*b/c)), "
              "the graph construction of _compute_rechunk (keys, getitem/concatenate_shaped per axis) - checked at API level "
              "against NumPy, block shapes, and with several rechunks of one source merged into one graph.")
LEVEL_NOTE = ("Trusted: Lean kernel + standard axioms; the correspondence harness incl. its observers (a sys.settrace line "
              "tracer reading `size`, `proposed`, `max_chunk_size`, `reduce_case`, `multiplier != last_multiplier` of the "
              "real auto_chunks call as exact fractions; a profile hook reading `sorted_candidates` of find_merge_rechunk); "
              "NumPy getitem/concatenate on single blocks. Known finding: with previous_chunks auto chunks may exceed the "
              "limit by array.chunk-size-tolerance (documented) - only when a previous chunk is kept verbatim.")
TECHNIQUE = ("Lean 4 proof (loop invariants of _intersect_1d, of merge_to_number's heap loop, of the auto_chunks recursion; "
             "induction over chunk lists / plans; float-dependent choices as universally quantified parameters) + "
             "differential correspondence with observed floats")
ASSUMPTIONS = [
    "sorted(cumold + cumnew, key=itemgetter(1)) on two sorted lists = stable merge, old first on ties (validated by the _intersect_1d diff)",
    "auto_chunks: every floating-point quantity is a parameter of the model (observed from the real call, passed exactly); "
    "the byte-limit theorem assumes int(size)^k * itemsize * largest_block <= limit for the observed k-th root (evaluated on "
    "every observed value; it can fail only when the float root crosses an integer from below)",
    "find_merge_rechunk: the candidate order (sorted by log(gse)/log(bse)) is a parameter (observed; the model checks it is a "
    "permutation of the candidates); block_size_limit/itemsize and int(a*b/c) are computed as exact fractions / floor "
    "division - equal to the float code for power-of-two item sizes and sizes far below 2**53 (the plan diff skips other item sizes)",
    "heapq of distinct (width, i, j) tuples = repeated extraction of the least tuple (layout irrelevant)",
    "getitem with a tuple of slices and concatenate_shaped on in-memory blocks act axis by axis (NumPy)",
]
TRUSTED = ["termination of auto_chunks' `while multiplier_remaining` and plan_rechunk's `while True` is observed (per-case "
           "watchdog), not proved (merge_to_number's `while nmerges > 0` is: merge_to_number_total)",
           "HighLevelGraph/Task construction in _compute_rechunk: validated at API level (values, block shapes, key "
           "distinctness of two rechunks of one source)"]

BYTES = {"16B": 16, "64B": 64, "200B": 200, "1kiB": 1024, "0.5kB": 500}


# ---------------------------------------------------------------------------
# encoding of specs: JSON form <-> python value <-> s-expression
# ---------------------------------------------------------------------------

def spec_py(s):
    if isinstance(s, dict):
        return tuple(s["t"])
    return s


def spec_sx(s):
    if s is None:
        return Sym("none")
    if s == "auto":
        return Sym("auto")
    if isinstance(s, str):
        return [Sym("bytes"), BYTES[s]]
    if isinstance(s, dict):
        return [Sym("t")] + list(s["t"])
    return int(s)


def top_py(t):
    k, v = t["k"], t["v"]
    if k == "scalar":
        return spec_py(v)
    if k == "dict":
        return {int(a): spec_py(s) for a, s in v}
    if k == "list":
        return [spec_py(s) for s in v]
    return tuple(spec_py(s) for s in v)


def top_sx(t):
    k, v = t["k"], t["v"]
    if k == "scalar":
        return [Sym("scalar"), spec_sx(v)]
    if k == "dict":
        return [Sym("dict")] + [[int(a), spec_sx(s)] for a, s in v]
    return [Sym("seq")] + [spec_sx(s) for s in v]


def autores_sx(res):
    """What auto_chunks returned -> `(some spec…)`; None when an entry is outside the model."""
    import numpy as np
    out = [Sym("some")]
    for c in res:
        if isinstance(c, (tuple, list)):
            if not all(isinstance(x, (int, np.integer)) for x in c):
                return None
            out.append([Sym("t")] + [int(x) for x in c])
        elif isinstance(c, (bool, np.bool_)):
            return None
        elif isinstance(c, (int, np.integer)):
            out.append(int(c))
        elif isinstance(c, (float, np.floating)) and float(c).is_integer():
            out.append([Sym("f"), int(c)])
        else:
            return None
    return out


def specs_of(t, nd):
    """The per-dimension entries as normalize_chunks sees them (before the 1-d regrouping)."""
    k, v = t["k"], t["v"]
    if k == "scalar":
        return [v] * nd
    if k == "dict":
        d = {int(a): s for a, s in v}
        return [d.get(i) for i in range(nd)]
    return list(v)


def well_formed(t, shape, limit):
    """Is the spec one the statement quantifies over (so that raising is not allowed)?"""
    nd = len(shape)
    specs = specs_of(t, nd)
    if t["k"] in ("seq", "list") and nd == 1 and len(specs) > 1 and all(isinstance(s, int) and not isinstance(s, bool) for s in specs):
        specs = [{"t": specs}]
    if len(specs) != nd:
        return False
    lims = {BYTES[s] for s in specs if isinstance(s, str) and s != "auto"}
    if len(lims) > 1 or (lims and limit is not None and lims != {limit}):
        return False
    for s, d in zip(specs, shape):
        if s is None or isinstance(s, str):
            continue
        if isinstance(s, dict):
            if not valid_dim(s["t"], d):
                return False
        elif not (s == -1 or s >= 1 or (s == 0 and d == 0)):
            return False
    return True


class _AutoTracer:
    """Observes the float-dependent quantities of the real `auto_chunks` through a line tracer (no change of /repo):
    `size` of every recursion level, `reduce_case`, `(proposed, max_chunk_size)` whenever the `for a in sorted(autos)`
    loop reaches `if proposed > shape[a]`, and the outcome of every `multiplier != last_multiplier`.  The marker
    lines are located in the current source text: if they disappear the tracer raises (harness error = red)."""
    MARKS = {"visit": "if proposed > shape[a]:", "recompute": "if multiplier != last_multiplier:"}

    def __init__(self, fn):
        import inspect
        self.code = fn.__code__
        lines, start = inspect.getsourcelines(fn)
        self.lines = {}
        for k, pat in self.MARKS.items():
            hits = [start + i for i, l in enumerate(lines) if l.strip().startswith(pat)]
            if len(hits) != 1:
                raise RuntimeError(f"auto_chunks: marker line {pat!r} found {len(hits)} times")
            self.lines[hits[0]] = k
        self.visits, self.flags, self.sizes, self.reduce = [], [], [], None

    def _local(self, frame, event, arg):
        if event == "line":
            k = self.lines.get(frame.f_lineno)
            if k == "visit":
                L = frame.f_locals
                self.visits.append((int(L["a"]), float(L["proposed"]), float(L["max_chunk_size"])))
            elif k == "recompute":
                L = frame.f_locals
                self.flags.append(bool(L["multiplier"] != L["last_multiplier"]))
        elif event == "return":
            L = frame.f_locals
            if "size" in L:
                self.sizes.append(float(L["size"]))   # innermost level returns first
            if "reduce_case" in L:
                self.reduce = bool(L["reduce_case"])
        return self._local

    def _global(self, frame, event, arg):
        return self._local if frame.f_code is self.code else None

    def __enter__(self):
        import sys
        self.prev = sys.gettrace()
        sys.settrace(self._global)
        return self

    def __exit__(self, *a):
        import sys
        sys.settrace(self.prev)


def _frac(x):
    import math
    if not math.isfinite(x) or x < 0:
        return None
    n, d = float(x).as_integer_ratio()
    return [n, d]


def _auto_model_diff(ctx, call, tr, res, raised):
    """The real auto_chunks call against `autoChunks` (Model/ChunksAuto.lean) fed with the observed floats."""
    import numpy as np
    import dask.array.core as dac
    chunks, shape, limit, dtype, prev = call
    specs = []
    for c in chunks:
        if isinstance(c, str):
            if c != "auto":
                return
            specs.append(Sym("auto"))
        elif isinstance(c, (tuple, list)):
            if not all(isinstance(x, (int, np.integer)) and not isinstance(x, (bool, np.bool_)) for x in c):
                return
            specs.append([Sym("t")] + [int(x) for x in c])
        elif isinstance(c, (int, np.integer)) and not isinstance(c, (bool, np.bool_)):
            specs.append(int(c))
        else:
            return
    if dtype is None or dtype.hasobject or not all(isinstance(x, (int, np.integer)) for x in shape):
        return
    p_sx = Sym("none")
    if prev is not None:
        try:
            pp = tuple(c[0] if isinstance(c, tuple) and len(c) == 1 else c for c in prev)
            pp = dac._convert_int_chunk_to_tuple(shape, pp)
            p_sx = [[int(x) for x in c] for c in pp]
        except Exception:
            return
        if len(p_sx) != len(shape):
            ctx.note("auto: previous_chunks of another dimensionality (outside the model)")
            return
    sizes = [_frac(x) for x in reversed(tr.sizes)]
    visits = [(_frac(p), _frac(m)) for _, p, m in tr.visits]
    if any(x is None for x in sizes) or any(p is None or m is None for p, m in visits):
        ctx.note("auto: non-finite float observed (outside the model)")
        return
    model = ctx.lean(Sym("auto_chunks"), specs, [int(x) for x in shape], int(dtype.itemsize), p_sx,
                     sizes, bool(tr.reduce), [p + m for p, m in visits], list(tr.flags))
    if raised is not None:
        if isinstance(raised, (ValueError, ZeroDivisionError)):
            ctx.eq("auto_chunks (raising)", model, [Sym("raised")])
        return
    impl = autores_sx(res)
    if impl is None:
        ctx.note("auto result outside the model")
        return
    ctx.eq("auto_chunks vs autoChunks (observed floats)", model, impl)
    if tr.visits:
        ctx.branch("auto:prev-loop:%d-rounds" % min(len(tr.flags) + 1, 4))
        if tr.reduce:
            ctx.branch("auto:reduce-case")
        if any(isinstance(c, tuple) and len(c) > 1 for c in res):
            ctx.branch("auto:previous-chunks-aggregated")
    if len(tr.sizes) > 1:
        ctx.branch("auto:small-dims-fixed(recursion)")
    if any(isinstance(c, float) for c in res):
        ctx.branch("auto:round_to-multiple-of-mode")
    if any(float(p).is_integer() for _, p, _ in tr.visits) or any(float(x).is_integer() for x in tr.sizes):
        ctx.branch("auto:integer-valued-proposed/size")
    if not tr.visits and tr.sizes:
        # hypotheses of auto_noprev_within_limit evaluated on the observed values (exact integer arithmetic in Lean):
        # every observed root is sound (size^k * itemsize * largest_block <= limit), one element fits
        import dask
        from dask.utils import parse_bytes
        lim = limit if limit is not None else dask.config.get("array.chunk-size")
        lim = parse_bytes(lim) if isinstance(lim, str) else lim
        if isinstance(lim, (int, np.integer)):
            lim = max(1, int(lim))
            sound, fits = ctx.lean(Sym("auto_sound"), lim, specs, [int(x) for x in shape], int(dtype.itemsize), sizes)
            if not sound:
                ctx.branch("auto:observed-root-overshoots")   # float ** (1/k) above the exact root (the theorem's hypothesis fails)
            elif fits:
                total = int(dtype.itemsize)
                for c in res:
                    total *= (max(c) if isinstance(c, (tuple, list)) else int(c)) or 1
                if total > lim:
                    ctx.fail("auto_chunks: sound root, one element fits, but the largest block exceeds the limit "
                             "(conclusion of auto_noprev_within_limit)", observed={"result": repr(res), "bytes": total, "limit": lim})
                ctx.branch("auto:noprev-limit-theorem-applies")
            else:
                ctx.branch("auto:explicit-dims-alone-exceed-limit")


def case_normalize(ctx, inp):
    import numpy as np
    import dask.array.core as dac
    t, shape, limit = inp["chunks"], inp["shape"], inp.get("limit")
    prev = inp.get("prev")
    dtype = np.dtype(inp.get("dtype", "i4"))
    rec = {"depth": 0, "res": None, "exc": None, "called": False, "call": None}
    orig = dac.auto_chunks
    tracer = _AutoTracer(orig)

    def wrapper(*a, **k):
        rec["depth"] += 1
        rec["called"] = True
        if rec["depth"] == 1:
            full = list(a) + [None] * (5 - len(a))
            full[4] = k.get("previous_chunks", full[4])
            rec["call"] = full
        try:
            r = orig(*a, **k)
        except Exception as e:
            rec["depth"] -= 1
            if rec["depth"] == 0:
                rec["exc"] = e
            raise
        rec["depth"] -= 1
        if rec["depth"] == 0:
            rec["res"] = r
        return r

    dac.auto_chunks = wrapper
    try:
        try:
            with tracer:
                got = dac.normalize_chunks(top_py(t), tuple(shape), limit=limit, dtype=dtype,
                                           previous_chunks=tuple(map(tuple, prev)) if prev is not None else None)
            impl = [Sym("ok"), [list(map(int, c)) for c in got]]
            exc = None
        except Exception as e:
            exc = e
            impl = [Sym("raised"), Sym("auto") if rec["exc"] is e else Sym(type(e).__name__)]
    finally:
        dac.auto_chunks = orig
    ar = Sym("none")
    if rec["res"] is not None:
        ar = autores_sx(rec["res"])
        if ar is None:
            ctx.note("auto result outside the model")
    has_auto = rec["called"]
    if rec["call"] is not None:
        _auto_model_diff(ctx, rec["call"], tracer, rec["res"], rec["exc"])
    if rec["res"] is not None:
        # hypotheses `AutoOK` / `TupGood` of normalize_sum_nonneg / normalize_sum_pos, checked on the real result
        res_a = rec["res"]
        bad = len(res_a) != len(shape)
        for c, sdim in zip(res_a, shape):
            if isinstance(c, (tuple, list)):
                bad = bad or not (all(x > 0 for x in c) or tuple(c) == (0,)) or any(x < 0 for x in c)
            elif not isinstance(c, str):
                bad = bad or c < 0
        if bad and well_formed(t, shape, limit):
            ctx.fail("auto_chunks returned a negative size / a non-positive tuple / the wrong number of entries",
                     observed=repr(res_a)[:200])
    if ar is not None:
        model = ctx.lean(Sym("normalize"), top_sx(t), shape, limit, ar)
        if model == ["unsupported"]:
            ctx.note("normalize: unsupported form")
        else:
            ctx.eq("normalize_chunks", model, impl)
    # ---- property oracle on the real output --------------------------------------------
    wf = well_formed(t, shape, limit)
    if has_auto:
        ctx.branch("auto" + ("+prev" if prev is not None else ""))
    kinds = {("tuple" if isinstance(s, dict) else "bytes" if isinstance(s, str) and s != "auto" else
              "auto" if s == "auto" else "none" if s is None else "-1" if s == -1 else "int")
             for s in specs_of(t, len(shape))}
    for k in sorted(kinds):
        ctx.branch("spec:" + k)
    if t["k"] == "dict":
        ctx.branch("spec:dict")
    if 0 in shape:
        ctx.branch("zero-dim")
    if not wf:
        ctx.branch("malformed")
    if exc is not None:
        if wf:
            zero = has_auto and 0 in shape
            ctx.fail(f"normalize_chunks raised {type(exc).__name__} on a well-formed spec"
                     + (" (auto with a zero-length dimension)" if zero else ""),
                     sig=("normalize:auto-zero-dim:" + type(exc).__name__) if zero else None,
                     observed=f"{type(exc).__name__}: {exc}")
        return
    res = impl[1]
    ok = len(res) == len(shape) and all(valid_dim(c, s) for c, s in zip(res, shape))
    if not ok:
        specs = specs_of(t, len(shape))
        negint = any(isinstance(s, int) and s < -1 for s in specs) or any(
            isinstance(s, dict) and any(x < 0 for x in s["t"]) for s in specs)
        zeros_in_tuple = any(isinstance(s, dict) and 0 in s["t"] for s in specs)
        if zeros_in_tuple and not negint and all(sum(c) == s and all(x >= 0 for x in c) for c, s in zip(res, shape)):
            # explicit tuples with zero-length chunks are passed through: legal in dask, not produced by normalisation
            ctx.branch("explicit-zero-chunks")
            return
        ctx.fail("normalize_chunks returned chunks that are not positive / do not add up to the shape"
                 + (" (negative chunk size accepted)" if negint else ""),
                 sig="normalize:negative-size-accepted" if negint else None, observed=res)
        return
    # byte limit of automatic chunks
    if has_auto and wf:
        specs = specs_of(t, len(shape))
        lim = limit
        for s in specs:
            if isinstance(s, str) and s != "auto":
                lim = BYTES[s]
        if lim is not None:
            fixed = math.prod(max(c) for c, s in zip(res, specs) if not isinstance(s, str))
            total = math.prod(max(c) for c in res)
            if dtype.itemsize * max(fixed, 1) <= lim and dtype.itemsize * total > lim:
                import dask
                tol = dask.config.get("array.chunk-size-tolerance")
                # only the aggregation branch can exceed the limit by design: it keeps a previous chunk that is larger
                # than `proposed` (but <= proposed * tolerance) verbatim; round_to / the shape boundary never do
                kept = prev is not None and rec["res"] is not None and any(
                    isinstance(c, tuple) and len(c) > 0 and isinstance(s_, str) and max(c) in p_
                    for c, s_, p_ in zip(rec["res"], specs, prev))
                within = kept and dtype.itemsize * total <= lim * tol * (1 + 1e-9)
                ctx.fail("automatic chunks exceed the byte limit although one element fits"
                         + (" (previous_chunks kept, within array.chunk-size-tolerance)" if within else ""),
                         sig="normalize:auto-exceeds-limit:prev-within-tolerance" if within else None,
                         observed={"chunks": res, "bytes": dtype.itemsize * total, "limit": lim})
            else:
                ctx.branch("auto-limit-checked")


# ---------------------------------------------------------------------------
# _intersect_1d / old_to_new
# ---------------------------------------------------------------------------

def _plan_py(r):
    return [[[int(i), int(s.start), int(s.stop)] for i, s in g] for g in r]


def _covers(old, new, plan):
    """Clauses of intersect1d_covers evaluated on a concrete plan. Returns None or a description."""
    if len(plan) != len(new):
        return "number of groups differs from the number of new chunks"
    cumold = [0]
    for c in old:
        cumold.append(cumold[-1] + c)
    pos = 0
    for j, g in enumerate(plan):
        last = -1
        for i, s, e in g:
            if not (0 <= i < len(old)) or not (0 <= s <= e <= old[i]):
                return f"piece {(i, s, e)} outside its old chunk"
            if cumold[i] + s != pos:
                return f"piece {(i, s, e)} of new chunk {j} does not start where the previous one ended"
            if i < last:
                return "old indices not in order"
            last = i
            pos = cumold[i] + e
        if pos != sum(new[: j + 1]):
            return f"pieces of new chunk {j} do not end at its boundary"
    return None


def case_intersect(ctx, inp):
    from dask.array.rechunk import _breakpoints, _intersect_1d, cumdims_label, old_to_new
    old, new = inp["old"], inp["new"]
    if old and isinstance(old[0], list):
        impl = [Sym("ok"), [_plan_py(ax) for ax in old_to_new(tuple(map(tuple, old)), tuple(map(tuple, new)))]]
        model = ctx.lean(Sym("old_to_new"), old, new)
        ctx.eq("old_to_new", model, impl)
        ctx.branch("old_to_new-nd")
        for o, n, pl in zip(old, new, impl[1]):
            why = _covers(o, n, pl)
            if why and all(c > 0 for c in o + n):
                ctx.fail("old_to_new: " + why, observed=pl)
        return
    cmo = cumdims_label((tuple(old),), "o")[0]
    cmn = cumdims_label((tuple(new),), "n")[0]
    r = _intersect_1d(_breakpoints(cmo, cmn))
    impl = [Sym("ok"), _plan_py(r)]
    model = ctx.lean(Sym("intersect1d"), old, new)
    ctx.eq("_intersect_1d", model, impl)
    pos = all(c > 0 for c in old + new)
    if 0 in old:
        ctx.branch("zero-old-chunk")
    if 0 in new:
        ctx.branch("zero-new-chunk")
    if pos and len(old) > 1 and len(new) > 1:
        ctx.branch("positive-multi")
    if any(len(g) > 1 for g in impl[1]):
        ctx.branch("merge-pieces")
    if any(s > 0 for g in impl[1] for _, s, _ in g):
        ctx.branch("split-pieces")
    if sum(old) == sum(new) and (pos or all(c > 0 for c in old)):
        why = _covers(old, new, impl[1])
        if why:
            ctx.fail("_intersect_1d: " + why, observed=impl[1])
    if pos and sum(old) == sum(new) and old and sum(old) <= 60:
        # element level (`planLocate`, theorem rechunk_locate): element q of new block j is read at (old block, offset);
        # real side: the pieces of the real plan expanded, and the blocks `_compute_rechunk` really builds from arange
        loc = ctx.lean(Sym("rechunk_locate"), old, new)
        expanded = [[[i, r] for i, s, e in g for r in range(s, e)] for g in impl[1]]
        ctx.eq("planLocate vs the real plan, element by element", loc, [Sym("ok"), expanded])
        if old != new and ctx.rng.random() < 0.25:
            import numpy as np
            import dask.array as da
            from dask.array.rechunk import _compute_rechunk
            y = _compute_rechunk(da.from_array(np.arange(sum(old)), chunks=(tuple(old),)), (tuple(new),))
            cum = [0]
            for c in old:
                cum.append(cum[-1] + c)
            for j in range(len(new)):
                got = y.blocks[j].compute(scheduler="sync").tolist()
                want = [cum[i] + r for i, r in expanded[j]]
                if got != want:
                    ctx.fail("_compute_rechunk: a new block does not hold the elements the plan names",
                             observed={"block": j, "got": got}, expected=want)
                    break
            ctx.branch("locate:real-blocks")


# ---------------------------------------------------------------------------
# planner arithmetic and real plans
# ---------------------------------------------------------------------------

class _PlanObserver:
    """Records every call of find_merge_rechunk / find_split_rechunk made by plan_rechunk: arguments, result and -
    through a profile hook on the function's return - the float-dependent `sorted_candidates` (the model's `order`)."""

    def __init__(self, R):
        self.R = R
        self.merges = []   # (old, new, bsl, order, result)
        self.splits = []   # (old, new, limit, result)

    def __enter__(self):
        import sys
        R = self.R
        self._fm, self._fs = R.find_merge_rechunk, R.find_split_rechunk
        code = self._fm.__code__
        cell = {}

        def prof(frame, event, arg):
            if event == "return" and frame.f_code is code:
                cell["order"] = list(frame.f_locals.get("sorted_candidates", []))

        def fm(old_chunks, new_chunks, block_size_limit):
            cell.pop("order", None)
            prev = sys.getprofile()
            sys.setprofile(prof)
            try:
                r = self._fm(old_chunks, new_chunks, block_size_limit)
            finally:
                sys.setprofile(prev)
            self.merges.append((old_chunks, new_chunks, block_size_limit, cell.get("order"), r))
            return r

        def fs(old_chunks, new_chunks, graph_size_limit):
            r = self._fs(old_chunks, new_chunks, graph_size_limit)
            self.splits.append((old_chunks, new_chunks, graph_size_limit, r))
            return r

        R.find_merge_rechunk, R.find_split_rechunk = fm, fs
        return self

    def __exit__(self, *a):
        self.R.find_merge_rechunk, self.R.find_split_rechunk = self._fm, self._fs


def _ll(t):
    return [list(map(int, c)) for c in t]


def _plan_model_diff(ctx, R, inp, old, new, steps, obs):
    """plan_rechunk / find_merge_rechunk / find_split_rechunk against the Lean transliteration (Model/ChunksPlanner.lean).
    The only float-dependent inputs of the model are the candidate orders, observed from the real calls."""
    import dask
    from fractions import Fraction
    from dask.utils import parse_bytes
    isz = int(inp["itemsize"])
    thr = inp.get("threshold") or dask.config.get("array.rechunk.threshold")
    bsl = inp.get("bsl") or dask.config.get("array.chunk-size")
    bsl = parse_bytes(bsl) if isinstance(bsl, str) else bsl
    if not (isinstance(thr, int) and isinstance(bsl, int)) or any(o[3] is None for o in obs.merges):
        ctx.note("plan: outside the model (non-integer threshold/limit)")
        return
    lnum = max(bsl, R._largest_block_size(old) * isz, R._largest_block_size(new) * isz)
    exact = all(Fraction(m[2]) == Fraction(lnum, isz) for m in obs.merges)
    if not exact:
        ctx.note("plan: block_size_limit/itemsize not exact in floating point (model skipped)")
        return
    orders = [m[3] for m in obs.merges]
    model = ctx.lean(Sym("plan"), _ll(old), _ll(new), isz, thr, bsl, orders)
    ctx.eq("plan_rechunk vs planRechunk", model, [Sym("ok"), [_ll(st) for st in steps]])
    for (o, n, lim, order, (res, hit)) in obs.merges:
        mm = ctx.lean(Sym("find_merge"), lnum, isz, _ll(o), _ll(n), order)
        ctx.eq("find_merge_rechunk", mm, [Sym("ok"), _ll(res), bool(hit)])
        if hit:
            ctx.branch("plan:memory-limit-hit")
        if tuple(res) != tuple(o) and tuple(res) != tuple(n) and any(
                tuple(r) != tuple(a) and tuple(r) != tuple(b) for r, a, b in zip(res, o, n)):
            ctx.branch("plan:merge-partial(divide_to_width)")
    for (o, n, lim, res) in obs.splits:
        if isinstance(lim, int):
            mm = ctx.lean(Sym("find_split"), _ll(o), _ll(n), lim)
            ctx.eq("find_split_rechunk", mm, [Sym("ok"), _ll(res)])
            if tuple(res) != tuple(o):
                ctx.branch("plan:split-changed")
            else:
                ctx.branch("plan:split-kept")


def case_planner(ctx, inp):
    import importlib
    R = importlib.import_module("dask.array.rechunk")
    op = inp["op"]
    if op == "divide":
        cs, w = inp["cs"], inp["w"]
        try:
            got = list(map(int, R.divide_to_width(tuple(cs), w)))
            impl = [Sym("ok"), got]
        except (ZeroDivisionError, AssertionError, OverflowError, ValueError):
            impl, got = [Sym("raised")], None
        ctx.eq("divide_to_width", ctx.lean(Sym("divide_to_width"), cs, w), impl)
        if got is not None:
            if sum(got) != sum(cs) or any(c > w for c in got) or (all(c > 0 for c in cs) and any(c <= 0 for c in got)):
                ctx.fail("divide_to_width: result does not add up / exceeds max_width / has empty chunks", observed=got)
            if any(c > w for c in cs):
                ctx.branch("divide:splits")
    elif op == "merge":
        cs, n = inp["cs"], inp["n"]
        try:
            got = list(map(int, R.merge_to_number(tuple(cs), n)))
            impl = [Sym("ok"), got]
        except (IndexError, AssertionError, ZeroDivisionError) as e:
            got, impl = None, [Sym("raised")]
        model = ctx.lean(Sym("merge_full"), cs, n)   # all three paths (no-op, homogeneous, heap)
        ctx.eq("merge_to_number", model, impl)
        m_old = ctx.lean(Sym("merge_to_number"), cs, n)
        if m_old == ["unsupported"]:
            ctx.branch("merge:heap-path")
        elif len(cs) > n:
            ctx.branch("merge:homogeneous")
        if 0 in cs:
            ctx.branch("merge:zero-length-chunks")
        if got is None:
            if n >= 1:
                ctx.fail("merge_to_number raised for max_number >= 1"
                         + (" (zero-length chunks in the input)" if 0 in cs else ""), observed=impl)
            return
        # clauses of merge_to_number_spec on the real output
        if sum(got) != sum(cs) or len(got) > max(n, 1) and len(cs) > n or (all(c > 0 for c in cs) and any(c <= 0 for c in got)):
            ctx.fail("merge_to_number: result does not add up / too many chunks / empty chunk", observed=got)
        if len(cs) > n >= 1 and len(got) != n:
            ctx.fail("merge_to_number: fewer chunks than max_number although more were available", observed=got)
        cum_in, acc = set(), 0
        for c in cs:
            acc += c
            cum_in.add(acc)
        acc = 0
        for c in got:
            acc += c
            if acc not in cum_in:
                ctx.fail("merge_to_number: the result is not a merge of adjacent chunks", observed=got)
                break
    elif op == "balance":
        import warnings
        cs = tuple(inp["cs"])
        with warnings.catch_warnings():
            warnings.simplefilter("ignore")
            try:
                got = tuple(int(c) for c in R._balance_chunksizes(cs))
            except ZeroDivisionError as e:
                ctx.fail("_balance_chunksizes raised ZeroDivisionError", observed=str(e))
                return
        ctx.eq("_balance_chunksizes", ctx.lean(Sym("balance"), list(cs)), list(got))
        if 0 in cs:
            ctx.branch("balance:zero-length-chunks")
            if sum(got) != sum(cs) or any(c < 0 for c in got):
                ctx.fail("_balance_chunksizes: result does not add up", observed=got)
        elif sum(got) != sum(cs) or any(c <= 0 for c in got):
            ctx.fail("_balance_chunksizes: result does not add up / has an empty chunk", observed=got)
        if got != cs:
            ctx.branch("balance:changed")  # how well it balances is a heuristic, not part of the statement
        else:
            ctx.branch("balance:kept")
    elif op == "plan":
        old, new = [tuple(c) for c in inp["old"]], [tuple(c) for c in inp["new"]]
        old, new = tuple(old), tuple(new)
        obs = _PlanObserver(R)
        try:
            with obs:
                steps = R.plan_rechunk(old, new, inp["itemsize"], inp.get("threshold"), inp.get("bsl"))
        except Exception as e:
            ctx.fail(f"plan_rechunk raised {type(e).__name__} for valid old/new chunkings", observed=f"{type(e).__name__}: {e}"[:200])
            return
        _plan_model_diff(ctx, R, inp, old, new, steps, obs)
        shape = [sum(c) for c in old]
        m = ctx.lean(Sym("graph_size"), [list(c) for c in old], [list(c) for c in new])
        ctx.eq("estimate_graph_size/_number_of_blocks/_largest_block_size", m,
               [R.estimate_graph_size(old, new), R._number_of_blocks(old), R._number_of_blocks(new),
                R._largest_block_size(old), R._largest_block_size(new)])
        if tuple(map(tuple, steps[-1])) != new:
            ctx.fail("plan_rechunk: last stage is not the target", observed=steps)
        for st in steps:
            if inp.get("zeros"):
                okst = len(st) == len(shape) and all(len(c) > 0 and sum(c) == s and all(v >= 0 for v in c) for c, s in zip(st, shape))
                ctx.branch("plan:zero-length-chunks")
            else:
                okst = len(st) == len(shape) and all(valid_dim(c, s) for c, s in zip(st, shape))
            if not okst:
                ctx.fail("plan_rechunk: a stage is not a valid chunking of the shape", observed=steps)
                break
        if len(steps) > 1:
            ctx.branch(f"plan:{min(len(steps), 4)}-stages")
        # intermediate stages respect the (adjusted) block size limit
        import dask
        from dask.utils import parse_bytes
        bsl = inp.get("bsl") or dask.config.get("array.chunk-size")
        bsl = parse_bytes(bsl) if isinstance(bsl, str) else bsl
        cap = max(bsl / inp["itemsize"], R._largest_block_size(old), R._largest_block_size(new))
        for st in steps[:-1]:
            if R._largest_block_size(st) > cap:
                ctx.fail("plan_rechunk: an intermediate stage has a block larger than block_size_limit "
                         "(and than every old/new block)", observed=steps)
                break
        if inp.get("structured"):
            ctx.branch("plan:structured")
        for a, b in zip((old,) + tuple(steps), steps):
            mm = ctx.lean(Sym("old_to_new"), [list(c) for c in a], [list(c) for c in b])
            impl = [Sym("ok"), [_plan_py(ax) for ax in R.old_to_new(tuple(map(tuple, a)), tuple(map(tuple, b)))]]
            ctx.eq("old_to_new on a plan stage", mm, impl)


def case_rechunk(ctx, inp):
    import numpy as np
    import dask
    import dask.array as da
    setup_dask()
    old = tuple(tuple(c) for c in inp["old"])
    shape = tuple(sum(c) for c in old)
    x = (np.arange(int(np.prod(shape))) * 7 % 23).astype(inp.get("dtype", "i8")).reshape(shape)
    d = da.from_array(x, chunks=old)
    tgt = inp["target"]
    kw = {}
    for k in ("threshold", "block_size_limit", "balance", "method"):
        if inp.get(k) is not None:
            kw[k] = inp[k]
    target = top_py(tgt) if isinstance(tgt, dict) else tuple(tuple(c) for c in tgt)
    try:
        r = d.rechunk(target, **kw)
    except ImportError as e:
        if kw.get("method") == "p2p":
            ctx.branch("p2p-unavailable")
            return
        ctx.fail("rechunk raised ImportError", observed=str(e))
        return
    except Exception as e:
        ctx.fail(f"rechunk raised {type(e).__name__} for a valid target", observed=str(e)[:200])
        return
    got = r.compute(scheduler="sync")
    if got.shape != x.shape or got.dtype != x.dtype or not np.array_equal(got, x):
        ctx.fail("rechunk changed the values", observed=got.tolist(), expected=x.tolist())
    if inp.get("zeros"):
        # explicit targets with zero-length chunks are legal (dask allows them inside explicit tuples)
        okc = len(r.chunks) == len(shape) and all(len(c) > 0 and sum(c) == s and all(v >= 0 for v in c) for c, s in zip(r.chunks, shape))
        ctx.branch("api:zero-length-chunks")
    else:
        okc = len(r.chunks) == len(shape) and all(valid_dim(c, s) for c, s in zip(r.chunks, shape))
    if not okc:
        ctx.fail("rechunk produced invalid chunks", observed=r.chunks)
    explicit = not isinstance(tgt, dict)
    if explicit and not kw.get("balance") and r.chunks != target:
        ctx.fail("rechunk did not produce exactly the requested chunks", observed=r.chunks, expected=target)
    if not explicit and not kw.get("balance"):
        from dask.array.core import normalize_chunks
        # rechunk keeps the old chunks on axes that are missing / None, then normalises with previous_chunks
        if isinstance(target, dict):
            tn = {k % len(shape): v for k, v in target.items()}     # negative axis keys (validate_axis)
            pre = tuple(tn[i] if tn.get(i) is not None else old[i] for i in range(len(shape)))
        elif isinstance(target, (tuple, list)):
            pre = tuple(t if t is not None else o for t, o in zip(target, old))
        else:
            pre = target
        want = normalize_chunks(pre, shape, limit=kw.get("block_size_limit"), dtype=x.dtype, previous_chunks=old)
        if r.chunks != want:
            ctx.fail("rechunk chunks differ from normalize_chunks of the target", observed=r.chunks, expected=want)
    from props._chunks_util import blocks_match_chunks
    why = blocks_match_chunks(r) if math.prod(len(c) for c in r.chunks) <= 150 else None
    if why:
        ctx.fail("rechunk: " + why, observed=r.chunks)
    if len(shape) == 1 and all(c > 0 for c in r.chunks[0]) and r.chunks[0] != old[0]:
        m = ctx.lean(Sym("rechunk1d"), list(old[0]), list(r.chunks[0]), [int(v) for v in x])
        blocks = [r.blocks[i].compute(scheduler="sync").tolist() for i in range(len(r.chunks[0]))]
        ctx.eq("rechunk blocks vs Lean rechunk1d", m, [Sym("ok"), blocks])
    nst = None
    if kw.get("method", "tasks") == "tasks" and explicit:
        from dask.array.rechunk import plan_rechunk
        try:
            nst = len(plan_rechunk(old, target, x.dtype.itemsize, kw.get("threshold"), kw.get("block_size_limit")))
        except Exception:
            nst = None
    if nst and nst > 1:
        ctx.branch("api:multi-stage")
    ctx.branch("api:%dd" % len(shape))
    if kw.get("balance"):
        ctx.branch("api:balance")


def case_unknown(ctx, inp):
    """Rechunking an array with unknown (nan) chunk sizes along one axis: the other axes rechunk exactly, the unknown
    axis must stay unchanged (changing it raises ValueError), values equal NumPy."""
    import numpy as np
    import dask.array as da
    setup_dask()
    old = tuple(tuple(c) for c in inp["old"])
    shape = tuple(sum(c) for c in old)
    x = (np.arange(int(np.prod(shape))) * 3 % 17).reshape(shape)
    mask = np.array(inp["mask"], dtype=bool)
    d = da.from_array(x, chunks=old)
    y = d[da.from_array(mask, chunks=(old[0],))]          # axis 0 gets nan chunks
    want = x[mask]
    tgt = inp["target"]                                     # per-axis: None (keep) or a list of chunk sizes
    if tgt[0] is not None:
        try:
            y.rechunk({0: tuple(tgt[0])})
        except ValueError:
            ctx.branch("unknown:changing-the-unknown-axis-raises")
            return
        except Exception as e:
            ctx.fail(f"rechunk of the unknown axis raised {type(e).__name__} (ValueError expected)", observed=str(e)[:200])
            return
        ctx.fail("rechunk changed an axis with unknown chunk sizes without raising", observed=tgt)
        return
    spec = {i: tuple(t) for i, t in enumerate(tgt) if t is not None}
    if inp.get("negative_keys"):
        spec = {i - len(shape): t for i, t in spec.items()}
    kw = {k: inp[k] for k in ("threshold", "block_size_limit") if inp.get(k) is not None}
    try:
        r = y.rechunk(spec if inp.get("form") != "tuple" else tuple(tuple(t) if t is not None else None for t in tgt), **kw)
        got = r.compute(scheduler="sync")
    except Exception as e:
        ctx.fail(f"rechunk of an array with unknown chunks along another axis raised {type(e).__name__}", observed=str(e)[:200])
        return
    if got.shape != want.shape or not np.array_equal(got, want):
        ctx.fail("rechunk (unknown chunks on axis 0) changed the values", observed=got.tolist(), expected=want.tolist())
    for i, t in enumerate(tgt):
        if i > 0:
            exp = tuple(t) if t is not None else old[i]
            if tuple(r.chunks[i]) != exp:
                ctx.fail("rechunk (unknown chunks on axis 0): a known axis did not get the requested chunks",
                         observed=r.chunks[i], expected=exp)
    if not all(isinstance(c, float) and c != c for c in r.chunks[0]) or len(r.chunks[0]) != len(old[0]):
        ctx.fail("rechunk (unknown chunks on axis 0): the unknown axis changed", observed=str(r.chunks[0]))
    ctx.branch("unknown:other-axes-rechunked")


def _task_canon(t):
    """A comparable rendering of one low-level task (keys of the two graphs that coincide must hold the same task)."""
    import numpy as np
    from dask.base import tokenize
    if isinstance(t, np.ndarray):
        return ("ndarray", t.shape, str(t.dtype), t.tobytes())
    return (type(t).__name__, repr(t), tokenize(t))


def case_multi(ctx, inp):
    """Several rechunks of the SAME source array living in one graph: `_compute_rechunk`'s task names (merge AND
    split prefixes) must depend on the target chunks, otherwise the split tasks of one rechunk overwrite the other's
    when the graphs are merged (dask.compute(y1, y2), y1 + y2, m @ m with asymmetric chunks)."""
    import numpy as np
    import dask
    import dask.array as da
    from dask.array.rechunk import _compute_rechunk
    setup_dask()
    old = tuple(tuple(c) for c in inp["old"])
    shape = tuple(sum(c) for c in old)
    x = (np.arange(int(np.prod(shape))) * 5 % 31 + 1).astype(inp.get("dtype", "i8")).reshape(shape)
    d = da.from_array(x, chunks=old)
    op = inp["op"]
    if op == "matmul":
        # m @ m: the contraction pairs axis 1 of the left operand with axis 0 of the right one -> the same array is
        # rechunked to two different targets inside one graph whenever its two axes are chunked differently
        want = x @ x
        try:
            r = d @ d
            got = r.compute(scheduler="sync")
        except Exception as e:
            ctx.fail(f"m @ m with asymmetric chunks raised {type(e).__name__} (two rechunks of one source in one graph)",
                     observed=f"{type(e).__name__}: {e}"[:200])
            return
        if got.shape != want.shape or not np.array_equal(got, want):
            ctx.fail("m @ m with asymmetric chunks differs from NumPy (two rechunks of one source in one graph)",
                     observed=got.tolist(), expected=want.tolist())
        names = {k[0] for k in r.__dask_graph__() if isinstance(k, tuple) and str(k[0]).startswith("rechunk-")}
        if len({n for n in names if n.startswith("rechunk-merge")}) >= 2:
            ctx.branch("multi:matmul-two-rechunks")
        return
    targets = [tuple(tuple(c) for c in t) for t in inp["targets"]]
    kw = {k: inp[k] for k in ("threshold", "block_size_limit") if inp.get(k) is not None}
    # ---- function level: the layers `_compute_rechunk` builds for two targets -------------------------------
    layers = []
    for t in targets:
        if t == old:
            layers.append(None)
            continue
        y = _compute_rechunk(d, t)
        lay = dict(y.__dask_graph__().layers[y.name])
        layers.append((y.name, lay))
        nsplit = sum(1 for k in lay if str(k[0]).startswith("rechunk-split"))
        if nsplit:
            ctx.branch("multi:split-tasks")
    for i in range(len(targets)):
        for j in range(i + 1, len(targets)):
            if layers[i] is None or layers[j] is None:
                continue
            (ni, li), (nj, lj) = layers[i], layers[j]
            common = set(li) & set(lj)
            if targets[i] == targets[j]:
                if ni != nj or any(_task_canon(li[k]) != _task_canon(lj[k]) for k in common) or set(li) != set(lj):
                    ctx.fail("_compute_rechunk: the same rechunk built twice gives different graphs (non-deterministic names)",
                             observed=[ni, nj])
                ctx.branch("multi:same-target-twice")
                continue
            clash = sorted((str(k) for k in common if _task_canon(li[k]) != _task_canon(lj[k])))
            if clash:
                ctx.fail("_compute_rechunk: two different rechunks of the same array use the same key for different tasks "
                         "(the task name does not depend on the target chunks)",
                         observed={"targets": [targets[i], targets[j]], "keys": clash[:6]})
            elif common:
                ctx.branch("multi:shared-keys-identical-tasks")  # harmless: the same task under the same key
            else:
                ctx.branch("multi:keys-disjoint")
    # ---- API level: computed together / combined elementwise ------------------------------------------------
    try:
        ys = [d.rechunk(t, **kw) for t in targets]
    except Exception as e:
        ctx.fail(f"rechunk raised {type(e).__name__} for a valid target", observed=str(e)[:200])
        return
    for y, t in zip(ys, targets):
        if y.chunks != t:
            ctx.fail("rechunk did not produce exactly the requested chunks", observed=y.chunks, expected=t)
    # every key that occurs in several of the graphs must hold the same task in all of them
    graphs = [dict(y.__dask_graph__()) for y in ys]
    seen = {}
    for gi, g in enumerate(graphs):
        for k, v in g.items():
            c = _task_canon(v)
            if k in seen and seen[k][1] != c:
                ctx.fail("two rechunks of the same array put different tasks under one key",
                         observed={"key": str(k), "targets": [targets[seen[k][0]], targets[gi]]})
                break
            seen.setdefault(k, (gi, c))
    try:
        _multi_api(ctx, op, ys, targets, x)
    except Exception as e:
        ctx.fail(f"several rechunks of one array in one graph: {op} raised {type(e).__name__}",
                 observed=f"{type(e).__name__}: {e}"[:200])


def _multi_api(ctx, op, ys, targets, x):
    import numpy as np
    import dask
    import dask.array as da
    if op == "compute":
        for optimize in (True, False):
            outs = dask.compute(*ys, scheduler="sync", optimize_graph=optimize)
            for o, t in zip(outs, targets):
                if o.shape != x.shape or not np.array_equal(o, x):
                    ctx.fail("dask.compute(y1, y2, ...) of several rechunks of one array: values changed"
                             + ("" if optimize else " (optimize_graph=False)"),
                             observed={"target": t, "got": o.tolist()}, expected=x.tolist())
                    return
        ctx.branch("multi:compute-together")
    elif op == "add":
        tot = ys[0]
        for y in ys[1:]:
            tot = tot + y
        got = tot.compute(scheduler="sync")
        want = x * len(ys)
        if got.shape != want.shape or not np.array_equal(got, want):
            ctx.fail("y1 + y2 of two rechunks of one array differs from NumPy", observed=got.tolist(), expected=want.tolist())
        ctx.branch("multi:add")
    elif op == "stack":
        got = da.stack(ys).compute(scheduler="sync")
        want = np.stack([x] * len(ys))
        if got.shape != want.shape or not np.array_equal(got, want):
            ctx.fail("da.stack of several rechunks of one array differs from NumPy", observed=got.tolist(), expected=want.tolist())
        ctx.branch("multi:stack")


CASES = {"normalize": case_normalize, "intersect": case_intersect, "planner": case_planner, "rechunk": case_rechunk,
         "multi": case_multi, "unknown": case_unknown}


# ---------------------------------------------------------------------------
# generators
# ---------------------------------------------------------------------------

def _rand_spec(rng, d, allow_auto=True, malformed=False):
    r = rng.random()
    if malformed and r < 0.25:
        return rng.choice([0, -2, -3, {"t": [d + 1, -1]}, {"t": []}, {"t": [max(d - 1, 0)]}, {"t": [d, 0]}])
    if r < 0.35:
        return rng.randint(1, max(1, d + 2))
    if r < 0.45:
        return -1
    if r < 0.55:
        return None
    if r < 0.75 and allow_auto:
        return "auto"
    if r < 0.82 and allow_auto:
        return rng.choice(list(BYTES))
    return {"t": rand_comp(rng, d)}


def _gen_normalize(ctx, rng):
    nd = rng.randint(1, 3)
    shape = [rng.choice([0, 1, 2, 3, 5, 8, 13, 20, 50]) if rng.random() < 0.9 else rng.randint(0, 200) for _ in range(nd)]
    if rng.random() < 0.8:
        shape = [s or rng.randint(1, 9) for s in shape]
    mal = rng.random() < 0.12
    form = rng.choice(["scalar", "seq", "seq", "seq", "dict", "list"])
    if form == "scalar":
        v = rng.choice([rng.randint(1, 9), -1, "auto", "auto", rng.choice(list(BYTES))] + ([0, -2] if mal else []))
        t = {"k": "scalar", "v": v}
    elif form == "dict":
        t = {"k": "dict", "v": [[i, _rand_spec(rng, shape[i], malformed=mal)] for i in range(nd) if rng.random() < 0.7]}
    else:
        n = nd if not (mal and rng.random() < 0.3) else nd + rng.choice([-1, 1])
        specs = [_rand_spec(rng, shape[i % nd], malformed=mal) for i in range(max(n, 0))]
        if nd == 1 and rng.random() < 0.15:
            specs = rand_comp(rng, shape[0])  # flat tuple of ints for a 1-d shape
        t = {"k": form, "v": specs}
    limit = rng.choice([None, None, 1, 4, 8, 16, 64, 200, 1000, 4096])
    prev = None
    if rng.random() < 0.4:
        prev = [rand_comp(rng, s) for s in shape]
    return {"chunks": t, "shape": shape, "limit": limit, "prev": prev, "dtype": rng.choice(["i4", "i4", "f8", "i1", "c16"])}


def _gen_auto_boundary(rng):
    """auto_chunks at its comparison boundaries: `shape[i] < size` with an integer `size` (perfect powers),
    `c + new_chunk <= proposed` / `proposed < 1` / `c <= s` of round_to with an integer `proposed` (one auto axis),
    and the `c // s * s` branch of round_to (previous chunks with a small mode and a few large outliers)."""
    r = rng.random()
    isz_dt = rng.choice([(1, "i1"), (4, "i4"), (8, "f8")])
    if r < 0.35:
        k = rng.choice([1, 2, 2, 3])
        f = rng.randint(1, 6)
        shape = [rng.choice([f, f, f + 1, max(f - 1, 0), f * 3 + 1, 50]) for _ in range(k)]
        specs = ["auto"] * k
        fixed = 1
        if rng.random() < 0.5:
            c = rng.randint(1, 4)
            shape.append(rng.randint(c, 3 * c))
            specs.append(c)
            fixed = c
        order = list(range(len(shape)))
        rng.shuffle(order)
        shape = [shape[i] for i in order]
        specs = [specs[i] for i in order]
        limit = f ** k * isz_dt[0] * fixed + rng.choice([0, 0, 0, -1, 1])
        return {"chunks": {"k": "seq", "v": specs}, "shape": shape, "limit": max(limit, 1), "prev": None, "dtype": isz_dt[1]}
    if r < 0.7:
        n = rng.randint(2, 60)
        prev_a = rand_comp(rng, n, rng.choice(["irregular", "ragged", "uniform"]))
        cum, acc = [], 0
        for c in prev_a:
            acc += c
            cum.append(acc)
        target = max(1, rng.choice(cum + [1, 1, max(prev_a), min(prev_a)]) + rng.choice([0, 0, 0, -1, 1]))
        c = rng.choice([1, 1, 2, 3])
        other = rng.randint(c, 3 * c)
        shape, specs, prev = [n, other], ["auto", c], [prev_a, rand_comp(rng, other)]
        if rng.random() < 0.5:
            shape, specs, prev = shape[::-1], specs[::-1], prev[::-1]
        return {"chunks": {"k": "seq", "v": specs}, "shape": shape, "limit": target * isz_dt[0] * c, "prev": prev,
                "dtype": isz_dt[1]}
    # a small mode with a few large outliers: ideal_shape = mode, round_to(proposed, mode) takes `c // s * s`
    m = rng.randint(2, 5)
    prev_a = [m] * rng.randint(4, 10)
    for _ in range(rng.randint(1, 2)):
        prev_a.insert(rng.randint(0, len(prev_a)), m * rng.randint(3, 8))
    n = sum(prev_a)
    nd = rng.choice([1, 2])
    shape, specs, prev = [n], ["auto"], [prev_a]
    if nd == 2:
        m2 = rng.randint(2, 4)
        p2 = [m2] * rng.randint(3, 6) + [m2 * rng.randint(3, 6)]
        shape.append(sum(p2)); specs.append("auto"); prev.append(p2)
    target = rng.randint(m + 1, 3 * m * (2 if nd == 2 else 1) + 2) * (rng.randint(2, 9) if nd == 2 else 1)
    return {"chunks": {"k": "seq", "v": specs}, "shape": shape, "limit": target * isz_dt[0], "prev": prev, "dtype": isz_dt[1]}


def _gen_pair(rng, n, zeros=False):
    g = rand_comp_zeros if zeros else rand_comp
    return g(rng, n), g(rng, n)


def _gen_transpose_like(rng):
    """>= 3 axes: one goes fine -> coarse, one coarse -> fine, one regular -> irregular with a single wide
    target chunk; block_size_limit just above the larger of the old/new block sizes (forces split+merge passes)."""
    nd = rng.choice([3, 3, 3, 4])
    roles = ["f2c", "c2f", "irr"] + [rng.choice(["f2c", "c2f", "irr", "same"]) for _ in range(nd - 3)]
    rng.shuffle(roles)
    old, new = [], []
    for role in roles:
        if role == "f2c":
            n = rng.randint(4, 12)
            old.append([1] * n); new.append([n])
        elif role == "c2f":
            n = rng.randint(4, 24)
            old.append([n]); new.append([1] * n)
        elif role == "same":
            c = rand_comp(rng, rng.randint(2, 8))
            old.append(c); new.append(list(c))
        else:
            c, k = rng.randint(2, 12), rng.randint(2, 6)
            n = c * k
            wide = rng.randint(c + 1, max(c + 1, n - 2))
            a = rng.randint(0, n - wide)
            tgt = [1] * a + [wide] + [1] * (n - wide - a)
            if rng.random() < 0.3:  # a few more irregular pieces
                tgt = rand_comp(rng, a) * (a > 0) + [wide] + rand_comp(rng, n - wide - a) * (n - wide - a > 0)
            old.append([c] * k); new.append(tgt)
    itemsize = rng.choice([1, 4, 8])
    lo = max(math.prod(max(c) for c in old), math.prod(max(c) for c in new))
    bsl = int(lo * itemsize * rng.choice([1, 1, 1.01, 1.25, 1.5, 2, 4]))
    return old, new, itemsize, bsl, rng.choice([None, None, 1, 2, 3])


def _refine(rng, c):
    """A proper refinement of the chunking `c` (at least one block is split) when one exists."""
    out = []
    for x in c:
        out.extend(rand_comp(rng, x, rng.choice(["irregular", "uniform", "ragged"])) if x > 1 and rng.random() < 0.7 else [x])
    if out == list(c):
        for i, x in enumerate(c):
            if x > 1:
                k = rng.randint(1, x - 1)
                return list(c[:i]) + [k, x - k] + list(c[i + 1:])
    return out


def _gen_multi(ctx, rng):
    yield {"op": "compute", "old": [[4], [6]], "targets": [[[2, 2], [6]], [[4], [3, 3]]]}
    yield {"op": "add", "old": [[6]], "targets": [[[2, 4]], [[4, 2]]]}
    yield {"op": "matmul", "old": [[4, 2], [3, 3]]}
    for _ in range(ctx.n(60, 600)):
        nd = rng.choice([1, 1, 2, 2, 3])
        shape = [rng.randint(2, 12 if nd < 3 else 5) for _ in range(nd)]
        r = rng.random()
        if r < 0.6:
            # coarse source, every target splits blocks (differently)
            old = [rand_comp(rng, s, rng.choice(["single", "single", "uniform", "irregular"])) for s in shape]
            k = rng.choice([2, 2, 2, 3])
            targets = []
            for _i in range(k):
                t = [list(c) for c in old]
                axes = [a for a in range(nd) if rng.random() < 0.6] or [rng.randrange(nd)]
                for a in axes:
                    t[a] = _refine(rng, old[a])
                targets.append(t)
        elif r < 0.85:
            old = [rand_comp(rng, s) for s in shape]
            targets = [[rand_comp(rng, s) for s in shape] for _i in range(rng.choice([2, 2, 3]))]
        else:
            old = [rand_comp(rng, s) for s in shape]
            t = [rand_comp(rng, s) for s in shape]
            targets = [t, [list(c) for c in t]]  # the same target twice: identical graphs
        yield {"op": rng.choice(["compute", "compute", "add", "stack"]), "old": old, "targets": targets,
               "threshold": rng.choice([None, None, 1]), "block_size_limit": rng.choice([None, None, 16, 64]),
               "dtype": rng.choice(["i8", "i4"])}
    for _ in range(ctx.n(25, 250)):
        n = rng.randint(2, 9)
        yield {"op": "matmul", "old": [rand_comp(rng, n), rand_comp(rng, n)]}


def generate(ctx):
    rng = ctx.rng
    # --- regression / documented examples -------------------------------------------------
    yield "normalize", {"chunks": {"k": "scalar", "v": "auto"}, "shape": [0, 5], "limit": 64, "dtype": "i4"}
    yield "normalize", {"chunks": {"k": "seq", "v": [2, 2]}, "shape": [5, 6]}
    yield "normalize", {"chunks": {"k": "seq", "v": []}, "shape": [0, 0]}
    yield "normalize", {"chunks": {"k": "seq", "v": [3, 2]}, "shape": [5]}
    yield "normalize", {"chunks": {"k": "scalar", "v": "1kiB"}, "shape": [2000], "dtype": "f4"}
    yield "intersect", {"old": [10, 10, 10, 10, 10], "new": [25, 5, 20]}
    # --- exhaustive small spaces ------------------------------------------------------------
    top = 5 if not ctx.thorough() else 8
    for n in range(0, top + 1):
        cs = comps(n)
        for o in cs:
            for w in cs:
                yield "intersect", {"old": list(o), "new": list(w)}
    # structured multi-stage stream (function level and API level)
    for i in range(ctx.n(200, 2600)):
        old, new, itemsize, bsl, th = _gen_transpose_like(rng)
        yield "planner", {"op": "plan", "old": old, "new": new, "itemsize": itemsize, "threshold": th, "bsl": bsl, "structured": True}
        if i % 6 == 0 and math.prod(sum(c) for c in old) <= 12000 and math.prod(len(c) for c in new) <= 1500:
            yield "rechunk", {"old": old, "target": new, "threshold": th, "block_size_limit": bsl,
                              "dtype": {1: "i1", 4: "i4", 8: "i8"}[itemsize]}
    # several rechunks of one source in one graph (task names must depend on the target chunks)
    for inp in _gen_multi(ctx, rng):
        yield "multi", inp
    # --- _intersect_1d incl. zero-length chunks, unequal sums --------------------------------
    for _ in range(ctx.n(350, 6000)):
        n = rng.randint(0, 40)
        old, new = _gen_pair(rng, n, zeros=rng.random() < 0.35)
        if rng.random() < 0.05:
            new = new + [rng.randint(1, 4)]  # new extends beyond old ("imaginary old chunk")
        yield "intersect", {"old": old, "new": new}
    for _ in range(ctx.n(120, 1500)):
        nd = rng.randint(1, 3)
        shape = [rng.randint(1, 15) for _ in range(nd)]
        yield "intersect", {"old": [rand_comp(rng, s) for s in shape], "new": [rand_comp(rng, s) for s in shape]}
    # --- normalize_chunks -------------------------------------------------------------------
    for _ in range(ctx.n(800, 15000)):
        yield "normalize", _gen_normalize(ctx, rng)
    for _ in range(ctx.n(400, 6000)):
        yield "normalize", _gen_auto_boundary(rng)
    # --- planner arithmetic -------------------------------------------------------------------
    for _ in range(ctx.n(400, 5000)):
        r = rng.random()
        if r < 0.4:
            cs = [rng.randint(0 if rng.random() < 0.1 else 1, 40) for _ in range(rng.randint(1, 8))]
            yield "planner", {"op": "divide", "cs": cs, "w": rng.randint(0 if rng.random() < 0.03 else 1, 45)}
        elif r < 0.47:
            n = rng.randint(1, 60)
            if rng.random() < 0.15:
                yield "planner", {"op": "balance", "cs": rand_comp_zeros(rng, rng.randint(0, 12)) + [0] * rng.randint(0, 3)}
            else:
                yield "planner", {"op": "balance", "cs": rand_comp(rng, n, rng.choice(["uniform", "uniform", "irregular", "ragged"]))}
        elif r < 0.8:
            rr = rng.random()
            if rr < 0.4:
                cs = [rng.randint(1, 9)] * rng.randint(1, 12)
            elif rr < 0.85:
                cs = [rng.randint(1, 12) for _ in range(rng.randint(1, 10))]
            elif rr < 0.95:
                cs = rand_comp_zeros(rng, rng.randint(0, 20)) + ([0] if rng.random() < 0.3 else [])
            else:
                cs = [0] * rng.randint(1, 6)
            yield "planner", {"op": "merge", "cs": cs, "n": rng.randint(1, len(cs) + 1)}
        else:
            nd = rng.randint(1, 3)
            shape = [rng.randint(1, 30) for _ in range(nd)]
            if rng.random() < 0.2:   # zero-length chunks inside source / target (legal in explicit tuples)
                yield "planner", {"op": "plan", "old": [rand_comp_zeros(rng, s) for s in shape],
                                  "new": [rand_comp_zeros(rng, s) for s in shape], "itemsize": rng.choice([1, 4, 8]),
                                  "threshold": rng.choice([1, 1, 2]), "bsl": rng.choice([8, 16, 64, 256]), "zeros": True}
                continue
            yield "planner", {"op": "plan", "old": [rand_comp(rng, s) for s in shape],
                              "new": [rand_comp(rng, s) for s in shape], "itemsize": rng.choice([1, 4, 8]),
                              "threshold": rng.choice([None, 1, 2, 4]), "bsl": rng.choice([None, 8, 64, 256, 4096])}
    # arrays with unknown chunk sizes on axis 0 (boolean mask): the other axes rechunk, the unknown one must not
    for _ in range(ctx.n(40, 400)):
        nd = rng.choice([2, 2, 3])
        shape = [rng.randint(2, 7) for _ in range(nd)]
        old = [rand_comp(rng, s) for s in shape]
        mask = [rng.random() < 0.6 for _ in range(shape[0])]
        tgt = [None] + [rand_comp(rng, s) if rng.random() < 0.7 else None for s in shape[1:]]
        if rng.random() < 0.12:
            tgt[0] = rand_comp(rng, shape[0])
        yield "unknown", {"old": old, "mask": mask, "target": tgt, "negative_keys": rng.random() < 0.3,
                          "form": rng.choice(["dict", "dict", "tuple"]), "threshold": rng.choice([None, 1]),
                          "block_size_limit": rng.choice([None, 16, 64])}
    for _ in range(ctx.n(150, 1500)):
        n = rng.randint(1, 80)
        yield "planner", {"op": "balance", "cs": rand_comp(rng, n, rng.choice(["uniform", "uniform", "irregular", "ragged"]))}
    if ctx.thorough():
        for n in range(1, 9):
            for c in comps(n):
                yield "planner", {"op": "balance", "cs": list(c)}
    # --- API level ----------------------------------------------------------------------------
    for _ in range(ctx.n(150, 1500)):
        nd = rng.choice([1, 1, 2, 2, 3])
        shape = [rng.randint(1, 12 if nd < 3 else 6) for _ in range(nd)]
        old = [rand_comp(rng, s) for s in shape]
        r = rng.random()
        if r < 0.6:
            target = [rand_comp(rng, s) for s in shape]
        elif r < 0.8:
            target = {"k": "seq", "v": [rng.choice([rng.randint(1, s + 1), -1, None, "auto"]) for s in shape]}
        elif r < 0.9:
            neg = rng.random() < 0.3   # negative axis keys: validate_axis
            target = {"k": "dict", "v": [[i - nd if neg else i, rng.choice([rng.randint(1, s + 1), -1, "auto"])]
                                         for i, s in enumerate(shape) if rng.random() < 0.6]}
        else:
            target = {"k": "scalar", "v": rng.choice([rng.randint(1, 5), "auto", -1])}
        yield "rechunk", {"old": old, "target": target, "threshold": rng.choice([None, None, 1, 2]),
                          "block_size_limit": rng.choice([None, None, 8, 16, 64, 512, "64B", "1kiB"]),
                          "balance": True if rng.random() < 0.1 else None,
                          "method": rng.choice([None, None, None, "tasks", "p2p"]),
                          "dtype": rng.choice(["i8", "i4", "f8"])}
    # zero-length chunks in the source and/or inside the explicit target, zero-length axes
    for _ in range(ctx.n(60, 600)):
        nd = rng.choice([1, 1, 2, 2, 3])
        shape = [rng.randint(0, 7) for _ in range(nd)]
        old = [rand_comp_zeros(rng, s) for s in shape]
        target = [rand_comp_zeros(rng, s) if rng.random() < 0.5 else rand_comp(rng, s) for s in shape]
        yield "rechunk", {"old": old, "target": target, "zeros": True, "threshold": rng.choice([None, 1]),
                          "block_size_limit": rng.choice([None, 16, 64]), "dtype": "i8",
                          "balance": True if rng.random() < 0.15 else None}
    # transposition-like rechunks force multi-stage plans
    for _ in range(ctx.n(40, 400)):
        a, b = rng.randint(4, 10), rng.randint(4, 10)
        old = [[1] * a, [b]] if rng.random() < 0.5 else [[a], [1] * b]
        new = [old[1] if False else ([a] if old[0] != [a] else [1] * a), ([b] if old[1] != [b] else [1] * b)]
        yield "rechunk", {"old": old, "target": new, "threshold": rng.choice([1, 2, None]),
                          "block_size_limit": rng.choice([8, 16, 32, 64]), "dtype": "i8"}
    if ctx.thorough():
        for n in range(1, 7):
            for o in comps(n):
                for w in comps(n):
                    yield "rechunk", {"old": [list(o)], "target": [list(w)]}
        # every pair of chunkings of the shapes (3, 4) and (2, 2, 3), planned under a tight and a loose limit
        import itertools
        for shape in ([3, 4], [2, 2, 3]):
            alls = [list(map(list, c)) for c in itertools.product(*[comps(n) for n in shape])]
            for o in alls:
                for w in alls:
                    if o != w:
                        lo = max(math.prod(max(c) for c in o), math.prod(max(c) for c in w))
                        for bsl in (lo, 4 * lo):
                            yield "planner", {"op": "plan", "old": o, "new": w, "itemsize": 1, "threshold": 1, "bsl": bsl}
        # all pairs of proper refinements of a single chunk of length n, computed together
        for n in range(2, 6):
            cs = [list(c) for c in comps(n) if len(c) > 1]
            for i, a in enumerate(cs):
                for b in cs[i + 1:]:
                    yield "multi", {"op": "compute", "old": [[n]], "targets": [[a], [b]]}
