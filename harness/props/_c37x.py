"""C37 extension round — cov / corr, var / sem, nunique and the exact statistics of describe.

Model:    lean/DaskModel/Model/CoMoment.lean (pairChunk / pairCombine / covAgg / corrAgg = `_cov_corr_chunk/_combine/_agg` for one
          ordered pair of columns over exact rationals; dfVarChunk + Moment.momCombine / momAgg = `Var.reduction_*`; dedup /
          nuAgg = `DropDuplicates` + count/size; daskDescribe), handlers in Model/CoMomentIO.lean
Theorems: lean/DaskModel/Props/C37xStats.lean
Sections: `covcorr` — function level: the REAL `_cov_corr_chunk` on every partition, `_cov_corr_combine` on batches of the real
          partial results and `_cov_corr_agg` on the combined ones vs the model fed with its own exact partial results (counts
          and sums exactly, co-moments within 1e-9); pandas `cov`/`corr` vs the Lean specification; API level
          `DataFrame.cov/corr(min_periods, split_every)` vs the model tree and vs pandas.
          `stats` — `Var.reduction_chunk/_combine/_aggregate`, `DropDuplicates.chunk/aggregate` on real partitions vs the
          model; `Series.var/sem/nunique/describe` over arbitrary partitionings vs the model tree and vs pandas.
All dataframe access goes through core.import_dd() (via _dfrows_util).
"""
from __future__ import annotations

import math
import warnings
from fractions import Fraction

from sexp import Sym

from props import _dfrows_util as U

COLS = ["a", "b", "c"]


def _se_py(se):
    return {"none": None, "false": False}.get(se, se)


def _se_sexp(se):
    return Sym(se) if isinstance(se, str) else se


def _isnone(x):
    return x is None or (isinstance(x, str) and x == "none")


def _q(x):
    """model rational `(num den)` | none -> Fraction | None"""
    if _isnone(x):
        return None
    return Fraction(int(x[0]), int(x[1]))


def _same(q, x, tol=1e-9):
    """model value (Fraction | None = NaN) vs a real float"""
    x = float(x)
    if q is None:
        return math.isnan(x)
    if math.isnan(x) or math.isinf(x):
        return False
    return abs(float(q) - x) <= tol * max(1.0, abs(float(q)))


def _corr_of(cd):
    """model (C, d2) -> expected correlation (None = NaN)"""
    if _isnone(cd):
        return None
    c, d2 = _q(cd[0]), _q(cd[1])
    if d2 == 0:
        return None
    return float(c) / math.sqrt(float(d2))


def _same_f(e, x, tol=1e-9):
    x = float(x)
    if e is None:
        return math.isnan(x)
    return (not math.isnan(x)) and abs(e - x) <= tol * max(1.0, abs(e))


def _frame(cols):
    import numpy as np
    import pandas as pd
    n = len(cols[0])
    return pd.DataFrame({COLS[i]: pd.Series([np.nan if v is None else float(v) for v in c], dtype="float64")
                         for i, c in enumerate(cols)}, index=range(n))


def _mat_eq(ctx, what, model, real, key):
    """entrywise comparison of a model matrix (after `key`) with a real 2-d array; reports one disagreement"""
    c = len(model)
    for i in range(c):
        for j in range(c):
            if not key(model[i][j], real[i][j]):
                ctx.disagree(f"{what}[{i}][{j}]", repr(model[i][j]), repr(float(real[i][j])))
                return False
    return True


def _cmp_partial(ctx, what, mm, r, corr):
    """model matrix of partials (n sx sy c mx my) vs a real dict of c×c arrays"""
    ok = _mat_eq(ctx, what + ".count", mm, r["count"], lambda m, x: int(m[0]) == x)
    ok = ok and _mat_eq(ctx, what + ".sum", mm, r["sum"], lambda m, x: _same(_q(m[2]), x, 1e-12))
    ok = ok and _mat_eq(ctx, what + ".cov", mm, r["cov"], lambda m, x: _same(_q(m[3]), x))
    if corr:
        ok = ok and _mat_eq(ctx, what + ".m", mm, r["m"], lambda m, x: _same(_q(m[5]), x))
    elif "m" in r:
        ctx.disagree(what + ": key m present without corr", "absent", "present")
    return ok


def case_covcorr(ctx, inp):
    import numpy as np
    U.dd()
    from dask.dataframe.core import _cov_corr_agg, _cov_corr_chunk, _cov_corr_combine
    cols, lens, se, minp, corr, batch = inp["cols"], inp["lens"], inp["se"], inp["minp"], inp["corr"], inp["batch"]
    nc = len(cols)
    df = _frame(cols)
    b = U.bounds_of(lens)
    pcols = [[U.cells_to_sexp(c[b[i]:b[i + 1]]) for c in cols] for i in range(len(lens))]
    how = "corr" if corr else "cov"
    with warnings.catch_warnings():
        warnings.simplefilter("ignore")
        # ---- pandas vs the Lean specification
        spec = ctx.lean(Sym("covspec"), minp, [U.cells_to_sexp(c) for c in cols])
        pc, pr = df.cov(min_periods=minp).values, df.corr(min_periods=minp).values
        _mat_eq(ctx, "pandas cov vs Lean spec", spec, pc, lambda m, x: _same(_q(m[0]), x))
        _mat_eq(ctx, "pandas corr vs Lean spec", spec, pr, lambda m, x: _same_f(_corr_of(m[1]), x))
        # ---- function level: chunk on every partition
        rchunks, mchunks = [], []
        for i in range(len(lens)):
            r = _cov_corr_chunk(df.iloc[b[i]:b[i + 1]], corr=corr)
            m = ctx.lean(Sym("covfn"), Sym("chunk"), pcols[i])
            _cmp_partial(ctx, "_cov_corr_chunk", m, r, corr)
            rchunks.append(r)
            mchunks.append(m)
        # ---- combine on batches of partial results, then agg over the combined ones (a two-level tree by hand)
        rcomb, mcomb = [], []
        for s in range(0, len(lens), batch):
            r = _cov_corr_combine(rchunks[s:s + batch], corr=corr)
            m = ctx.lean(Sym("covfn"), Sym("combine"), mchunks[s:s + batch])
            _cmp_partial(ctx, "_cov_corr_combine", m, r, corr)
            rcomb.append(r)
            mcomb.append(m)
        ragg = _cov_corr_agg(rcomb, df.columns, min_periods=minp, corr=corr).values
        magg = ctx.lean(Sym("covfn"), Sym("agg"), minp, mcomb)
        if corr:
            _mat_eq(ctx, "_cov_corr_agg(corr=True)", magg, ragg, lambda m, x: _same_f(_corr_of(m[1]), x))
        else:
            _mat_eq(ctx, "_cov_corr_agg", magg, ragg, lambda m, x: _same(_q(m[0]), x))
        # ---- API level
        d = U.from_parts(df, lens, known=inp.get("known", True))
        model = ctx.lean(Sym(how), _se_sexp(se), minp, nc, pcols)
        exp = pr if corr else pc
        try:
            got = getattr(d, how)(min_periods=minp, split_every=_se_py(se)).compute(scheduler="sync")
        except Exception as e:
            ctx.fail(f"DataFrame.{how}(min_periods={minp}, split_every={se}) raised {type(e).__name__}",
                     observed=f"{type(e).__name__}: {e}"[:300])
            return
        if list(got.columns) != COLS[:nc] or list(got.index) != COLS[:nc]:
            ctx.fail(f"DataFrame.{how}: labels differ from pandas", observed=[list(got.index), list(got.columns)], expected=COLS[:nc])
            return
        g = got.values
        if model[0] == "ok":
            if corr:
                _mat_eq(ctx, "DataFrame.corr over the tree", model[1], g, lambda m, x: _same_f(_corr_of(m), x))
            else:
                _mat_eq(ctx, "DataFrame.cov over the tree", model[1], g, lambda m, x: _same(_q(m), x))
        else:
            ctx.disagree("model tree did not evaluate", model, "computed")
        for i in range(nc):
            for j in range(nc):
                x, e = float(g[i][j]), float(exp[i][j])
                if not ((math.isnan(x) and math.isnan(e)) or (not math.isnan(x) and not math.isnan(e) and abs(x - e) <= 1e-9 * max(1.0, abs(e)))):
                    ctx.fail(f"DataFrame.{how}(min_periods={minp}, split_every={se})[{i}][{j}] differs from pandas", observed=x, expected=e)
                    return
    # ---- coverage
    ctx.branch("covcorr-" + how)
    n = len(cols[0])
    if any(len({cols[i][r] is None for i in range(nc)}) > 1 for r in range(n)):
        ctx.branch("covcorr-pairwise-incomplete-rows")
    if any(x == 0 for x in lens):
        ctx.branch("covcorr-empty-partition")
    if any(x == 1 for x in lens):
        ctx.branch("covcorr-single-row-partition")
    if any(_isnone(spec[i][j][0]) for i in range(nc) for j in range(nc)):
        ctx.branch("covcorr-nan-entry")
    if any((not _isnone(spec[i][j][1])) and _q(spec[i][j][1][1]) == 0 for i in range(nc) for j in range(nc)):
        ctx.branch("covcorr-constant-on-complete-rows")
    k = {"none": 8, "false": 10 ** 9}.get(se, se)
    if len(lens) > k:
        ctx.branch("covcorr-tree-combine-level")
    if len(rcomb) > 1:
        ctx.branch("covcorr-nested-combine")


# ------------------------------------------------------------------------------------------------
# var / sem / nunique / describe
# ------------------------------------------------------------------------------------------------

def _p_of(r):
    """real moment partial {"total", "n", "M"} -> (n, total, M) as floats"""
    import numpy as np
    return int(np.asarray(r["n"]).ravel()[0]), float(np.asarray(r["total"]).ravel()[0]), float(np.asarray(r["M"]).ravel()[0])


def _cmp_p(ctx, what, m, r):
    n, t, mm = _p_of(r)
    if int(m[0]) != n or not _same(_q(m[1]), t, 1e-12) or not _same(_q(m[2]), mm):
        ctx.disagree(what, repr(m), repr((n, t, mm)))


def _fnum(v):
    import pandas as pd
    if v is None or v is pd.NA:
        return float("nan")
    return float(v)


def case_stats(ctx, inp):
    import numpy as np
    import pandas as pd
    U.dd()
    from dask.dataframe.dask_expr._reductions import DropDuplicates, Var
    how, cells, lens, se, ddof, dropna, batch = inp["how"], inp["cells"], inp["lens"], inp["se"], inp["ddof"], inp["dropna"], inp["batch"]
    s = U.mk_series(cells, "float64")
    parts = U.split(cells, lens)
    b = U.bounds_of(lens)
    d = U.from_parts(s, lens, known=inp.get("known", True))
    sx, px = U.cells_to_sexp(cells), U.parts_to_sexp(parts)
    with warnings.catch_warnings():
        warnings.simplefilter("ignore")
        if how in ("var", "sem"):
            # function level: the array moment functions as the dataframe reduction calls them
            rch = [Var.reduction_chunk(s.iloc[b[i]:b[i + 1]], skipna=True) for i in range(len(lens))]
            mch = [ctx.lean(Sym("varfn"), Sym("chunk"), U.cells_to_sexp(p)) for p in parts]
            for m, r in zip(mch, rch):
                _cmp_p(ctx, "Var.reduction_chunk", m, r)
            rcomb, mcomb = [], []
            for t in range(0, len(lens), batch):
                r = Var.reduction_combine(rch[t:t + batch], skipna=True)
                m = ctx.lean(Sym("varfn"), Sym("combine"), mch[t:t + batch])
                _cmp_p(ctx, "Var.reduction_combine", m, r)
                rcomb.append(r)
                mcomb.append(m)
            ragg = Var.reduction_aggregate(rcomb, ddof=ddof, skipna=True)
            magg = _q(ctx.lean(Sym("varfn"), Sym("agg"), ddof, mcomb))
            ra = float(np.asarray(ragg).ravel()[0])
            if not _same(magg, ra):     # n <= ddof: NaN (Var.reduction_aggregate masks it since /repo fix 733f4f7)
                ctx.disagree("Var.reduction_aggregate", repr(magg), ra)
            op = "var" if how == "var" else "semsq"
            spec = _q(ctx.lean(Sym("statspec"), Sym(op), ddof, sx))
            exp = float(getattr(s, how)(ddof=ddof))
            expsq = exp if how == "var" else exp * exp
            if not _same(spec, expsq):
                ctx.disagree("pandas %s vs Lean spec" % how, repr(spec), expsq)
            model = ctx.lean(Sym("stat"), Sym(op), _se_sexp(se), ddof, px)
            try:
                got = float(getattr(d, how)(ddof=ddof, split_every=_se_py(se)).compute(scheduler="sync"))
            except Exception as e:
                ctx.fail(f"Series.{how}(ddof={ddof}, split_every={se}) raised {type(e).__name__}", observed=f"{type(e).__name__}: {e}"[:300])
                return
            gsq = got if how == "var" else got * got
            if model[0] != "ok" or not _same(_q(model[1]), gsq):
                ctx.disagree("Series.%s over the tree" % how, repr(model), got)
            if not ((math.isnan(got) and math.isnan(exp)) or (not math.isnan(exp) and abs(got - exp) <= 1e-9 * max(1.0, abs(exp)))):
                ctx.fail(f"Series.{how}(ddof={ddof}, split_every={se}) differs from pandas", observed=got, expected=exp)
                return
            # the same column as a one-column frame (the array branch of Var.reduction_aggregate)
            try:
                gotf = float(getattr(d.to_frame("x"), how)(ddof=ddof, split_every=_se_py(se)).compute(scheduler="sync")["x"])
            except Exception as e:
                ctx.fail(f"DataFrame.{how}(ddof={ddof}, split_every={se}) raised {type(e).__name__}", observed=f"{type(e).__name__}: {e}"[:300])
                return
            if not ((math.isnan(gotf) and math.isnan(exp)) or (not math.isnan(exp) and abs(gotf - exp) <= 1e-9 * max(1.0, abs(exp)))):
                ctx.fail(f"DataFrame.{how}(ddof={ddof}, split_every={se}) differs from pandas", observed=gotf, expected=exp)
                return
            if math.isnan(exp):
                ctx.branch("stats-var-nan")
            if sum(c is not None for c in cells) == ddof and len(set(c for c in cells if c is not None)) > 1:
                ctx.branch("stats-var-count-eq-ddof")
            if len(rcomb) > 1:
                ctx.branch("stats-var-nested-combine")
        elif how == "nunique":
            kw = {"keep": "first", "ignore_index": False}
            rch = [DropDuplicates.chunk(s.iloc[b[i]:b[i + 1]], **kw) for i in range(len(lens))]
            for p, r in zip(parts, rch):
                ctx.eq("DropDuplicates.chunk", U.sexp_to_cells(ctx.lean(Sym("statspec"), Sym("dedup"), U.cells_to_sexp(p))), U.series_cells(r))
            comb = DropDuplicates.combine(rch[:batch])
            ctx.eq("DropDuplicates.combine", [c for r in rch[:batch] for c in U.series_cells(r)], U.series_cells(comb))
            agg = DropDuplicates.aggregate(rch, **kw)
            flat = [c for r in rch for c in U.series_cells(r)]
            ctx.eq("DropDuplicates.aggregate", U.sexp_to_cells(ctx.lean(Sym("statspec"), Sym("dedup"), U.cells_to_sexp(flat))), U.series_cells(agg))
            spec = ctx.lean(Sym("statspec"), Sym("nunique"), dropna, sx)
            exp = int(s.nunique(dropna=dropna))
            ctx.eq("pandas nunique vs Lean spec", spec, exp)
            model = ctx.lean(Sym("stat"), Sym("nunique"), _se_sexp(se), dropna, px)
            try:
                got = int(d.nunique(dropna=dropna, split_every=_se_py(se), split_out=1).compute(scheduler="sync"))
                got_shuffle = int(d.nunique(dropna=dropna).compute(scheduler="sync"))
            except Exception as e:
                ctx.fail(f"Series.nunique(dropna={dropna}, split_every={se}) raised {type(e).__name__}", observed=f"{type(e).__name__}: {e}"[:300])
                return
            ctx.eq("Series.nunique(split_out=1) over the tree", model, [Sym("ok"), got])
            if got != exp:
                ctx.fail(f"Series.nunique(dropna={dropna}, split_every={se}, split_out=1) differs from pandas", observed=got, expected=exp)
                return
            if got_shuffle != exp:
                ctx.fail(f"Series.nunique(dropna={dropna}) (default split_out) differs from pandas", observed=got_shuffle, expected=exp)
                return
            if None in cells:
                ctx.branch("stats-nunique-nan-dropna" if dropna else "stats-nunique-nan-counted")
            if any(c is not None and c in q for i, p in enumerate(parts) for c in p for q in parts[i + 1:]):
                ctx.branch("stats-nunique-value-in-two-partitions")
        else:  # describe
            spec = ctx.lean(Sym("statspec"), Sym("describe"), sx)
            e = s.describe()
            model = ctx.lean(Sym("stat"), Sym("describe"), _se_sexp(se), px)
            try:
                got = d.describe(split_every=_se_py(se)).compute(scheduler="sync")
            except Exception as ex:
                ctx.fail(f"Series.describe(split_every={se}) raised {type(ex).__name__}", observed=f"{type(ex).__name__}: {ex}"[:300])
                return

            def chk(what, m, r):
                cnt, mean, var, lo, hi = m
                msum = None if _isnone(mean[0]) else Fraction(int(mean[0]))
                mmean = None if (msum is None or int(mean[1]) == 0) else msum / int(mean[1])
                std = _fnum(r["std"])
                ok = (int(cnt) == int(r["count"]) and _same(mmean, _fnum(r["mean"]))
                      and _same(_q(var), std * std)
                      and _same(None if _isnone(lo) else Fraction(int(lo)), _fnum(r["min"]))
                      and _same(None if _isnone(hi) else Fraction(int(hi)), _fnum(r["max"])))
                if not ok:
                    ctx.disagree(what, repr(m), repr({k: _fnum(r[k]) for k in ("count", "mean", "std", "min", "max")}))
            chk("pandas describe vs Lean spec", spec, e)
            if model[0] == "ok":
                chk("Series.describe over the tree", model[1], got)
            else:
                ctx.disagree("model tree did not evaluate", model, "computed")
            for k in ("count", "mean", "std", "min", "max"):
                x, y = _fnum(got[k]), _fnum(e[k])
                if not ((math.isnan(x) and math.isnan(y)) or (not math.isnan(y) and abs(x - y) <= 1e-9 * max(1.0, abs(y)))):
                    ctx.fail(f"Series.describe(split_every={se})[{k}] differs from pandas", observed=x, expected=y)
                    return
            if list(got.index) != list(e.index):
                ctx.fail("Series.describe: row labels differ from pandas", observed=list(got.index), expected=list(e.index))
                return
    ctx.branch("stats-" + how)
    if any(x == 0 for x in lens):
        ctx.branch("stats-empty-partition")
    if any(p and all(c is None for c in p) for p in parts):
        ctx.branch("stats-allna-partition")
    k = {"none": 8, "false": 10 ** 9}.get(se, se)
    if len(lens) > k:
        ctx.branch("stats-tree-combine-level")


CASES = {"covcorr": case_covcorr, "stats": case_stats}

SES = ["none", "false", 2, 3, 2, 3, 4]


def gen_covcorr(rng):
    nc = rng.choice([2, 2, 3])
    n = rng.randint(0, 12)
    p_nan = rng.choice([0.0, 0.15, 0.3, 0.5])
    cols = []
    for i in range(nc):
        if rng.random() < 0.12:
            v = rng.randint(-2, 3)
            col = [None if rng.random() < p_nan else v for _ in range(n)]      # constant on its valid rows
        else:
            col = [None if rng.random() < p_nan else rng.randint(-3, 5) for _ in range(n)]
        cols.append(col)
    lens = U.gen_lens(rng, n, 5) if rng.random() < 0.65 else U.gen_lens(rng, n, 11)
    return {"cols": cols, "lens": lens, "se": rng.choice(SES), "minp": rng.choice([2, 2, 2, 3, 5]), "corr": rng.random() < 0.5,
            "batch": rng.choice([1, 2, 2, 3]), "known": rng.random() < 0.7}


def gen_stats(rng):
    how = rng.choice(["var", "sem", "nunique", "nunique", "describe"])
    n = rng.randint(0, 13)
    cells = U.gen_cells(rng, n, lo=-2, hi=4)
    if how == "describe" and all(c is None for c in cells):
        cells = cells + [rng.randint(-2, 4)]        # pandas/dask describe of an all-NA float column: covered by the api section
    n = len(cells)
    lens = U.gen_lens(rng, n, 5) if rng.random() < 0.65 else U.gen_lens(rng, n, 11)
    ddof = rng.choice([1, 1, 0, 2])
    nvalid = sum(c is not None for c in cells)
    if how in ("var", "sem") and rng.random() < 0.3:
        ddof = max(0, min(3, nvalid - rng.choice([0, 0, 1])))      # the boundary count == ddof (NaN in pandas) and one above it
    return {"how": how, "cells": cells, "lens": lens, "se": rng.choice(SES), "ddof": ddof,
            "dropna": rng.random() < 0.5, "batch": rng.choice([1, 2, 2, 3]), "known": rng.random() < 0.7}


def generate(ctx):
    rng = ctx.rng
    for _ in range(ctx.n(45, 1500)):
        yield "covcorr", gen_covcorr(rng)
    for _ in range(ctx.n(60, 2000)):
        yield "stats", gen_stats(rng)
