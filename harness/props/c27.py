"""C27 — counting, set, search and histogram routines equal NumPy.

Model:    lean/DaskModel/Model/Counting.lean (searchsorted block combination, bincount/histogram merges,
          _unique_internal applied per chunk and again on the concatenation, nonzero offsets, coarsen windows)
Theorems: lean/DaskModel/Props/C27.lean
Tie:      function-level `_unique_internal`, `_bincount_agg`, `_searchsorted_block`; Lean merge-of-chunks results vs
          the real dask results and vs NumPy; API-level every routine of the statement vs NumPy for random chunkings
          (incl. zero-length chunks), duplicates, NaN, weights, bins.
"""
from __future__ import annotations

import itertools
import math

from sexp import Sym

from props._chunks_util import comps, rand_comp, rand_comp_zeros, setup_dask

PROP = "C27"
READY = True
DRIVER = "dm_chunks"
LEAN_MODULES = ["DaskModel.Props.C27"]
CASE_TIMEOUT_S = 30
LEVEL_TEXT = ("Lean 4 theorems that the merge of per-chunk results equals the routine on the whole array, for every chunking "
              "(empty chunks included): searchsorted_den (sorted a; block results with 0->-1, offsets, max, -1->0 = global "
              "count of elements < / <= y), bincount_den (_bincount_agg of per-chunk bincounts), histogram_den (fixed edges), "
              "bincount_weights_den (exact weights), unique_merge and unique_den (_unique_internal per chunk then on the "
              "concatenation = sorted distinct values with first index and count; also any tree of partial merges), "
              "unique_inverse_den (the masked-sum formula of return_inverse), nonzero_den, count_nonzero_den, isin_den, "
              "coarsen_den (aligned chunks). Over exact ordered values; weights, float bin edges, NaN, density, histogram2d, "
              "digitize, ravel/unravel_index, compress/extract, return_inverse and n-d inputs are validated against NumPy, "
              "not proved.")
LEVEL_NOTE = ("Trusted: Lean kernel + standard axioms; the harness; NumPy's per-chunk kernels (np.searchsorted/bincount/histogram/"
              "unique) specified as counting functions and validated against NumPy on every case.")
TECHNIQUE = "Lean 4 proof (merge-of-per-chunk-results lemmas: counting, sorted-prefix, set union, offsets) + differential correspondence"
ASSUMPTIONS = [
    "np.searchsorted(sorted block, y, side) = number of elements < y (left) / <= y (right); np.bincount / np.histogram / np.unique count as specified in Model/Counting.lean (validated against NumPy on every case)",
    "element values enter the model only through <, <=, == (harness uses small non-negative ints)",
]
TRUSTED = ["float bin-edge comparisons, weights and density normalisation are validated against NumPy, not modelled"]


def _split(xs, cs):
    out, i = [], 0
    for c in cs:
        out.append([int(v) for v in xs[i:i + c]])
        i += c
    return out


def _cmp(ctx, what, got, exp, exact=True, sig=None):
    import numpy as np
    got, exp = np.asarray(got), np.asarray(exp)
    if got.shape != exp.shape:
        ctx.fail(f"{what}: shape differs from NumPy", sig=sig, observed=list(got.shape), expected=list(exp.shape))
        return False
    if got.dtype != exp.dtype:
        ctx.fail(f"{what}: dtype differs from NumPy", sig=sig, observed=str(got.dtype), expected=str(exp.dtype))
        return False
    if exact or got.dtype.kind not in "fc":
        ok = np.array_equal(got, exp, equal_nan=got.dtype.kind in "fc")
    else:
        ok = np.allclose(got, exp, rtol=1e-12, atol=1e-12, equal_nan=True)
    if not ok:
        ctx.fail(f"{what}: values differ from NumPy", sig=sig, observed=got.tolist(), expected=exp.tolist())
    return ok


def _vals(rng, n, hi, kind="int"):
    return [rng.randint(0, hi) for _ in range(n)]


def case_searchsorted(ctx, inp):
    import numpy as np
    import dask.array as da
    setup_dask()
    a = np.array(sorted(inp["a"]), dtype=inp.get("dtype", "i8"))
    v = np.array(inp["v"], dtype=a.dtype).reshape(inp.get("vshape", [len(inp["v"])]))
    side = inp["side"]
    da_a = da.from_array(a, chunks=(tuple(inp["achunks"]),))
    da_v = da.from_array(v, chunks=tuple(tuple(c) for c in inp["vchunks"]))
    e = np.searchsorted(a, v, side=side)
    r = da.searchsorted(da_a, da_v, side=side)
    g = r.compute(scheduler="sync")
    m = ctx.lean(Sym("searchsorted"), side == "right", _split(a, inp["achunks"]), [int(x) for x in v.ravel()])
    ctx.eq("searchsorted: Lean block combination vs dask", m, np.asarray(g).ravel().tolist())
    _cmp(ctx, "searchsorted", g, e)
    if 0 in inp["achunks"]:
        ctx.branch("searchsorted:empty-chunk")
    if len(inp["achunks"]) > 1:
        ctx.branch("searchsorted:multi-block:" + side)
    if len(set(inp["a"])) < len(inp["a"]):
        ctx.branch("searchsorted:duplicates")


def case_bincount(ctx, inp):
    import numpy as np
    import dask.array as da
    setup_dask()
    x = np.array(inp["x"], dtype="i8")
    cs = tuple(inp["chunks"])
    d = da.from_array(x, chunks=(cs,))
    kw = {"minlength": inp.get("minlength", 0)}
    w = None
    if inp.get("weights") is not None:
        w = np.array(inp["weights"], dtype=inp.get("wdtype", "f8"))
        e = np.bincount(x, weights=w, **kw)
        r = da.bincount(d, weights=da.from_array(w, chunks=(cs,)), split_every=inp.get("split_every"), **kw)
        ctx.branch("bincount:weights")
        if len(x) and all(float(v * 4).is_integer() for v in w):
            # exact model with the weights scaled to integers (quarters)
            wi = [int(v * 4) for v in w]
            m = ctx.lean(Sym("bincount_w"), _split(x, cs), _split(wi, cs), kw["minlength"])
            ctx.eq("bincount(weights): Lean merge of per-chunk results = whole", m[0], m[1])
            ctx.eq("bincount(weights): Lean vs NumPy", [v / 4 for v in m[1]], e.tolist())
            ctx.branch("bincount:weights:model")
    else:
        e = np.bincount(x, **kw)
        r = da.bincount(d, split_every=inp.get("split_every"), **kw)
        m = ctx.lean(Sym("bincount"), _split(x, cs), kw["minlength"])
        ctx.eq("bincount: Lean merge of per-chunk counts = whole", m[0], m[1])
        ctx.eq("bincount: Lean vs NumPy", m[1], e.tolist())
    g = r.compute(scheduler="sync")
    sig = None
    if w is not None and len(x) == 0 and np.asarray(g).shape == e.shape and not np.asarray(g).any():
        sig = "bincount:empty-input-with-weights:dtype"   # NumPy ignores the weights' dtype for empty input
    _cmp(ctx, "bincount", g, e, exact=w is None or w.dtype.kind != "f", sig=sig)
    if kw["minlength"] and r.shape != e.shape:
        # by design (pinned test_bincount: "shape equal to minlength") the lazy shape is (minlength,) even when
        # the data exceed it; the statement of C27 is about values, lazy metadata is C25's subject
        ctx.note("bincount: lazy shape (minlength,) smaller than the computed length")
    if len(cs) > 1:
        ctx.branch("bincount:multi-block")
    if 0 in cs:
        ctx.branch("bincount:empty-chunk")
    if inp.get("split_every"):
        ctx.branch("bincount:split_every")
    # function level: the aggregation
    from dask.array.routines import _bincount_agg
    parts = [np.bincount(np.array(b, dtype="i8"), minlength=kw["minlength"]) for b in _split(x, cs)]
    if w is None and len(parts) > 1:
        agg = _bincount_agg(parts, dtype=parts[0].dtype)
        ctx.eq("_bincount_agg", ctx.lean(Sym("bincount"), _split(x, cs), kw["minlength"])[0], agg.tolist())


def case_histogram(ctx, inp):
    import numpy as np
    import dask.array as da
    setup_dask()
    x = np.array(inp["x"], dtype=inp.get("dtype", "i8")).reshape(inp.get("shape", [len(inp["x"])]))
    if inp.get("nan"):
        x = x.astype("f8")
    chunks = tuple(tuple(c) for c in inp["chunks"])
    d = da.from_array(x, chunks=chunks)
    kw = {}
    if "edges" in inp:
        kw["bins"] = np.array(inp["edges"], dtype=inp.get("edtype", "i8"))
    else:
        kw["bins"], kw["range"] = inp["bins"], tuple(inp["range"])
    w = None
    if inp.get("weights") is not None:
        w = np.array(inp["weights"], dtype="f8").reshape(x.shape)
        kw_np = dict(kw, weights=w)
        kw_da = dict(kw, weights=da.from_array(w, chunks=chunks))
    else:
        kw_np = kw_da = kw
    if inp.get("density"):
        kw_np = dict(kw_np, density=True)
        kw_da = dict(kw_da, density=True)
    if inp.get("op") == "2d":
        y = np.array(inp["y"], dtype=x.dtype)
        dy = da.from_array(y, chunks=chunks)
        e, ex, ey = np.histogram2d(x, y, **kw_np)
        r, rx, ry = da.histogram2d(d, dy, **kw_da)
        _cmp(ctx, "histogram2d", r.compute(scheduler="sync"), e, exact=False)
        _cmp(ctx, "histogram2d x-edges", np.asarray(rx), ex, exact=False)
        _cmp(ctx, "histogram2d y-edges", np.asarray(ry), ey, exact=False)
        ctx.branch("histogram2d")
        return
    e, ee = np.histogram(x, **kw_np)
    r, re_ = da.histogram(d, **kw_da)
    g = r.compute(scheduler="sync")
    _cmp(ctx, "histogram", g, e, exact=(w is None and not inp.get("density")))
    _cmp(ctx, "histogram edges", np.asarray(re_.compute(scheduler="sync") if hasattr(re_, "compute") else re_), ee, exact=False)
    if "edges" in inp and w is None and not inp.get("density") and x.ndim == 1 and x.dtype.kind == "i" and len(inp["edges"]) >= 2:
        m = ctx.lean(Sym("histogram"), inp["edges"], _split(x, chunks[0]))
        ctx.eq("histogram: Lean merge of per-chunk histograms = whole", m[0], m[1])
        ctx.eq("histogram: Lean vs NumPy", m[1], e.tolist())
        ctx.branch("histogram:model")
    ctx.branch("histogram:" + ("edges" if "edges" in inp else "bins+range") + (":weights" if w is not None else "") +
               (":density" if inp.get("density") else ""))
    if math.prod(len(c) for c in chunks) > 1:
        ctx.branch("histogram:multi-block")


def case_unique(ctx, inp):
    import numpy as np
    import dask.array as da
    setup_dask()
    x = np.array(inp["x"], dtype=inp.get("dtype", "i8")).reshape(inp.get("shape", [len(inp["x"])]))
    sig = None
    if inp.get("nan"):
        x = x.astype("f8")
        x[np.array(inp["nan"], dtype=bool).reshape(x.shape)] = np.nan
    chunks = tuple(tuple(c) for c in inp["chunks"])
    d = da.from_array(x, chunks=chunks)
    kw = {k: True for k in ("return_index", "return_inverse", "return_counts") if inp.get(k)}
    e = np.unique(x, **kw)
    has_nan = bool(inp.get("nan")) and bool(np.isnan(x).any())
    try:
        r = da.unique(d, **kw)
        rs = r if isinstance(r, tuple) else (r,)
        gs = [np.asarray(t.compute(scheduler="sync")) for t in rs]
    except Exception as ex:
        ctx.fail(f"unique raised {type(ex).__name__}" + (" on an array containing NaN" if has_nan else ""), sig=sig,
                 observed=str(ex)[:200])
        return
    es = e if isinstance(e, tuple) else (e,)
    names = ["values"] + [k for k in ("return_index", "return_inverse", "return_counts") if inp.get(k)]
    for nm, g, ee in zip(names, gs, es):
        _cmp(ctx, "unique " + nm + (" (array containing NaN)" if has_nan else ""), g, ee, sig=sig)
    if x.dtype.kind == "i" and inp.get("return_inverse") and len(gs) == len(names):
        inv = gs[names.index("return_inverse")]
        ctx.eq("unique(return_inverse): Lean masked-sum formula vs dask", ctx.lean(Sym("unique_inverse"), [int(v) for v in x.ravel()]),
               np.asarray(inv).ravel().tolist())
        ctx.branch("unique:inverse:model")
    if x.ndim == 1 and x.dtype.kind == "i" and inp.get("return_index") and inp.get("return_counts") and not inp.get("return_inverse"):
        m = ctx.lean(Sym("unique"), _split(x, chunks[0]))
        ctx.eq("unique: Lean per-chunk + merge = whole", m[0], m[1])
        ctx.eq("unique: Lean vs dask (value, first index, count)", m[0],
               [[int(a), int(b), int(c)] for a, b, c in zip(gs[0], gs[1], gs[2])])
        ctx.branch("unique:model")
    ctx.branch("unique:" + "+".join(n.replace("return_", "") for n in names[1:]) if len(names) > 1 else "unique:values")
    if math.prod(len(c) for c in chunks) > 1:
        ctx.branch("unique:multi-block")
    if has_nan:
        ctx.branch("unique:nan")


def case_unique_internal(ctx, inp):
    import numpy as np
    from dask.array.routines import _unique_internal
    rows = inp["rows"]
    ar = np.array([r[0] for r in rows], dtype="i8")
    idx = np.array([r[1] for r in rows], dtype=np.intp)
    cnt = np.array([r[2] for r in rows], dtype=np.intp)
    r = _unique_internal(ar, idx, cnt, return_inverse=False)
    impl = [[int(a), int(b), int(c)] for a, b, c in zip(r["values"], r["indices"], r["counts"])]
    ctx.eq("_unique_internal", ctx.lean(Sym("unique_internal"), rows), impl)
    if len(impl) < len(rows):
        ctx.branch("unique_internal:merges")


def case_nonzero(ctx, inp):
    import numpy as np
    import dask.array as da
    setup_dask()
    x = np.array(inp["x"], dtype=inp.get("dtype", "i8")).reshape(inp["shape"])
    chunks = tuple(tuple(c) for c in inp["chunks"])
    d = da.from_array(x, chunks=chunks)
    op = inp["op"]
    if op == "nonzero":
        g = [np.asarray(t.compute(scheduler="sync")) for t in da.nonzero(d)]
        e = np.nonzero(x)
        if len(g) != len(e):
            ctx.fail("nonzero: number of index arrays differs", observed=len(g))
        for a, b in zip(g, e):
            _cmp(ctx, "nonzero", a, b)
    elif op == "argwhere":
        _cmp(ctx, "argwhere", da.argwhere(d).compute(scheduler="sync"), np.argwhere(x))
    elif op == "flatnonzero":
        g = da.flatnonzero(d).compute(scheduler="sync")
        _cmp(ctx, "flatnonzero", g, np.flatnonzero(x))
        if x.ndim == 1:
            m = ctx.lean(Sym("nonzero"), _split(np.abs(x), chunks[0]))
            ctx.eq("flatnonzero: Lean per-chunk offsets = whole", m[0], m[1])
            ctx.eq("flatnonzero: Lean vs dask", m[0], np.asarray(g).tolist())
            ctx.eq("count_nonzero: Lean vs NumPy", m[2], int(np.count_nonzero(x)))
            ctx.branch("nonzero:model")
    elif op == "count_nonzero":
        ax = inp.get("axis")
        ax = tuple(ax) if isinstance(ax, list) else ax
        _cmp(ctx, "count_nonzero", da.count_nonzero(d, axis=ax).compute(scheduler="sync"), np.count_nonzero(x, axis=ax))
    ctx.branch("nonzero:" + op)
    if math.prod(len(c) for c in chunks) > 1:
        ctx.branch("nonzero:multi-block")


def case_misc(ctx, inp):
    import numpy as np
    import dask.array as da
    setup_dask()
    op = inp["op"]
    if op == "isin":
        x = np.array(inp["x"], dtype="i8").reshape(inp["shape"])
        t = np.array(inp["t"], dtype="i8")
        d = da.from_array(x, chunks=tuple(tuple(c) for c in inp["chunks"]))
        dt = da.from_array(t, chunks=(tuple(inp["tchunks"]),))
        _cmp(ctx, "isin", da.isin(d, dt, invert=inp.get("invert", False)).compute(scheduler="sync"),
             np.isin(x, t, invert=inp.get("invert", False)))
    elif op == "digitize":
        x = np.array(inp["x"], dtype=inp.get("dtype", "i8")).reshape(inp["shape"])
        bins = np.array(sorted(inp["bins"], reverse=inp.get("decreasing", False)), dtype=x.dtype)
        d = da.from_array(x, chunks=tuple(tuple(c) for c in inp["chunks"]))
        _cmp(ctx, "digitize", da.digitize(d, bins, right=inp["right"]).compute(scheduler="sync"), np.digitize(x, bins, right=inp["right"]))
    elif op == "ravel_multi_index":
        dims = tuple(inp["dims"])
        idx = np.array(inp["idx"], dtype="i8").reshape([len(dims)] + inp["ishape"])
        d = da.from_array(idx, chunks=tuple(tuple(c) for c in inp["chunks"]))
        kw = {"order": inp.get("order", "C"), "mode": inp.get("mode", "raise")}
        try:
            e = np.ravel_multi_index(tuple(idx), dims, **kw)
        except ValueError:
            return
        _cmp(ctx, "ravel_multi_index", da.ravel_multi_index(d, dims, **kw).compute(scheduler="sync"), e)
    elif op == "unravel_index":
        shape = tuple(inp["dims"])
        idx = np.array(inp["idx"], dtype="i8").reshape(inp["ishape"])
        d = da.from_array(idx, chunks=tuple(tuple(c) for c in inp["chunks"]))
        e = np.unravel_index(idx, shape, order=inp.get("order", "C"))
        g = da.unravel_index(d, shape, order=inp.get("order", "C"))
        if len(g) != len(e):
            ctx.fail("unravel_index: number of outputs differs", observed=len(g))
        for a, b in zip(g, e):
            _cmp(ctx, "unravel_index", a.compute(scheduler="sync"), b)
    elif op == "coarsen":
        x = np.array(inp["x"], dtype="i8").reshape(inp["shape"])
        chunks = tuple(tuple(c) for c in inp["chunks"])
        d = da.from_array(x, chunks=chunks)
        axes = {int(k): v for k, v in inp["axes"].items()}
        red = {"sum": np.sum, "max": np.max, "min": np.min}[inp["red"]]
        from dask.array import chunk
        ok = all(x.shape[i] % dv == 0 for i, dv in axes.items())
        try:
            r = da.coarsen(red, d, axes, trim_excess=inp["trim"])
        except ValueError:
            if not inp["trim"] and not ok:
                ctx.branch("coarsen:misaligned-rejected")
                return
            raise
        e = chunk.coarsen(red, x, axes, trim_excess=inp["trim"])
        g = r.compute(scheduler="sync")
        _cmp(ctx, "coarsen", g, e)
        if tuple(sum(c) for c in r.chunks) != e.shape:
            ctx.fail("coarsen: lazy chunks do not add up to the result shape", observed=r.chunks, expected=list(e.shape))
        if x.ndim == 1 and inp["red"] == "sum" and all(c % axes[0] == 0 for c in chunks[0]):
            m = ctx.lean(Sym("coarsen_sum"), axes[0], _split(x, chunks[0]))
            ctx.eq("coarsen: Lean block-wise windows = whole", m[0], m[1])
            ctx.eq("coarsen: Lean vs dask", m[0], np.asarray(g).tolist())
            ctx.branch("coarsen:model")
        # function level oracle on aligned_coarsen_chunks
        from dask.array.routines import aligned_coarsen_chunks
        for i, dv in axes.items():
            al = aligned_coarsen_chunks(chunks[i], dv)
            if sum(al) != sum(chunks[i]) or any(c <= 0 for c in al) or any(c % dv for c in al[:-1]) or (
                    al and al[-1] % dv and al[-1] != sum(chunks[i]) % dv):
                ctx.fail("aligned_coarsen_chunks: result not aligned / does not add up", observed=[chunks[i], dv, al])
    elif op in ("compress", "extract"):
        x = np.array(inp["x"], dtype="i8").reshape(inp["shape"])
        d = da.from_array(x, chunks=tuple(tuple(c) for c in inp["chunks"]))
        cond = np.array(inp["cond"], dtype=bool)
        if op == "compress":
            ax = inp.get("axis")
            dc = da.from_array(cond, chunks=(tuple(inp["cchunks"]),)) if inp.get("dask_cond") else cond
            _cmp(ctx, "compress", da.compress(dc, d, axis=ax).compute(scheduler="sync"), np.compress(cond, x, axis=ax))
        else:
            c2 = cond[: x.size].reshape(x.shape) if cond.size >= x.size else np.resize(cond, x.shape)
            _cmp(ctx, "extract", da.extract(da.from_array(c2, chunks=d.chunks), d).compute(scheduler="sync"), np.extract(c2, x))
    ctx.branch("misc:" + op)


CASES = {"searchsorted": case_searchsorted, "bincount": case_bincount, "histogram": case_histogram,
         "unique": case_unique, "unique_internal": case_unique_internal, "nonzero": case_nonzero, "misc": case_misc}


def _nd(rng, maxd=3, maxn=5):
    shape = [rng.randint(1, maxn) for _ in range(rng.randint(1, maxd))]
    if rng.random() < 0.15:  # interior zero-length chunks
        return shape, [rand_comp_zeros(rng, s) for s in shape]
    return shape, [rand_comp(rng, s) for s in shape]


def generate(ctx):
    rng = ctx.rng
    # --- exhaustive small spaces: every chunking of short arrays ------------------------------------------
    top = 4 if not ctx.thorough() else 6
    for n in range(1, top + 1):
        for cs in comps(n):
            a = sorted(rng.randint(0, 3) for _ in range(n))
            yield "searchsorted", {"a": a, "achunks": list(cs), "v": list(range(0, 5)), "vchunks": [[2, 3]], "side": "left"}
            yield "searchsorted", {"a": a, "achunks": list(cs), "v": list(range(0, 5)), "vchunks": [[5]], "side": "right"}
            x = [rng.randint(0, 3) for _ in range(n)]
            yield "unique", {"x": x, "chunks": [list(cs)], "return_index": True, "return_counts": True}
            yield "bincount", {"x": x, "chunks": list(cs)}
            yield "nonzero", {"op": "flatnonzero", "x": [v % 2 * v for v in x], "shape": [n], "chunks": [list(cs)]}
    # --- empty arrays / empty axes ------------------------------------------------------------------------------
    yield "searchsorted", {"a": [], "achunks": [0], "v": [1, 2], "vchunks": [[1, 1]], "side": "left"}
    yield "searchsorted", {"a": [1, 2], "achunks": [1, 1], "v": [], "vshape": [0], "vchunks": [[0]], "side": "right"}
    yield "unique", {"x": [], "shape": [0], "chunks": [[0]], "return_index": True, "return_counts": True}
    yield "unique", {"x": [], "shape": [0, 3], "chunks": [[0], [2, 1]], "return_inverse": True}
    yield "histogram", {"x": [], "shape": [0], "chunks": [[0]], "edges": [0, 2, 4]}
    yield "histogram", {"x": [], "shape": [2, 0], "chunks": [[1, 1], [0]], "bins": 3, "range": [0, 5]}
    for op in ("nonzero", "argwhere", "flatnonzero", "count_nonzero"):
        yield "nonzero", {"op": op, "x": [], "shape": [0, 3], "chunks": [[0], [2, 1]]}
        yield "nonzero", {"op": op, "x": [], "shape": [0], "chunks": [[0]]}
    yield "misc", {"op": "isin", "x": [], "shape": [0, 2], "chunks": [[0], [1, 1]], "t": [1, 2], "tchunks": [1, 1]}
    yield "misc", {"op": "isin", "x": [1, 2], "shape": [2], "chunks": [[1, 1]], "t": [], "tchunks": [0]}
    yield "misc", {"op": "digitize", "x": [], "shape": [0, 2], "chunks": [[0], [1, 1]], "bins": [1, 2], "right": False}
    yield "misc", {"op": "compress", "x": [], "shape": [0, 2], "chunks": [[0], [1, 1]], "cond": [True, False], "axis": 1, "cchunks": [2]}
    # --- searchsorted ---------------------------------------------------------------------------------------
    for _ in range(ctx.n(200, 2500)):
        n = rng.randint(1, 16)
        hi = rng.choice([2, 4, 9, 30])
        a = sorted(rng.randint(0, hi) for _ in range(n))
        achunks = rand_comp_zeros(rng, n) if rng.random() < 0.3 else rand_comp(rng, n)
        vshape = [rng.randint(1, 5) for _ in range(rng.randint(1, 2))]
        v = [rng.randint(0, hi + 1) for _ in range(math.prod(vshape))]
        yield "searchsorted", {"a": a, "achunks": achunks, "v": v, "vshape": vshape, "vchunks": [rand_comp(rng, s) for s in vshape],
                               "side": rng.choice(["left", "right"]), "dtype": rng.choice(["i8", "i8", "f8"])}
    # --- bincount -------------------------------------------------------------------------------------------
    for _ in range(ctx.n(150, 2000)):
        n = rng.randint(0 if rng.random() < 0.05 else 1, 20)
        x = [rng.randint(0, rng.choice([1, 3, 8])) for _ in range(n)]
        inp = {"x": x, "chunks": (rand_comp_zeros(rng, n) if rng.random() < 0.2 else rand_comp(rng, n)) if n else [0],
               "minlength": rng.choice([0, 0, 3, 12]), "split_every": rng.choice([None, None, 2, 3])}
        if rng.random() < 0.4:
            inp["weights"] = [rng.randint(-3, 6) / rng.choice([1, 2, 4]) for _ in range(n)]
        yield "bincount", inp
    # --- histogram ------------------------------------------------------------------------------------------
    for _ in range(ctx.n(200, 2500)):
        r = rng.random()
        if r < 0.15:
            n = rng.randint(1, 14)
            cs = rand_comp(rng, n)
            bins = rng.choice([rng.randint(1, 4), [rng.randint(1, 4), rng.randint(1, 4)]])
            yield "histogram", {"op": "2d", "x": [rng.randint(0, 9) for _ in range(n)], "y": [rng.randint(0, 9) for _ in range(n)],
                                "chunks": [cs], "bins": bins, "range": [[0, 10], [0, 10]] if rng.random() < 0.9 else [[2, 7], [1, 9]],
                                "dtype": rng.choice(["i8", "f8"])}
            continue
        shape, chunks = _nd(rng, 2, 8) if rng.random() < 0.3 else (None, None)
        if shape is None:
            n = rng.randint(1, 20)
            shape, chunks = [n], [rand_comp_zeros(rng, n) if rng.random() < 0.15 else rand_comp(rng, n)]
        n = math.prod(shape)
        inp = {"x": [rng.randint(0, 12) for _ in range(n)], "shape": shape, "chunks": chunks}
        if rng.random() < 0.55:
            k = rng.randint(1, 5)
            inp["edges"] = sorted(rng.sample(range(0, 14), k + 1))
        else:
            lo = rng.randint(0, 5)
            inp["bins"], inp["range"] = rng.randint(1, 6), [lo, lo + rng.randint(1, 10)]
            inp["dtype"] = rng.choice(["i8", "f8"])
        if rng.random() < 0.3:
            inp["weights"] = [rng.randint(0, 5) / 2 for _ in range(n)]
        if rng.random() < 0.2:
            inp["density"] = True
        yield "histogram", inp
    # --- unique ---------------------------------------------------------------------------------------------
    for _ in range(ctx.n(220, 2500)):
        if rng.random() < 0.25:
            shape, chunks = _nd(rng, 2, 5)
        else:
            n = rng.randint(1, 16)
            shape, chunks = [n], [rand_comp(rng, n)]
        n = math.prod(shape)
        inp = {"x": [rng.randint(0, rng.choice([2, 5, 20])) for _ in range(n)], "shape": shape, "chunks": chunks}
        r = rng.random()
        if r < 0.4:
            inp.update(return_index=True, return_counts=True)
        else:
            for k in ("return_index", "return_inverse", "return_counts"):
                if rng.random() < 0.4:
                    inp[k] = True
        if rng.random() < 0.12:
            inp["nan"] = [rng.random() < 0.3 for _ in range(n)]
        elif rng.random() < 0.2:
            inp["dtype"] = "f8"
        yield "unique", inp
    for _ in range(ctx.n(150, 1500)):
        k = rng.randint(1, 12)
        yield "unique_internal", {"rows": [[rng.randint(0, 5), rng.randint(0, 40), rng.randint(1, 4)] for _ in range(k)]}
    # --- nonzero family ---------------------------------------------------------------------------------------
    for _ in range(ctx.n(160, 2000)):
        op = rng.choice(["nonzero", "argwhere", "flatnonzero", "flatnonzero", "count_nonzero"])
        shape, chunks = _nd(rng) if (op != "flatnonzero" or rng.random() < 0.4) else (None, None)
        if shape is None:
            n = rng.randint(1, 14)
            shape, chunks = [n], [rand_comp(rng, n)]
        n = math.prod(shape)
        inp = {"op": op, "x": [rng.choice([0, 0, 1, 2, -3]) for _ in range(n)], "shape": shape, "chunks": chunks,
               "dtype": rng.choice(["i8", "i8", "f8", "bool"])}
        if op == "count_nonzero":
            inp["axis"] = rng.choice([None, rng.randrange(len(shape)), sorted(rng.sample(range(len(shape)), rng.randint(1, len(shape))))])
        yield "nonzero", inp
    # --- 1-d coarsen with chunks aligned to the factor (the case `coarsen_den` is about) -------------------------
    for _ in range(ctx.n(40, 500)):
        dv = rng.randint(1, 4)
        chunks = [dv * c for c in rand_comp(rng, rng.randint(1, 6))]
        n = sum(chunks)
        yield "misc", {"op": "coarsen", "x": [rng.randint(0, 9) for _ in range(n)], "shape": [n], "chunks": [chunks],
                       "axes": {"0": dv}, "red": "sum", "trim": rng.random() < 0.5}
    # --- the rest -----------------------------------------------------------------------------------------------
    for _ in range(ctx.n(220, 2500)):
        op = rng.choice(["isin", "digitize", "ravel_multi_index", "unravel_index", "coarsen", "coarsen", "compress", "extract"])
        if op == "isin":
            shape, chunks = _nd(rng)
            k = rng.randint(1, 8)
            yield "misc", {"op": op, "x": [rng.randint(0, 9) for _ in range(math.prod(shape))], "shape": shape, "chunks": chunks,
                           "t": [rng.randint(0, 9) for _ in range(k)], "tchunks": rand_comp(rng, k), "invert": rng.random() < 0.3}
        elif op == "digitize":
            shape, chunks = _nd(rng)
            yield "misc", {"op": op, "x": [rng.randint(0, 12) for _ in range(math.prod(shape))], "shape": shape, "chunks": chunks,
                           "bins": sorted(set(rng.randint(0, 12) for _ in range(rng.randint(1, 5)))), "right": rng.random() < 0.5,
                           "decreasing": rng.random() < 0.25, "dtype": rng.choice(["i8", "f8"])}
        elif op == "ravel_multi_index":
            dims = [rng.randint(1, 5) for _ in range(rng.randint(1, 3))]
            ishape = [rng.randint(1, 4) for _ in range(rng.randint(1, 2))]
            idx = [rng.randrange(dm) for dm in dims for _ in range(math.prod(ishape))]
            yield "misc", {"op": op, "dims": dims, "ishape": ishape, "idx": idx, "order": rng.choice(["C", "F"]),
                           "chunks": [[len(dims)]] + [rand_comp(rng, s) for s in ishape]}
        elif op == "unravel_index":
            dims = [rng.randint(1, 5) for _ in range(rng.randint(1, 3))]
            ishape = [rng.randint(1, 4) for _ in range(rng.randint(1, 2))]
            yield "misc", {"op": op, "dims": dims, "ishape": ishape, "idx": [rng.randrange(math.prod(dims)) for _ in range(math.prod(ishape))],
                           "order": rng.choice(["C", "F"]), "chunks": [rand_comp(rng, s) for s in ishape]}
        elif op == "coarsen":
            nd = rng.randint(1, 2)
            axes, shape = {}, []
            for i in range(nd):
                dv = rng.randint(1, 4)
                shape.append(dv * rng.randint(1, 4) + (rng.randint(0, dv - 1) if rng.random() < 0.3 else 0))
                if rng.random() < 0.8 or i == 0:
                    axes[str(i)] = dv
            chunks = [rand_comp(rng, s) for s in shape]
            if rng.random() < 0.4:  # chunks already aligned to the factor
                chunks = [[axes.get(str(i), 1) * c for c in rand_comp(rng, max(1, s // axes.get(str(i), 1)))] for i, s in enumerate(shape)]
                shape = [sum(c) for c in chunks]
            yield "misc", {"op": op, "x": [rng.randint(0, 9) for _ in range(math.prod(shape))], "shape": shape, "chunks": chunks,
                           "axes": axes, "red": rng.choice(["sum", "max", "min"]), "trim": rng.random() < 0.5}
        else:
            shape, chunks = _nd(rng)
            n = math.prod(shape)
            ax = rng.choice([None, rng.randrange(len(shape))])
            ln = n if ax is None else shape[ax]
            k = rng.randint(1, ln)
            yield "misc", {"op": op, "x": [rng.randint(0, 9) for _ in range(n)], "shape": shape, "chunks": chunks,
                           "cond": [rng.random() < 0.5 for _ in range(k if op == "compress" else n)], "axis": ax,
                           "dask_cond": rng.random() < 0.5, "cchunks": rand_comp(rng, k)}
