"""C27 — counting, set, search and histogram routines equal NumPy.

Model:    lean/DaskModel/Model/Counting.lean (searchsorted block combination, bincount/histogram merges,
          _unique_internal applied per chunk and again on the concatenation, nonzero offsets, coarsen windows),
          Model/CoarsenAlign.lean (aligned_coarsen_chunks, da.coarsen incl. the declared chunks), Model/Coarsen2D.lean
          (da.coarsen over both axes of a 2-d array: grid of blocks, tiling),
          Model/HistogramDD.lean (histogramdd / histogram2d), Model/CountingSelect.lean (digitize, compress, extract),
          Model/RavelIndex.lean (ravel_multi_index / unravel_index, argwhere / flatnonzero / nonzero)
Theorems: lean/DaskModel/Props/C27.lean
Tie:      function-level `aligned_coarsen_chunks` (exhaustive: every chunking of n <= 9 / 12 against every factor, with
          NumPy's own argsort tie-breaking passed to the model), `_unique_internal`, `_bincount_agg` (one and two levels),
          `_searchsorted_block`, the isin kernel; Lean merge-of-chunks results vs
          the real dask results (per block where the model has blocks) and vs NumPy; API-level every routine of the
          statement vs NumPy for random chunkings (incl. zero-length chunks), duplicates, NaN, weights, bins.
"""
from __future__ import annotations

import itertools
import math

from sexp import Sym

from props._chunks_util import comps, rand_comp, rand_comp_zeros, setup_dask
from props import _c27x
from props import _c27nd

PROP = "C27"
READY = True
DRIVER = "dm_chunks"
LEAN_MODULES = ["DaskModel.Props.C27", "DaskModel.Props.C27xNaN", "DaskModel.Props.C27xNd"]
CASE_TIMEOUT_S = 30
LEVEL_TEXT = ("Lean 4 theorems, for every chunking (zero-length chunks included), that the chunked evaluation equals the routine "
              "on the whole array — one or more per clause of the statement: searchsorted_den (sorted a; block results with "
              "0->-1, offsets, max, -1->0 = global count of elements < / <= y); bincount_den, bincount_tree(_den) (_bincount_agg, "
              "also as the two-level tree reduction of split_every), bincount_weights_den (exact weights); histogram_den, "
              "histogram_weights_den (exact weights), "
              "histogramdd_den, histogram2d_den (+ _rejects: coordinate arrays chunked differently raise, documented) with fixed "
              "edges and the closed last bin; digitize_den + digitize_increasing / digitize_decreasing (NumPy's documented "
              "brackets for right / left, increasing / decreasing bins); unique_merge, unique_den, unique_spec_char, "
              "unique_chunked_char (sorted distinct values with FIRST index and multiplicity, any tree of partial merges), "
              "unique_inverse_den; the same on FLOAT data with NaN under the semantics the code runs on (IEEE ==, np.unique's single "
              "trailing NaN, the `if v != v: m = ar != ar` branch of _unique_internal and the NaN clause of return_inverse's matches): "
              "unique_nan_mask, unique_nan_merge, unique_nan_den, unique_nan_spec_char, unique_nan_chunked_char (np.unique's values, "
              "FIRST index, multiplicity, every chunking incl. all-NaN and empty chunks), unique_nan_inverse_den "
              "(Props/C27xNaN.lean); return_inverse on 2-d input (ravel in front, reshape at the end, any chunking of the ravelled array, NaN included): "
              "reshape_ravel, unique_nd_inverse_den, unique_nd_shape, unique_nd_reconstruct (Props/C27xNd.lean); nonzero_den, count_nonzero_den, argwhere_den, argwhere_chunked, flatnonzero_den, "
              "nonzero_nd_den (n-d, as unravelled flat positions); isin_den; ravel/unravel: unravel_ravel_C, ravel_unravel_C, "
              "ravel_multi_index_unravel, unravel_index_ravel (round trips, C and F order, exact error guard), "
              "ravel_multi_index_modes (raise/wrap/clip stay in bounds), unravel_blocks; compress_den, compress_rejects, "
              "extract_den (condition no longer than the axis, any common chunking), compress_np_den (NumPy condition longer "
              "than the axis: False surplus ignored, True surplus IndexError); coarsen: aligned_coarsen_chunks_spec "
              "(for EVERY tie-breaking of np.argsort, argsort_order_valid: never raises; positive multiples of the factor then "
              "the remainder; same total; (0,) for an empty axis), "
              "aligned_coarsen_chunks_fixpoint, coarsen_any_chunking (guard + alignment + rechunk + block-wise chunk.coarsen = "
              "chunk.coarsen of the whole axis for EVERY chunking), coarsen_rejects, coarsen_declared_chunks, coarsen_den, "
              "coarsen2_den and coarsen2_any_chunking (both axes of a 2-d array, every chunking of rows and columns; polymorphic "
              "in the element type, so further axes are instances). "
              "All over exact ordered values (Nat) along one axis unless said otherwise. Validated against NumPy only, not proved: float data / float "
              "bin edges, NaN outside unique (searchsorted / digitize / histogram / isin), float weights (and any weights of histogram2d/dd), density, bins given as count + range, return_inverse on input with three or more axes, "
              "coarsen of arrays with three or more axes and with reductions other than through the model's sum, compress along an axis of an n-d array and with a "
              "NumPy condition (integer fancy indexing, C20/C21), isin/searchsorted with n-d operands, dtype of every result.")
LEVEL_NOTE = ("Trusted: Lean kernel + standard axioms; the harness; NumPy's per-chunk kernels (np.searchsorted/bincount/histogram/"
              "histogramdd/unique/digitize/ravel_multi_index/unravel_index) specified by their mathematical meaning in the model "
              "and validated against NumPy on every case; rechunk / blockwise chunk unification (C23/C25) entering as 'same "
              "values, given common chunks' (the common chunks are read from the real unify_chunks at run time); np.argsort only "
              "as 'returns a permutation of the indices' (its tie-breaking is not stable here: the model takes the modification "
              "order as a parameter, the harness recomputes it with the same NumPy calls as the code and checks that it is a "
              "permutation; every theorem about aligned_coarsen_chunks / coarsen holds for every such order).")
TECHNIQUE = ("Lean 4 proof (merge-of-per-chunk-results lemmas: counting, sorted-prefix, set union, offsets; loop post-condition "
             "of aligned_coarsen_chunks; Horner/divmod round trips) + differential correspondence (exhaustive small spaces + "
             "structured random streams)")
ASSUMPTIONS = [
    "np.searchsorted(sorted block, y, side) = number of elements < y (left) / <= y (right); np.bincount / np.histogram / np.histogramdd / np.unique / np.digitize count as specified in Model/Counting.lean, HistogramDD.lean, CountingSelect.lean (validated against NumPy on every case)",
    "element values enter the model only through <, <=, == (the harness interns values order-preservingly as small non-negative ints; NaN as the largest value for searchsorted)",
    "rechunk keeps the values (C23: rechunk_values_unchanged) and blockwise brings its operands to common chunks (C25); the model takes the common chunks as a parameter",
    "np.argsort returns a permutation of the indices it sorts (its tie-breaking among equal chunk sizes is implementation-defined and is passed to the model as the parameter `order`; ValidOrder is checked on every order passed)",
    "histogram2d / histogramdd with a sequence of coordinate arrays require identical chunking (documented; ValueError otherwise): raising is accepted there; a DASK condition of compress longer than the axis is rejected by dask even when NumPy would ignore its all-False surplus (known finding compress:dask-condition-longer-than-axis:raises; NumPy conditions follow NumPy exactly)",
]
TRUSTED = ["float bin-edge comparisons, weights and density normalisation are validated against NumPy, not modelled",
           "indices(shape) raveled in C order = unravel_index of the flat position (validated: argwhere vs the Lean model vs np.argwhere)"]


def _api(fn):
    """An exception raised inside the real code (a dask frame in the traceback) is a failure of the property with the
    current input, not a harness error; anything else (a generator / harness bug, the watchdog) is re-raised."""
    import functools
    import os
    import traceback

    @functools.wraps(fn)
    def wrapped(ctx, inp):
        try:
            return fn(ctx, inp)
        except Exception as ex:
            if type(ex).__name__ in ("CaseTimeout", "ModelUnavailable"):
                raise
            frames = traceback.extract_tb(ex.__traceback__)
            if not any((os.sep + "dask" + os.sep) in f.filename for f in frames):
                raise
            what = inp.get("op", fn.__name__[5:]) if isinstance(inp, dict) else fn.__name__[5:]
            ctx.fail(f"{what}: the real code raised {type(ex).__name__}", observed=str(ex)[:200])
    return wrapped


def _split(xs, cs):
    out, i = [], 0
    for c in cs:
        out.append([int(v) for v in xs[i:i + c]])
        i += c
    return out


def _cmp(ctx, what, got, exp, exact=True, sig=None):
    import numpy as np
    got, exp = np.asarray(got), np.asarray(exp)
    if got.shape != exp.shape:
        ctx.fail(f"{what}: shape differs from NumPy", sig=sig, observed=list(got.shape), expected=list(exp.shape))
        return False
    if got.dtype != exp.dtype:
        ctx.fail(f"{what}: dtype differs from NumPy", sig=sig, observed=str(got.dtype), expected=str(exp.dtype))
        return False
    if exact or got.dtype.kind not in "fc":
        ok = np.array_equal(got, exp, equal_nan=got.dtype.kind in "fc")
    else:
        ok = np.allclose(got, exp, rtol=1e-12, atol=1e-12, equal_nan=True)
    if not ok:
        ctx.fail(f"{what}: values differ from NumPy", sig=sig, observed=got.tolist(), expected=exp.tolist())
    return ok


def _vals(rng, n, hi, kind="int"):
    return [rng.randint(0, hi) for _ in range(n)]


def _intern(*arrs):
    """Order-preserving interning of the values of several arrays as small non-negative ints (NaN = the largest)."""
    import numpy as np
    allv = np.concatenate([np.asarray(a, dtype="f8").ravel() for a in arrs]) if arrs else np.array([])
    u = np.unique(allv)                                   # sorted, NaN (collapsed) last
    out = []
    for a in arrs:
        a = np.asarray(a, dtype="f8").ravel()
        r = np.searchsorted(u, a)                         # NaN -> position of the NaN entry (the last one)
        out.append([int(t) for t in r])
    return out


def case_searchsorted(ctx, inp):
    import numpy as np
    import dask.array as da
    setup_dask()
    dt = inp.get("dtype", "i8")
    a = np.array(inp["a"], dtype=dt)
    v = np.array(inp["v"], dtype=dt).reshape(inp.get("vshape", [len(inp["v"])]))
    if inp.get("anan") or inp.get("vnan"):          # NaN runs: NumPy sorts NaN last and treats it as the largest value
        a[np.array(inp.get("anan") or [False] * a.size, dtype=bool)] = np.nan
        v.reshape(-1)[np.array(inp.get("vnan") or [False] * v.size, dtype=bool)] = np.nan
        ctx.branch("searchsorted:nan")
    a = np.sort(a)
    side = inp["side"]
    da_a = da.from_array(a, chunks=(tuple(inp["achunks"]),))
    da_v = da.from_array(v, chunks=tuple(tuple(c) for c in inp["vchunks"]))
    e = np.searchsorted(a, v, side=side)
    r = da.searchsorted(da_a, da_v, side=side)
    g = r.compute(scheduler="sync")
    ia, iv = _intern(a, v.ravel())
    m = ctx.lean(Sym("searchsorted"), side == "right", _split(ia, inp["achunks"]), iv)
    ctx.eq("searchsorted: Lean block combination vs dask", m, np.asarray(g).ravel().tolist())
    _cmp(ctx, "searchsorted", g, e)
    # function level: the row every block of `a` contributes (np.searchsorted, 0 -> -1)
    from dask.array.routines import _searchsorted_block
    rows = ctx.lean(Sym("ss_blocks"), side == "right", _split(ia, inp["achunks"]), iv)
    off = 0
    real = []
    for c in inp["achunks"]:
        real.append(_searchsorted_block(a[off:off + c], v.ravel(), side)[0].tolist())
        off += c
    ctx.eq("_searchsorted_block", rows, real)
    bnd = set()
    off = 0
    for c in inp["achunks"]:                      # needles equal to a value sitting at a chunk boundary
        if c:
            bnd.update((ia[off], ia[off + c - 1]))
        off += c
    if len(inp["achunks"]) > 1 and bnd & set(iv):
        ctx.branch("searchsorted:needle-at-chunk-boundary")
    if 0 in inp["achunks"]:
        ctx.branch("searchsorted:empty-chunk")
    if len(inp["achunks"]) > 1:
        ctx.branch("searchsorted:multi-block:" + side)
    if len(set(inp["a"])) < len(inp["a"]):
        ctx.branch("searchsorted:duplicates")


def case_bincount(ctx, inp):
    import numpy as np
    import dask.array as da
    setup_dask()
    x = np.array(inp["x"], dtype="i8")
    cs = tuple(inp["chunks"])
    d = da.from_array(x, chunks=(cs,))
    kw = {"minlength": inp.get("minlength", 0)}
    w = None
    if inp.get("weights") is not None:
        w = np.array(inp["weights"], dtype=inp.get("wdtype", "f8"))
        e = np.bincount(x, weights=w, **kw)
        r = da.bincount(d, weights=da.from_array(w, chunks=(cs,)), split_every=inp.get("split_every"), **kw)
        ctx.branch("bincount:weights")
        if len(x) and all(float(v * 4).is_integer() for v in w):
            # exact model with the weights scaled to integers (quarters)
            wi = [int(v * 4) for v in w]
            m = ctx.lean(Sym("bincount_w"), _split(x, cs), _split(wi, cs), kw["minlength"])
            ctx.eq("bincount(weights): Lean merge of per-chunk results = whole", m[0], m[1])
            ctx.eq("bincount(weights): Lean vs NumPy", [v / 4 for v in m[1]], e.tolist())
            ctx.branch("bincount:weights:model")
    else:
        e = np.bincount(x, **kw)
        r = da.bincount(d, split_every=inp.get("split_every"), **kw)
        m = ctx.lean(Sym("bincount"), _split(x, cs), kw["minlength"])
        ctx.eq("bincount: Lean merge of per-chunk counts = whole", m[0], m[1])
        ctx.eq("bincount: Lean vs NumPy", m[1], e.tolist())
    g = r.compute(scheduler="sync")
    sig = None
    if w is not None and len(x) == 0 and np.asarray(g).shape == e.shape and not np.asarray(g).any():
        sig = "bincount:empty-input-with-weights:dtype"   # NumPy ignores the weights' dtype for empty input
    _cmp(ctx, "bincount", g, e, exact=w is None or w.dtype.kind != "f", sig=sig)
    if kw["minlength"] and r.shape != e.shape:
        # by design (pinned test_bincount: "shape equal to minlength") the lazy shape is (minlength,) even when
        # the data exceed it; the statement of C27 is about values, lazy metadata is C25's subject
        ctx.note("bincount: lazy shape (minlength,) smaller than the computed length")
    if len(cs) > 1:
        ctx.branch("bincount:multi-block")
    if 0 in cs:
        ctx.branch("bincount:empty-chunk")
    if inp.get("split_every"):
        ctx.branch("bincount:split_every")
    # function level: the aggregation
    from dask.array.routines import _bincount_agg
    parts = [np.bincount(np.array(b, dtype="i8"), minlength=kw["minlength"]) for b in _split(x, cs)]
    if w is None and len(parts) > 1:
        agg = _bincount_agg(parts, dtype=parts[0].dtype)
        ctx.eq("_bincount_agg", ctx.lean(Sym("bincount"), _split(x, cs), kw["minlength"])[0], agg.tolist())
        k = inp.get("split_every")
        if k and len(parts) > k:
            # the grouping of _tree_reduce: consecutive groups of k partial results, then the group results
            groups = [parts[i:i + k] for i in range(0, len(parts), k)]
            two = _bincount_agg([_bincount_agg(gp, dtype=parts[0].dtype) for gp in groups], dtype=parts[0].dtype)
            bl = _split(x, cs)
            mt = ctx.lean(Sym("bincount_tree"), [bl[i:i + k] for i in range(0, len(bl), k)], kw["minlength"])
            ctx.eq("_bincount_agg in two levels: Lean tree = Lean whole", mt[0], mt[1])
            ctx.eq("_bincount_agg in two levels vs Lean", mt[0], two.tolist())
            ctx.branch("bincount:tree:model")


def case_histogram(ctx, inp):
    import numpy as np
    import dask.array as da
    setup_dask()
    x = np.array(inp["x"], dtype=inp.get("dtype", "i8")).reshape(inp.get("shape", [len(inp["x"])]))
    if inp.get("nan"):
        x = x.astype("f8")
    chunks = tuple(tuple(c) for c in inp["chunks"])
    d = da.from_array(x, chunks=chunks)
    kw = {}
    if "edges" in inp:
        kw["bins"] = np.array(inp["edges"], dtype=inp.get("edtype", "i8"))
    else:
        kw["bins"], kw["range"] = inp["bins"], tuple(inp["range"])
    w = None
    if inp.get("weights") is not None:
        w = np.array(inp["weights"], dtype="f8").reshape(x.shape)
        kw_np = dict(kw, weights=w)
        kw_da = dict(kw, weights=da.from_array(w, chunks=chunks))
    else:
        kw_np = kw_da = kw
    if inp.get("density"):
        kw_np = dict(kw_np, density=True)
        kw_da = dict(kw_da, density=True)
    if inp.get("op") == "2d":
        y = np.array(inp["y"], dtype=x.dtype)
        dy = da.from_array(y, chunks=chunks)
        e, ex, ey = np.histogram2d(x, y, **kw_np)
        r, rx, ry = da.histogram2d(d, dy, **kw_da)
        _cmp(ctx, "histogram2d", r.compute(scheduler="sync"), e, exact=False)
        _cmp(ctx, "histogram2d x-edges", np.asarray(rx), ex, exact=False)
        _cmp(ctx, "histogram2d y-edges", np.asarray(ry), ey, exact=False)
        ctx.branch("histogram2d")
        return
    e, ee = np.histogram(x, **kw_np)
    r, re_ = da.histogram(d, **kw_da)
    g = r.compute(scheduler="sync")
    _cmp(ctx, "histogram", g, e, exact=(w is None and not inp.get("density")))
    _cmp(ctx, "histogram edges", np.asarray(re_.compute(scheduler="sync") if hasattr(re_, "compute") else re_), ee, exact=False)
    if w is not None:
        # joint: the weighted, the unweighted and a differently weighted histogram of the SAME data in ONE graph
        # (seed C27-2: key names that do not depend on `weights` make one definition overwrite the other)
        import dask
        kw0 = {k: v for k, v in kw_da.items() if k != "weights"}
        kw2 = dict(kw_da, weights=da.from_array(2.0 * w + 1.0, chunks=chunks))
        r0, r2 = da.histogram(d, **kw0)[0], da.histogram(d, **kw2)[0]
        j0, j1, j2 = dask.compute(r0, r, r2, scheduler="sync")
        e0 = np.histogram(x, **{k: v for k, v in kw_np.items() if k != "weights"})[0]
        e2 = np.histogram(x, **dict(kw_np, weights=2.0 * w + 1.0))[0]
        _cmp(ctx, "histogram joint: unweighted", j0, e0, exact=not inp.get("density"))
        _cmp(ctx, "histogram joint: weighted", j1, e, exact=False)
        _cmp(ctx, "histogram joint: other weights", j2, e2, exact=False)
        ctx.branch("histogram:joint-weighted-and-unweighted")
    if "edges" in inp and x.size:
        ed = inp["edges"]
        flat = x.ravel().tolist()
        if ed[-1] in flat:
            ctx.branch("histogram:value-on-closed-last-edge")
        if set(ed[1:-1]) & set(flat):
            ctx.branch("histogram:value-on-inner-edge")
        if x.ndim == 1 and len(chunks[0]) > 1:
            cut, pos = set(), 0
            for c in chunks[0][:-1]:
                pos += c
                if 0 < pos < len(flat):
                    cut.update((flat[pos - 1], flat[pos]))
            if cut & set(ed):
                ctx.branch("histogram:edge-value-next-to-a-chunk-boundary")
    if "edges" in inp and w is None and not inp.get("density") and x.ndim == 1 and x.dtype.kind == "i" and len(inp["edges"]) >= 2:
        m = ctx.lean(Sym("histogram"), inp["edges"], _split(x, chunks[0]))
        ctx.eq("histogram: Lean merge of per-chunk histograms = whole", m[0], m[1])
        ctx.eq("histogram: Lean vs NumPy", m[1], e.tolist())
        ctx.branch("histogram:model")
    if ("edges" in inp and w is not None and not inp.get("density") and x.ndim == 1 and x.dtype.kind == "i" and x.size
            and len(inp["edges"]) >= 2 and x.min() >= 0 and all(float(t * 2).is_integer() for t in w.ravel())):
        # exact model with the weights scaled to integers (halves)
        wi = [int(t * 2) for t in w.ravel()]
        m = ctx.lean(Sym("histogram_w"), inp["edges"], _split(x, chunks[0]), _split(wi, chunks[0]))
        ctx.eq("histogram(weights): Lean sum of per-chunk weighted histograms = whole", m[0], m[1])
        ctx.eq("histogram(weights): Lean vs NumPy", [t / 2 for t in m[1]], e.tolist())
        ctx.branch("histogram:weights:model")
    ctx.branch("histogram:" + ("edges" if "edges" in inp else "bins+range") + (":weights" if w is not None else "") +
               (":density" if inp.get("density") else ""))
    if math.prod(len(c) for c in chunks) > 1:
        ctx.branch("histogram:multi-block")


def case_unique(ctx, inp):
    import numpy as np
    import dask.array as da
    setup_dask()
    x = np.array(inp["x"], dtype=inp.get("dtype", "i8")).reshape(inp.get("shape", [len(inp["x"])]))
    sig = None
    if inp.get("nan"):
        x = x.astype("f8")
        x[np.array(inp["nan"], dtype=bool).reshape(x.shape)] = np.nan
    chunks = tuple(tuple(c) for c in inp["chunks"])
    d = da.from_array(x, chunks=chunks)
    kw = {k: True for k in ("return_index", "return_inverse", "return_counts") if inp.get(k)}
    e = np.unique(x, **kw)
    has_nan = bool(inp.get("nan")) and bool(np.isnan(x).any())
    try:
        r = da.unique(d, **kw)
        rs = r if isinstance(r, tuple) else (r,)
        gs = [np.asarray(t.compute(scheduler="sync")) for t in rs]
    except Exception as ex:
        ctx.fail(f"unique raised {type(ex).__name__}" + (" on an array containing NaN" if has_nan else ""), sig=sig,
                 observed=str(ex)[:200])
        return
    es = e if isinstance(e, tuple) else (e,)
    names = ["values"] + [k for k in ("return_index", "return_inverse", "return_counts") if inp.get(k)]
    for nm, g, ee in zip(names, gs, es):
        _cmp(ctx, "unique " + nm + (" (array containing NaN)" if has_nan else ""), g, ee, sig=sig)
    if x.dtype.kind == "i" and inp.get("return_inverse") and len(gs) == len(names):
        inv = gs[names.index("return_inverse")]
        ctx.eq("unique(return_inverse): Lean masked-sum formula vs dask", ctx.lean(Sym("unique_inverse"), [int(v) for v in x.ravel()]),
               np.asarray(inv).ravel().tolist())
        ctx.branch("unique:inverse:model")
    if x.ndim == 1 and x.dtype.kind == "i" and inp.get("return_index") and inp.get("return_counts") and not inp.get("return_inverse"):
        m = ctx.lean(Sym("unique"), _split(x, chunks[0]))
        ctx.eq("unique: Lean per-chunk + merge = whole", m[0], m[1])
        ctx.eq("unique: Lean vs dask (value, first index, count)", m[0],
               [[int(a), int(b), int(c)] for a, b, c in zip(gs[0], gs[1], gs[2])])
        ctx.branch("unique:model")
    ctx.branch("unique:" + "+".join(n.replace("return_", "") for n in names[1:]) if len(names) > 1 else "unique:values")
    if math.prod(len(c) for c in chunks) > 1:
        ctx.branch("unique:multi-block")
    if has_nan:
        ctx.branch("unique:nan")
    if x.ndim == 1 and len(chunks[0]) > 1:
        pos = 0
        for c in chunks[0][:-1]:
            pos += c
            if 0 < pos < x.size and (x[pos - 1] == x[pos] or (x[pos - 1] != x[pos - 1] and x[pos] != x[pos])):
                ctx.branch("unique:duplicate-straddles-a-chunk-boundary")
                break


def case_unique_internal(ctx, inp):
    import numpy as np
    from dask.array.routines import _unique_internal
    rows = inp["rows"]
    ar = np.array([r[0] for r in rows], dtype="i8")
    idx = np.array([r[1] for r in rows], dtype=np.intp)
    cnt = np.array([r[2] for r in rows], dtype=np.intp)
    r = _unique_internal(ar, idx, cnt, return_inverse=False)
    impl = [[int(a), int(b), int(c)] for a, b, c in zip(r["values"], r["indices"], r["counts"])]
    ctx.eq("_unique_internal", ctx.lean(Sym("unique_internal"), rows), impl)
    if len(impl) < len(rows):
        ctx.branch("unique_internal:merges")


def case_nonzero(ctx, inp):
    import numpy as np
    import dask.array as da
    setup_dask()
    x = np.array(inp["x"], dtype=inp.get("dtype", "i8")).reshape(inp["shape"])
    chunks = tuple(tuple(c) for c in inp["chunks"])
    d = da.from_array(x, chunks=chunks)
    op = inp["op"]
    if op == "nonzero":
        g = [np.asarray(t.compute(scheduler="sync")) for t in da.nonzero(d)]
        e = np.nonzero(x)
        if len(g) != len(e):
            ctx.fail("nonzero: number of index arrays differs", observed=len(g))
        for a, b in zip(g, e):
            _cmp(ctx, "nonzero", a, b)
        if x.size and len(g) == x.ndim:
            k = (int(x.size) + int(np.count_nonzero(x))) % x.ndim
            m = ctx.lean(Sym("argwhere"), list(x.shape), [int(bool(t)) for t in x.ravel()], k)
            ctx.eq("nonzero: Lean column of argwhere vs dask", m[2], np.asarray(g[k]).tolist())
            ctx.branch("nonzero:model-nd")
    elif op == "argwhere":
        g = da.argwhere(d).compute(scheduler="sync")
        _cmp(ctx, "argwhere", g, np.argwhere(x))
        if x.size:
            m = ctx.lean(Sym("argwhere"), list(x.shape), [int(bool(t)) for t in x.ravel()], 0)
            ctx.eq("argwhere: Lean (unravelled flat positions of the non-zeros) vs dask", m[0], np.asarray(g).tolist())
            ctx.branch("argwhere:model")
    elif op == "flatnonzero":
        g = da.flatnonzero(d).compute(scheduler="sync")
        _cmp(ctx, "flatnonzero", g, np.flatnonzero(x))
        if x.ndim == 1:
            m = ctx.lean(Sym("nonzero"), _split(np.abs(x), chunks[0]))
            ctx.eq("flatnonzero: Lean per-chunk offsets = whole", m[0], m[1])
            ctx.eq("flatnonzero: Lean vs dask", m[0], np.asarray(g).tolist())
            ctx.eq("count_nonzero: Lean vs NumPy", m[2], int(np.count_nonzero(x)))
            ctx.branch("nonzero:model")
    elif op == "count_nonzero":
        ax = inp.get("axis")
        ax = tuple(ax) if isinstance(ax, list) else ax
        _cmp(ctx, "count_nonzero", da.count_nonzero(d, axis=ax).compute(scheduler="sync"), np.count_nonzero(x, axis=ax))
    ctx.branch("nonzero:" + op)
    if math.prod(len(c) for c in chunks) > 1:
        ctx.branch("nonzero:multi-block")


def case_misc(ctx, inp):
    import numpy as np
    import dask.array as da
    setup_dask()
    op = inp["op"]
    if op == "isin":
        x = np.array(inp["x"], dtype="i8").reshape(inp["shape"])
        t = np.array(inp["t"], dtype="i8")
        d = da.from_array(x, chunks=tuple(tuple(c) for c in inp["chunks"]))
        dt = da.from_array(t, chunks=(tuple(inp["tchunks"]),))
        g = da.isin(d, dt, invert=inp.get("invert", False)).compute(scheduler="sync")
        _cmp(ctx, "isin", g, np.isin(x, t, invert=inp.get("invert", False)))
        m = ctx.lean(Sym("isin"), [int(v) for v in x.ravel()], _split(t, inp["tchunks"]))
        ctx.eq("isin: Lean any-over-the-test-blocks = membership in the whole", m[0], m[1])
        ctx.eq("isin: Lean vs dask", m[0], [int(bool(b) != bool(inp.get("invert", False))) for b in np.asarray(g).ravel()])
        ctx.branch("isin:model")
        if len(inp["tchunks"]) > 1:
            ctx.branch("isin:test-elements-multi-block")
        if 0 in inp["tchunks"]:
            ctx.branch("isin:test-elements-empty-chunk")
    elif op == "digitize":
        x = np.array(inp["x"], dtype=inp.get("dtype", "i8")).reshape(inp["shape"])
        if inp.get("nan") and x.dtype.kind == "f":
            x.reshape(-1)[np.array(inp["nan"], dtype=bool)] = np.nan
            ctx.branch("digitize:nan")
        bins = np.array(sorted(inp["bins"], reverse=inp.get("decreasing", False)), dtype=x.dtype)
        d = da.from_array(x, chunks=tuple(tuple(c) for c in inp["chunks"]))
        _cmp(ctx, "digitize", da.digitize(d, bins, right=inp["right"]).compute(scheduler="sync"), np.digitize(x, bins, right=inp["right"]))
    elif op == "ravel_multi_index":
        dims = tuple(inp["dims"])
        idx = np.array(inp["idx"], dtype="i8").reshape([len(dims)] + inp["ishape"])
        d = da.from_array(idx, chunks=tuple(tuple(c) for c in inp["chunks"]))
        kw = {"order": inp.get("order", "C"), "mode": inp.get("mode", "raise")}
        try:
            e = np.ravel_multi_index(tuple(idx), dims, **kw)
        except ValueError:
            return
        _cmp(ctx, "ravel_multi_index", da.ravel_multi_index(d, dims, **kw).compute(scheduler="sync"), e)
    elif op == "unravel_index":
        shape = tuple(inp["dims"])
        idx = np.array(inp["idx"], dtype="i8").reshape(inp["ishape"])
        d = da.from_array(idx, chunks=tuple(tuple(c) for c in inp["chunks"]))
        e = np.unravel_index(idx, shape, order=inp.get("order", "C"))
        g = da.unravel_index(d, shape, order=inp.get("order", "C"))
        if len(g) != len(e):
            ctx.fail("unravel_index: number of outputs differs", observed=len(g))
        for a, b in zip(g, e):
            _cmp(ctx, "unravel_index", a.compute(scheduler="sync"), b)
    elif op == "coarsen":
        x = np.array(inp["x"], dtype="i8").reshape(inp["shape"])
        chunks = tuple(tuple(c) for c in inp["chunks"])
        d = da.from_array(x, chunks=chunks)
        axes = {int(k): v for k, v in inp["axes"].items()}
        red = {"sum": np.sum, "max": np.max, "min": np.min}[inp["red"]]
        from dask.array import chunk
        ok = all(x.shape[i] % dv == 0 for i, dv in axes.items())
        axes0 = dict(axes)          # chunk.coarsen adds the missing axes (factor 1) to the dict it is given
        try:
            r = da.coarsen(red, d, dict(axes0), trim_excess=inp["trim"])
            g = r.compute(scheduler="sync")
        except Exception as ex:
            if isinstance(ex, ValueError) and not inp["trim"] and not ok:
                ctx.branch("coarsen:misaligned-rejected")
                return
            ctx.fail(f"coarsen raised {type(ex).__name__} (n-d, trim_excess={inp['trim']})",
                     observed=[[list(c) for c in chunks], axes0, str(ex)[:160]])
            return
        e = chunk.coarsen(red, x, dict(axes0), trim_excess=inp["trim"])
        axes = axes0
        _cmp(ctx, "coarsen", g, e)
        if tuple(sum(c) for c in r.chunks) != e.shape:
            ctx.fail("coarsen: lazy chunks do not add up to the result shape", observed=r.chunks, expected=list(e.shape))
        if x.ndim == 1 and inp["red"] == "sum" and all(c % axes[0] == 0 for c in chunks[0]):
            m = ctx.lean(Sym("coarsen_sum"), axes[0], _split(x, chunks[0]))
            ctx.eq("coarsen: Lean block-wise windows = whole", m[0], m[1])
            ctx.eq("coarsen: Lean vs dask", m[0], np.asarray(g).tolist())
            ctx.branch("coarsen:model")
        # function level oracle on aligned_coarsen_chunks
        from dask.array.routines import aligned_coarsen_chunks
        for i, dv in axes.items():
            if i >= x.ndim:
                continue
            al = aligned_coarsen_chunks(chunks[i], dv)
            bad = _aligned_postcond(list(chunks[i]), dv, al)
            if bad:
                ctx.fail("aligned_coarsen_chunks: " + bad, observed=[chunks[i], dv, al])
            # the declared chunks of every coarsened axis, as proved in coarsen_declared_chunks
            md = ctx.lean(Sym("da_coarsen"), True, dv, list(chunks[i]), [0] * x.shape[i], _np_order(list(chunks[i]), dv))
            ctx.eq("coarsen (n-d): Lean declared chunks of a coarsened axis vs r.chunks", md[2] if md[0] == "ok" else md,
                   list(r.chunks[i]))
        if x.ndim > 1 and len([1 for i in axes if i < x.ndim]) > 1:
            ctx.branch("coarsen:nd:several-axes")
        if x.ndim == 2 and inp["red"] == "sum" and x.size and x.min() >= 0:
            # both axes against the 2-d model (coarsen2_any_chunking); an axis that is not coarsened has factor 1
            d0, d1 = axes.get(0, 1), axes.get(1, 1)
            m2 = ctx.lean(Sym("da_coarsen2"), inp["trim"], d0, d1, list(chunks[0]), list(chunks[1]), x.tolist(),
                          _np_order(list(chunks[0]), d0), _np_order(list(chunks[1]), d1))
            if m2[0] != "ok":
                ctx.disagree("coarsen (2-d): the model raises, the code does not", m2, np.asarray(g).tolist())
            else:
                ctx.eq("coarsen (2-d): Lean block-wise tiling = Lean chunk.coarsen of the whole array", m2[1], m2[2])
                ctx.eq("coarsen (2-d): Lean vs dask", [r for r in m2[2]] if e.shape[0] and e.shape[1] else [],
                       np.asarray(g).tolist() if e.shape[0] and e.shape[1] else [])
                ctx.branch("coarsen:2d:model")
        if any(_align_class(list(chunks[i]), dv) == "max-multiple-others-not" for i, dv in axes.items() if i < x.ndim):
            ctx.branch("coarsen:nd:max-multiple-others-not")
    elif op in ("compress", "extract"):
        x = np.array(inp["x"], dtype="i8").reshape(inp["shape"])
        d = da.from_array(x, chunks=tuple(tuple(c) for c in inp["chunks"]))
        cond = np.array(inp["cond"], dtype=bool)
        if op == "compress":
            ax = inp.get("axis")
            dc = da.from_array(cond, chunks=(tuple(inp["cchunks"]),)) if inp.get("dask_cond") else cond
            ln = x.size if ax is None else x.shape[ax]
            try:
                e = np.compress(cond, x, axis=ax)
            except IndexError:
                e = None
            if len(cond) > ln:
                ctx.branch("compress:condition-longer-than-axis:" + ("surplus-false" if e is not None else "surplus-true"))
            try:
                g = da.compress(dc, d, axis=ax).compute(scheduler="sync")
            except IndexError as ex:
                if e is not None:
                    ctx.fail("compress raised IndexError where NumPy does not", observed=str(ex)[:160], expected=e.tolist())
                g = None
            if g is not None:
                if e is None:
                    ctx.fail("compress accepted a condition with a True entry beyond the axis", observed=np.asarray(g).tolist())
                else:
                    _cmp(ctx, "compress", g, e)
            if x.ndim == 1 and not inp.get("dask_cond"):
                m = ctx.lean(Sym("compress_np"), [int(c) for c in cond], [int(v) for v in x])
                ctx.eq("compress (NumPy condition): Lean vs NumPy", m, ["raised"] if e is None else ["ok", e.tolist()])
                ctx.branch("compress:np-condition:model")
        else:
            c2 = cond[: x.size].reshape(x.shape) if cond.size >= x.size else np.resize(cond, x.shape)
            cch = tuple(tuple(c) for c in inp["cond_chunks"]) if inp.get("cond_chunks") else d.chunks
            if cch != d.chunks:
                ctx.branch("extract:condition-chunked-differently")
            _cmp(ctx, "extract", da.extract(da.from_array(c2, chunks=cch), d).compute(scheduler="sync"), np.extract(c2, x))
            if x.size:
                m = ctx.lean(Sym("compress"), [x.size], [int(c) for c in c2.ravel()], [int(v) for v in x.ravel()])
                ctx.eq("extract: Lean selection on the flattenings vs NumPy", m[2] if m[0] == "ok" else m, np.extract(c2, x).tolist())
    ctx.branch("misc:" + op)


# ---------------------------------------------------------------------------------------------------------------------
# coarsen: aligned_coarsen_chunks (function level) and da.coarsen along one axis against the Lean model
# ---------------------------------------------------------------------------------------------------------------------

def _aligned_postcond(cs, m, al):
    """What `aligned_coarsen_chunks_spec` proves of the model, evaluated on the REAL output."""
    n = sum(cs)
    if sum(al) != n:
        return "total changed"
    if n == 0:
        return None if tuple(al) == (0,) else "an empty axis must keep the single chunk (0,)"
    if any(c <= 0 for c in al):
        return "non-positive chunk"
    if any(c % m for c in al[:-1]):
        return "a chunk before the last is not a multiple of the factor"
    if al[-1] % m and al[-1] != n % m:
        return "the last chunk is neither a multiple nor the remainder"
    if n % m and al[-1] != n % m:
        return "the remainder is not the last chunk"
    return None


def _np_order(cs, m):
    """`chunk_modification_order` exactly as aligned_coarsen_chunks computes it (same NumPy, same tie-breaking): the
    model takes the order as a parameter because np.argsort (quicksort / SIMD sort) is not stable."""
    import numpy as np
    chunks = np.array(cs)
    new = chunks - chunks % m
    validity = new == chunks
    valid, invalid = np.where(validity)[0], np.where(~validity)[0]
    order = [int(i) for i in (*invalid[np.argsort(new[invalid])], *valid[np.argsort(new[valid])])]
    assert sorted(order) == list(range(len(cs)))      # an argsort is a permutation: what `ValidOrder` needs
    return order


def _align_tags(cs, m):
    """Every alignment class the tuple belongs to (the classes overlap)."""
    mis = [c % m != 0 for c in cs]
    t = set()
    if not any(mis):
        return {"all-multiples"}
    if max(cs) % m == 0:
        t.add("max-multiple-others-not")
    if cs[0] % m == 0:
        t.add("first-multiple-others-not")
    if cs[-1] % m == 0:
        t.add("last-multiple-others-not")
    if mis[0] and not any(mis[1:]):
        t.add("only-first-misaligned")
    if mis[-1] and not any(mis[:-1]):
        t.add("only-last-misaligned")
    if sum(mis) >= 2:
        t.add("several-misaligned")
    if sum(mis) == 1 and not mis[0] and not mis[-1]:
        t.add("only-an-inner-chunk-misaligned")
    return t


def _align_class(cs, m):
    mis = [c % m != 0 for c in cs]
    if not any(mis):
        return "all-multiples"
    if max(cs) % m == 0:
        return "max-multiple-others-not"
    if mis[0] and not any(mis[1:]):
        return "only-first-misaligned"
    if mis[-1] and not any(mis[:-1]):
        return "only-last-misaligned"
    if cs[0] % m == 0:
        return "first-multiple-others-not"
    return "several-misaligned"


def case_aligned(ctx, inp):
    """aligned_coarsen_chunks: model vs code on a whole family of chunk tuples against one factor (one Lean call)."""
    from dask.array.routines import aligned_coarsen_chunks
    m = inp["m"]
    if "n" in inp:
        css = [list(c) for c in comps(inp["n"])]
        if inp.get("zeros"):   # one zero-length chunk inserted at a position that varies with the tuple
            css = [c[:k] + [0] + c[k:] for c in css for k in [(sum(i * v for i, v in enumerate(c)) + len(c)) % (len(c) + 1)]]
    else:
        css = inp["chunks"]
    orders = [_np_order(cs, m) for cs in css]
    model = ctx.lean(Sym("aligned_coarsen"), css, m, orders)
    stable = ctx.lean(Sym("aligned_coarsen"), css, m, [[] for _ in css])   # the model's own (stable) tie-breaking
    seen = set()
    exact = 0
    for cs, mo, ms in zip(css, model, stable):
        if ms[0] != "ok" or _aligned_postcond(cs, m, ms[1]):
            ctx.disagree("aligned_coarsen_chunks: the Lean model with a stable argsort violates the proved post-condition", ms, [cs, m])
        if ms != mo:
            seen.add("tie-broken-differently-from-stable")
        try:
            al = aligned_coarsen_chunks(tuple(cs), m)
        except Exception as ex:  # the model (and the theorem) say it never raises for a positive factor
            ctx.fail(f"aligned_coarsen_chunks raised {type(ex).__name__}", observed=[cs, m, str(ex)[:120]])
            continue
        bad = _aligned_postcond(cs, m, al)
        if bad:
            ctx.fail("aligned_coarsen_chunks: " + bad, observed=[cs, m, list(al)])
        exact += 1
        if mo != ["ok", list(al)]:
            ctx.disagree("aligned_coarsen_chunks: Lean model vs code", mo, [cs, m, list(al)])
        seen |= _align_tags(cs, m)
        if sum(cs) % m:
            seen.add("remainder")
        if 0 in cs:
            seen.add("zero-length-chunk")
    for k in seen:
        ctx.branch("aligned:" + k)
    ctx.note("aligned_coarsen_chunks tuples diffed exactly", exact)


def case_coarsen1d(ctx, inp):
    """da.coarsen along the axis of a 1-d array: real result, per block and declared chunks, vs Lean `daCoarsen`."""
    import numpy as np
    import dask
    import dask.array as da
    from dask.array import chunk
    setup_dask()
    x = np.array(inp["x"], dtype="i8")
    cs = tuple(inp["chunks"])
    d, trim = inp["d"], inp["trim"]
    red = {"sum": np.sum, "max": np.max, "min": np.min}[inp.get("red", "sum")]
    dx = da.from_array(x, chunks=(cs,))
    m = ctx.lean(Sym("da_coarsen"), trim, d, list(cs), [int(v) for v in x], _np_order(list(cs), d))
    try:
        e = chunk.coarsen(red, x, {0: d}, trim_excess=trim)
    except ValueError:
        e = None
    cls = _align_class(cs, d)
    try:
        r = da.coarsen(red, dx, {0: d}, trim_excess=trim)
        blocks = dask.compute(*[r.blocks[i] for i in range(r.numblocks[0])], scheduler="sync")
        g = r.compute(scheduler="sync")
    except Exception as ex:
        if e is None and isinstance(ex, ValueError):
            ctx.eq("coarsen: ragged length without trim_excess is rejected by the model too", m, ["raised"])
            ctx.branch("coarsen1d:rejected")
            return
        ctx.fail(f"coarsen raised {type(ex).__name__} on chunks of class '{cls}' (trim_excess={trim})",
                 observed=[list(cs), d, str(ex)[:160]], expected=None if e is None else e.tolist())
        return
    if e is None:
        ctx.fail("coarsen accepted a length that chunk.coarsen rejects", observed=np.asarray(g).tolist())
        return
    _cmp(ctx, f"coarsen (1-d, chunks of class '{cls}', trim_excess={trim})", g, e)
    if tuple(sum(c) for c in r.chunks) != e.shape:
        ctx.fail("coarsen: lazy chunks do not add up to the result shape", observed=r.chunks, expected=list(e.shape))
    for b, c in zip(blocks, r.chunks[0]):
        if b.shape != (c,):
            ctx.fail("coarsen: a computed block does not have its declared length", observed=[list(b.shape), r.chunks[0]])
    if m[0] != "ok":
        ctx.disagree("coarsen: the model raises, the code does not", m, np.asarray(g).tolist())
        return
    ctx.eq("coarsen: Lean declared chunks vs r.chunks", m[2], list(r.chunks[0]))
    if inp.get("red", "sum") == "sum":
        ctx.eq("coarsen: Lean block-wise result = Lean chunk.coarsen of the whole axis", [v for b in m[1] for v in b], m[3])
        ctx.eq("coarsen: Lean vs dask", m[3], np.asarray(g).tolist())
        mb = [b for b in m[1]]
        while len(mb) > len(blocks) and mb[-1] == []:      # the declaration leaves a trailing empty block out
            mb.pop()
        ctx.eq("coarsen: Lean blocks vs computed blocks", mb, [np.asarray(b).tolist() for b in blocks])
    for t in _align_tags(list(cs), d) if len(cs) else ():
        ctx.branch("coarsen1d:" + t + (":trim" if trim else ""))
    if 0 in cs:
        ctx.branch("coarsen1d:zero-length-chunk")
    if len(x) % d:
        ctx.branch("coarsen1d:excess-trimmed")
    if d > len(x):
        ctx.branch("coarsen1d:factor-exceeds-axis")


# ---------------------------------------------------------------------------------------------------------------------
# histogramdd / histogram2d with explicit integer edges against the Lean model
# ---------------------------------------------------------------------------------------------------------------------

def case_histdd(ctx, inp):
    import numpy as np
    import dask.array as da
    setup_dask()
    edges = [list(e) for e in inp["edges"]]
    if inp["form"] == "xy":
        x, y = np.array(inp["x"], dtype="i8"), np.array(inp["y"], dtype="i8")
        xb, yb = _split(x, inp["xchunks"]), _split(y, inp["ychunks"])
        m = ctx.lean(Sym("hist2d"), edges[0], edges[1], xb, yb)
        bins = [np.array(e, dtype="i8") for e in edges]
        e = np.histogram2d(x, y, bins=bins)[0]
        try:
            r = da.histogram2d(da.from_array(x, chunks=(tuple(inp["xchunks"]),)), da.from_array(y, chunks=(tuple(inp["ychunks"]),)),
                               bins=bins)[0]
            g = r.compute(scheduler="sync")
        except ValueError as ex:
            if list(inp["xchunks"]) != list(inp["ychunks"]) and "chunked identically" in str(ex):
                # documented restriction (histogramdd docstring); the model has the same guard
                ctx.eq("histogram2d: coordinate arrays chunked differently are rejected by the model too", m, ["raised"])
                ctx.branch("histdd:xy:different-chunking-rejected")
                return
            ctx.fail("histogram2d raised ValueError", observed=str(ex)[:160])
            return
        if list(inp["xchunks"]) != list(inp["ychunks"]):
            ctx.fail("histogram2d accepted coordinate arrays chunked differently", observed=np.asarray(g).tolist())
            return
        rows = list(zip(x.tolist(), y.tolist()))
    else:
        smp = np.array(inp["rows"], dtype="i8").reshape(len(inp["rows"]), len(edges))
        rb = [[[int(v) for v in row] for row in smp[a:b]] for a, b in _bounds(inp["chunks"])]
        mm = ctx.lean(Sym("histdd"), edges, rb)
        m = ["ok", mm[0], mm[1]]
        bins = [np.array(e, dtype="i8") for e in edges]
        e = np.histogramdd(smp, bins=bins)[0]
        r = da.histogramdd(da.from_array(smp, chunks=(tuple(inp["chunks"]), (len(edges),))), bins=bins)[0]
        g = r.compute(scheduler="sync")
        rows = [tuple(t) for t in smp.tolist()]
    _cmp(ctx, "histogram" + ("2d" if inp["form"] == "xy" else "dd"), g, e)
    if m[0] != "ok":
        ctx.disagree("histogramdd: the model raises, the code does not", m, np.asarray(g).tolist())
        return
    ctx.eq("histogramdd: Lean sum of per-chunk histograms = whole", m[1], m[2])
    ctx.eq("histogramdd: Lean vs NumPy", m[2], [int(v) for v in e.ravel()])
    ctx.branch("histdd:" + inp["form"] + ":model")
    if any(v == ed[-1] for row in rows for v, ed in zip(row, edges)):
        ctx.branch("histdd:value-on-closed-last-edge")
    if any(v in ed[1:-1] for row in rows for v, ed in zip(row, edges)):
        ctx.branch("histdd:value-on-inner-edge")
    if len(inp.get("chunks", inp.get("xchunks"))) > 1:
        ctx.branch("histdd:multi-block")
    if 0 in inp.get("chunks", inp.get("xchunks")):
        ctx.branch("histdd:empty-chunk")


def _bounds(cs):
    out, i = [], 0
    for c in cs:
        out.append((i, i + c))
        i += c
    return out


# ---------------------------------------------------------------------------------------------------------------------
# digitize / compress / ravel_multi_index / unravel_index against the Lean model
# ---------------------------------------------------------------------------------------------------------------------

def case_digitize1d(ctx, inp):
    import numpy as np
    import dask.array as da
    setup_dask()
    x = np.array(inp["x"], dtype="i8")
    bins = np.array(inp["bins"], dtype="i8")
    right = inp["right"]
    cs = tuple(inp["chunks"])
    m = ctx.lean(Sym("digitize"), right, [int(b) for b in bins], _split(x, cs))
    try:
        e = np.digitize(x, bins, right=right)
    except ValueError:
        e = None
    try:
        r = da.digitize(da.from_array(x, chunks=(cs,)), bins, right=right)
        import dask
        blocks = dask.compute(*[r.blocks[i] for i in range(r.numblocks[0])], scheduler="sync")
    except ValueError as ex:
        if e is None:
            ctx.eq("digitize: non-monotonic bins are rejected by the model too", m, ["raised"])
            ctx.branch("digitize:non-monotonic-rejected")
            return
        ctx.fail("digitize raised ValueError where NumPy does not", observed=str(ex)[:160], expected=e.tolist())
        return
    if e is None:
        ctx.fail("digitize accepted bins that NumPy rejects", observed=[b.tolist() for b in blocks])
        return
    g = np.concatenate([np.asarray(b) for b in blocks]) if blocks else np.array([], dtype=e.dtype)
    _cmp(ctx, "digitize", g.astype(e.dtype) if g.size == 0 else g, e)
    if m[0] != "ok":
        ctx.disagree("digitize: the model raises, the code does not", m, g.tolist())
        return
    ctx.eq("digitize: Lean per block vs dask per block", m[1], [np.asarray(b).tolist() for b in blocks])
    inc = all(a <= b for a, b in zip(inp["bins"], inp["bins"][1:]))
    ctx.branch("digitize:model:" + ("increasing" if inc else "decreasing") + (":right" if right else ":left"))
    if set(inp["x"]) & set(inp["bins"]):
        ctx.branch("digitize:value-equal-to-a-bin")
    if len(set(inp["bins"])) < len(inp["bins"]):
        ctx.branch("digitize:duplicate-bins")


def case_compress1d(ctx, inp):
    """da.compress with a dask condition chunked on its own: per-block results vs the Lean model on the common chunks."""
    import numpy as np
    import dask
    import dask.array as da
    from dask.array.core import unify_chunks
    setup_dask()
    x = np.array(inp["x"], dtype="i8")
    cond = np.array(inp["cond"], dtype=bool)
    d = da.from_array(x, chunks=(tuple(inp["chunks"]),))
    dc = da.from_array(cond, chunks=(tuple(inp["cchunks"]),))
    if len(cond) > len(x):
        m = ctx.lean(Sym("compress"), [len(cond)], [int(c) for c in cond], [int(v) for v in x])
        try:
            e = np.compress(cond, x)
        except IndexError:
            e = None
        try:
            g = da.compress(dc, d).compute(scheduler="sync")
        except (IndexError, ValueError) as ex:
            ctx.eq("compress: a dask condition longer than the axis is rejected by the model too", m, ["raised"])
            if e is not None:
                # NumPy ignores surplus entries that are all False; a lazy condition cannot be inspected: known finding
                ctx.fail("compress with a dask condition longer than the axis raises although its surplus is all False",
                         sig="compress:dask-condition-longer-than-axis:raises", observed=str(ex)[:160], expected=e.tolist())
            ctx.branch("compress1d:condition-too-long-rejected")
            return
        if e is None:
            ctx.fail("compress accepted a condition with a True entry beyond the axis", observed=np.asarray(g).tolist())
        else:
            _cmp(ctx, "compress (dask condition longer than the axis)", g, e)
        return
    e = np.compress(cond, x)
    r = da.compress(dc, d)
    blocks = dask.compute(*[r.blocks[i] for i in range(r.numblocks[0])], scheduler="sync")
    g = r.compute(scheduler="sync")
    _cmp(ctx, "compress (dask condition)", g, e)
    common = unify_chunks(d[: len(cond)], "i", dc, "i")[0]["i"]
    if sum(common) != len(cond) or len(common) != len(blocks):
        ctx.fail("compress: the blocks of the result are not those of the chunks common to axis and condition",
                 observed=[list(common), len(blocks)])
        return
    m = ctx.lean(Sym("compress"), list(common), [int(c) for c in cond], [int(v) for v in x])
    if m[0] != "ok":
        ctx.disagree("compress: the model raises, the code does not", m, g.tolist())
        return
    ctx.eq("compress: Lean per block vs dask per block", m[1], [np.asarray(b).tolist() for b in blocks])
    ctx.eq("compress: Lean blocks concatenated = Lean np.compress", [v for b in m[1] for v in b], m[2])
    ctx.eq("compress: Lean vs NumPy", m[2], e.tolist())
    ctx.branch("compress1d:model")
    if len(cond) < len(x):
        ctx.branch("compress1d:condition-shorter")
    if list(inp["chunks"]) != list(inp["cchunks"]):
        ctx.branch("compress1d:different-chunking")
    if 0 in common:
        ctx.branch("compress1d:empty-common-chunk")


def case_ravel(ctx, inp):
    import numpy as np
    import dask.array as da
    setup_dask()
    dims = tuple(inp["dims"])
    k = len(dims)
    n = len(inp["idx"]) // k if k else 0
    idx = np.array(inp["idx"], dtype="i8").reshape(k, n)
    order, mode = inp["order"], inp["mode"]
    try:
        e = np.ravel_multi_index(tuple(idx), dims, mode=mode, order=order)
    except ValueError:
        e = None
    cols = _bounds(inp["chunks1"])
    m = ctx.lean(Sym("ravel"), Sym(order), Sym(mode), list(dims),
                 [[[int(idx[r, c]) for r in range(k)] for c in range(a, b)] for a, b in cols])
    try:
        if inp.get("form") == "tuple":
            arg = tuple(da.from_array(idx[r], chunks=(tuple(inp["chunks1"]),)) for r in range(k))
        else:
            arg = da.from_array(idx, chunks=(tuple(inp["chunks0"]), tuple(inp["chunks1"])))
        ddims = dims[0] if (inp.get("scalar_dims") and k == 1) else dims
        g = da.ravel_multi_index(arg, ddims, mode=mode, order=order).compute(scheduler="sync")
        if ddims is not dims:
            ctx.branch("ravel:scalar-dims")
    except ValueError as ex:
        if e is None:
            ctx.eq("ravel_multi_index: an invalid coordinate is rejected by the model too", m, ["raised"])
            ctx.branch("ravel:rejected:" + mode)
            return
        ctx.fail("ravel_multi_index raised ValueError where NumPy does not", observed=str(ex)[:160], expected=e.tolist())
        return
    if e is None:
        ctx.fail("ravel_multi_index accepted coordinates NumPy rejects", observed=np.asarray(g).tolist())
        return
    _cmp(ctx, "ravel_multi_index", g, e)
    if m[0] != "ok":
        ctx.disagree("ravel_multi_index: the model raises, the code does not", m, np.asarray(g).tolist())
        return
    ctx.eq("ravel_multi_index: Lean vs dask", [v for b in m[1] for v in b], np.asarray(g).tolist())
    ctx.branch("ravel:model:" + order + ":" + mode)
    if len(inp.get("chunks0", [k])) > 1 and inp.get("form") != "tuple":
        ctx.branch("ravel:index-axis-chunked")
    if inp.get("form") == "tuple":
        ctx.branch("ravel:tuple-of-arrays")
    if ((idx < 0) | (idx >= np.array(dims).reshape(k, 1))).any():
        ctx.branch("ravel:out-of-range-coordinate:" + mode)


def case_unravel(ctx, inp):
    import numpy as np
    import dask
    import dask.array as da
    setup_dask()
    dims = tuple(inp["dims"])
    idx = np.array(inp["idx"], dtype="i8")
    order = inp["order"]
    cs = tuple(inp["chunks"])
    try:
        e = np.unravel_index(idx, dims, order=order)
    except ValueError:
        e = None
    m = None
    if (idx >= 0).all():
        m = ctx.lean(Sym("unravel"), Sym(order), list(dims), _split(idx, cs))
    try:
        r = da.unravel_index(da.from_array(idx, chunks=(cs,)), dims, order=order)
        g = [np.asarray(t) for t in dask.compute(*r, scheduler="sync")]
    except ValueError as ex:
        if e is None:
            if m is not None:
                ctx.eq("unravel_index: an index out of bounds is rejected by the model too", m, ["raised"])
            ctx.branch("unravel:rejected")
            return
        ctx.fail("unravel_index raised ValueError where NumPy does not", observed=str(ex)[:160])
        return
    if e is None:
        ctx.fail("unravel_index accepted an index NumPy rejects", observed=[t.tolist() for t in g])
        return
    if len(g) != len(e):
        ctx.fail("unravel_index: number of outputs differs", observed=len(g))
        return
    for a, b in zip(g, e):
        _cmp(ctx, "unravel_index", a, b)
    if m is not None and idx.size:
        if m[0] != "ok":
            ctx.disagree("unravel_index: the model raises, the code does not", m, [t.tolist() for t in g])
            return
        rows = [c for b in m[1] for c in b]
        ctx.eq("unravel_index: Lean vs dask", rows, [[int(t[i]) for t in g] for i in range(len(idx))])
        # round trip on the real code, the statement of unravel_index_ravel
        back = da.ravel_multi_index(da.stack(list(r)), dims, order=order).compute(scheduler="sync")
        ctx.eq("ravel_multi_index(unravel_index(i)) == i on the real code", np.asarray(back).tolist(), idx.tolist())
        ctx.branch("unravel:model:" + order)


CASES = {k: _api(v) for k, v in {
    "searchsorted": case_searchsorted, "bincount": case_bincount, "histogram": case_histogram,
    "unique": case_unique, "unique_internal": case_unique_internal, "nonzero": case_nonzero, "misc": case_misc,
    "aligned": case_aligned, "coarsen1d": case_coarsen1d, "histdd": case_histdd, "digitize1d": case_digitize1d,
    "compress1d": case_compress1d, "ravel": case_ravel, "unravel": case_unravel, **_c27x.CASES, **_c27nd.CASES}.items()}


def _nd(rng, maxd=3, maxn=5):
    shape = [rng.randint(1, maxn) for _ in range(rng.randint(1, maxd))]
    if rng.random() < 0.15:  # interior zero-length chunks
        return shape, [rand_comp_zeros(rng, s) for s in shape]
    return shape, [rand_comp(rng, s) for s in shape]


def _comp(rng, n, pz=0.2):
    return rand_comp_zeros(rng, n) if rng.random() < pz else rand_comp(rng, n)


COARSEN_CLASSES = ["max-multiple-others-not", "only-first-misaligned", "only-last-misaligned", "all-multiples",
                   "first-multiple-others-not", "pair-compensating", "random", "factor-exceeds-axis"]


def _coarsen_chunks(rng, cls, d):
    """A chunk tuple of the given alignment class w.r.t. the factor d (what an alignment test that looks at one block,
    at the largest block or at the first block only would get wrong)."""
    mult = lambda hi=3: d * rng.randint(1, hi)
    nonmult = lambda hi: rng.choice([c for c in range(1, hi + 1) if c % d] or [1])
    if cls == "max-multiple-others-not":
        big = d * rng.randint(1, 3)
        others = [rng.randint(1, big) for _ in range(rng.randint(1, 4))]
        others[rng.randrange(len(others))] = nonmult(big)
        cs = others[:]
        cs.insert(rng.randint(0, len(cs)), big)
    elif cls == "only-first-misaligned":
        cs = [nonmult(3 * d)] + [mult() for _ in range(rng.randint(1, 3))]
    elif cls == "only-last-misaligned":
        cs = [mult() for _ in range(rng.randint(1, 3))] + [nonmult(3 * d)]
    elif cls == "all-multiples":
        cs = [mult() for _ in range(rng.randint(1, 4))]
    elif cls == "first-multiple-others-not":      # the first chunk is a multiple but not the largest chunk
        cs = [d] + [nonmult(3 * d) for _ in range(rng.randint(1, 3))]
        cs[rng.randint(1, len(cs) - 1)] = d + nonmult(2 * d)
    elif cls == "pair-compensating":
        a = nonmult(2 * d)
        cs = [mult() for _ in range(rng.randint(0, 2))] + [a] + [mult() for _ in range(rng.randint(0, 2))] + [d - a % d] + \
             [mult() for _ in range(rng.randint(0, 1))]
    elif cls == "factor-exceeds-axis":
        cs = rand_comp(rng, rng.randint(1, max(1, d - 1)))
    else:
        cs = rand_comp(rng, rng.randint(1, 14))
    return cs


def _gen_coarsen1d(ctx, count):
    rng = ctx.rng
    for i in range(count):
        cls = COARSEN_CLASSES[i % len(COARSEN_CLASSES)]
        d = rng.randint(2, 5) if cls != "random" else rng.randint(1, 5)
        cs = _coarsen_chunks(rng, cls, d)
        exact = rng.random() < 0.5
        if exact and sum(cs) % d and cls not in ("factor-exceeds-axis",):
            # complete the total to a multiple with one more (misaligned) chunk so that trim_excess=False is legal
            cs.insert(rng.randint(0, len(cs)), d - sum(cs) % d)
        if rng.random() < 0.2:
            cs.insert(rng.randint(0, len(cs)), 0)
        n = sum(cs)
        trim = True if (n % d and rng.random() < 0.85) else rng.random() < 0.4
        yield "coarsen1d", {"x": [rng.randint(0, 9) for _ in range(n)], "chunks": cs, "d": d, "trim": trim,
                            "red": rng.choice(["sum", "sum", "sum", "max", "min"])}


def _gen_coarsen_nd(ctx, count):
    rng = ctx.rng
    for i in range(count):
        nd = rng.choice([1, 2, 2, 2, 2, 2, 3])
        axes, chunks = {}, []
        for ax in range(nd):
            if rng.random() < 0.8 or ax == 0:
                d = rng.randint(1, 4)
                cls = rng.choice(COARSEN_CLASSES[:7])
                cs = _coarsen_chunks(rng, cls, d)
                if len(cs) > 4:
                    cs = cs[:4]
                if sum(cs) > 9:
                    cs = rand_comp(rng, rng.randint(1, 9))
                if rng.random() < 0.6 and sum(cs) % d:
                    cs.append(d - sum(cs) % d)
                axes[str(ax)] = d
            else:
                cs = _comp(rng, rng.randint(1, 5), 0.15)
            chunks.append(cs)
        shape = [sum(c) for c in chunks]
        trim = rng.random() < (0.8 if any(shape[int(a)] % dv for a, dv in axes.items()) else 0.4)
        yield "misc", {"op": "coarsen", "x": [rng.randint(0, 9) for _ in range(math.prod(shape))], "shape": shape, "chunks": chunks,
                       "axes": axes, "red": rng.choice(["sum", "sum", "sum", "max", "min"]), "trim": trim}


def _gen_aligned_random(ctx, count):
    rng = ctx.rng
    for _ in range(count):
        m = rng.randint(1, 12)
        css = []
        for _ in range(40):
            k = rng.choice([1, 2, 3, 5, 8, 12, 16, 16, 20, 30])
            cs = [rng.choice([0, rng.randint(1, 3 * m), m * rng.randint(1, 3), rng.randint(1, 40)]) for _ in range(k)]
            css.append(cs)
        yield "aligned", {"m": m, "chunks": css}


def _edges(rng, lo=0, hi=10):
    k = rng.randint(1, 4)
    e = sorted(rng.sample(range(lo, hi + 1), k + 1))
    if rng.random() < 0.1:                      # a zero-width bin (NumPy accepts equal consecutive edges)
        j = rng.randrange(len(e))
        e.insert(j, e[j])
    return e


def _on_edges(rng, n, edges, lo=0, hi=10):
    return [rng.choice(edges) if rng.random() < 0.4 else rng.randint(lo - 1 if lo else 0, hi + 1) for _ in range(n)]


def _gen_histdd(ctx, count):
    rng = ctx.rng
    for _ in range(count):
        if rng.random() < 0.55:
            n = rng.randint(0 if rng.random() < 0.08 else 1, 14)
            ex, ey = _edges(rng), _edges(rng)
            xc = _comp(rng, n, 0.25)
            yc = xc if rng.random() < 0.88 else _comp(rng, n, 0.25)
            yield "histdd", {"form": "xy", "x": _on_edges(rng, n, ex), "y": _on_edges(rng, n, ey), "xchunks": xc, "ychunks": list(yc),
                             "edges": [ex, ey]}
        else:
            D = rng.randint(1, 3)
            n = rng.randint(0 if rng.random() < 0.08 else 1, 10)
            edges = [_edges(rng) for _ in range(D)]
            rows = [[v for ed in edges for v in _on_edges(rng, 1, ed)] for _ in range(n)]
            yield "histdd", {"form": "rows", "rows": rows, "chunks": _comp(rng, n, 0.25), "edges": edges}


def _gen_digitize1d(ctx, count):
    rng = ctx.rng
    for _ in range(count):
        k = rng.randint(0 if rng.random() < 0.1 else 1, 5)
        bins = sorted(rng.randint(0, 9) for _ in range(k))
        r = rng.random()
        if r < 0.38:
            bins.reverse()
        elif r < 0.45 and k >= 3:
            rng.shuffle(bins)
        n = rng.randint(0 if rng.random() < 0.08 else 1, 12)
        x = [rng.choice(bins) if bins and rng.random() < 0.5 else rng.randint(0, 10) for _ in range(n)]
        yield "digitize1d", {"x": x, "bins": bins, "right": rng.random() < 0.5, "chunks": _comp(rng, n, 0.25)}


def _gen_compress1d(ctx, count):
    rng = ctx.rng
    for _ in range(count):
        n = rng.randint(1, 12)
        r = rng.random()
        k = n if r < 0.35 else (rng.randint(n + 1, n + 3) if r < 0.41 else rng.randint(0 if rng.random() < 0.15 else 1, n))
        yield "compress1d", {"x": [rng.randint(0, 9) for _ in range(n)], "chunks": _comp(rng, n, 0.2),
                             "cond": [rng.random() < 0.5 for _ in range(k)], "cchunks": _comp(rng, k, 0.2)}


def _gen_ravel(ctx, count):
    rng = ctx.rng
    for _ in range(count):
        dims = [rng.randint(1, 4) for _ in range(rng.randint(1, 3))]
        n = rng.randint(0 if rng.random() < 0.08 else 1, 6)
        mode = rng.choice(["raise", "raise", "raise", "wrap", "clip"])
        wild = mode != "raise" or rng.random() < 0.15
        idx = [rng.randint(-6, 8) if wild and rng.random() < 0.5 else rng.randrange(dm) for dm in dims for _ in range(n)]
        yield "ravel", {"dims": dims, "idx": idx, "order": rng.choice(["C", "F"]), "mode": mode,
                        "form": "tuple" if rng.random() < 0.25 else "stack", "chunks0": rand_comp(rng, len(dims)),
                        "chunks1": _comp(rng, n, 0.2), "scalar_dims": rng.random() < 0.5}


def _gen_unravel(ctx, count):
    rng = ctx.rng
    for _ in range(count):
        dims = [rng.randint(1, 4) for _ in range(rng.randint(1, 3))]
        n = rng.randint(0 if rng.random() < 0.08 else 1, 8)
        p = math.prod(dims)
        idx = [rng.randrange(p) for _ in range(n)]
        if n and rng.random() < 0.12:
            idx[rng.randrange(n)] = rng.choice([p, p + 1, -1])
        yield "unravel", {"dims": dims, "idx": idx, "order": rng.choice(["C", "F"]), "chunks": _comp(rng, n, 0.2)}


def _gen_explicit(ctx):
    """Fixed inputs: empty arrays / axes and the inputs of the defects repaired so far."""
    yield "searchsorted", {"a": [], "achunks": [0], "v": [1, 2], "vchunks": [[1, 1]], "side": "left"}
    yield "searchsorted", {"a": [1, 2], "achunks": [1, 1], "v": [], "vshape": [0], "vchunks": [[0]], "side": "right"}
    yield "unique", {"x": [], "shape": [0], "chunks": [[0]], "return_index": True, "return_counts": True}
    yield "unique", {"x": [], "shape": [0, 3], "chunks": [[0], [2, 1]], "return_inverse": True}
    yield "histogram", {"x": [], "shape": [0], "chunks": [[0]], "edges": [0, 2, 4]}
    yield "histogram", {"x": [], "shape": [2, 0], "chunks": [[1, 1], [0]], "bins": 3, "range": [0, 5]}
    for op in ("nonzero", "argwhere", "flatnonzero", "count_nonzero"):
        yield "nonzero", {"op": op, "x": [], "shape": [0, 3], "chunks": [[0], [2, 1]]}
        yield "nonzero", {"op": op, "x": [], "shape": [0], "chunks": [[0]]}
    yield "misc", {"op": "isin", "x": [], "shape": [0, 2], "chunks": [[0], [1, 1]], "t": [1, 2], "tchunks": [1, 1]}
    yield "misc", {"op": "isin", "x": [1, 2], "shape": [2], "chunks": [[1, 1]], "t": [], "tchunks": [0]}
    yield "misc", {"op": "digitize", "x": [], "shape": [0, 2], "chunks": [[0], [1, 1]], "bins": [1, 2], "right": False}
    yield "misc", {"op": "compress", "x": [], "shape": [0, 2], "chunks": [[0], [1, 1]], "cond": [True, False], "axis": 1, "cchunks": [2]}
    # empty index arrays of every rank (unravel_index kept the shape only for 1-d ones)
    for ishape, ch in (([0], [[0]]), ([0, 3], [[0], [2, 1]]), ([2, 0], [[1, 1], [0]])):
        for order in "CF":
            yield "misc", {"op": "unravel_index", "dims": [2, 3], "ishape": ishape, "idx": [], "order": order, "chunks": ch}
    # coarsen along an empty axis / with a factor larger than the axis (empty result axis)
    for trim in (False, True):
        yield "coarsen1d", {"x": [], "chunks": [0], "d": 2, "trim": trim}
        yield "coarsen1d", {"x": [], "chunks": [0, 0], "d": 3, "trim": trim}
        yield "misc", {"op": "coarsen", "x": [], "shape": [0, 4], "chunks": [[0], [1, 3]], "axes": {"0": 2, "1": 2}, "red": "sum", "trim": trim}
    yield "coarsen1d", {"x": [0, 1, 2], "chunks": [1, 2], "d": 4, "trim": True}
    yield "misc", {"op": "coarsen", "x": list(range(6)), "shape": [3, 2], "chunks": [[1, 2], [1, 1]], "axes": {"0": 4, "1": 2},
                   "red": "sum", "trim": True}


def _gen_exhaustive(ctx):
    rng = ctx.rng
    th = ctx.thorough()
    # aligned_coarsen_chunks at function level: every chunking of n against every factor 1..n+1 (one case per (n, factor))
    top = 12 if th else 9
    for n in range(1, top + 1):
        for m in range(1, n + 2):
            yield "aligned", {"n": n, "m": m}
            if n <= top - 2:
                yield "aligned", {"n": n, "m": m, "zeros": True}
    # da.coarsen at API level: every chunking of short axes, every factor, with and without trim_excess
    for n in range(1, (7 if th else 5) + 1):
        for cs in comps(n):
            for d in range(1, n + 2):
                for trim in (False, True):
                    yield "coarsen1d", {"x": [(3 * i + 1) % 10 for i in range(n)], "chunks": list(cs), "d": d, "trim": trim}
    # every chunking of short arrays for the merge routines
    top = 4 if not th else 6
    for n in range(1, top + 1):
        for cs in comps(n):
            a = sorted(rng.randint(0, 3) for _ in range(n))
            yield "searchsorted", {"a": a, "achunks": list(cs), "v": list(range(0, 5)), "vchunks": [[2, 3]], "side": "left"}
            yield "searchsorted", {"a": a, "achunks": list(cs), "v": list(range(0, 5)), "vchunks": [[5]], "side": "right"}
            x = [rng.randint(0, 3) for _ in range(n)]
            yield "unique", {"x": x, "chunks": [list(cs)], "return_index": True, "return_counts": True}
            yield "bincount", {"x": x, "chunks": list(cs)}
            yield "nonzero", {"op": "flatnonzero", "x": [v % 2 * v for v in x], "shape": [n], "chunks": [list(cs)]}
            yield "digitize1d", {"x": x, "bins": [1, 2, 2], "right": bool(n % 2), "chunks": list(cs)}
            yield "compress1d", {"x": x, "chunks": list(cs), "cond": [v % 2 == 1 for v in x][: max(1, n - 1)],
                                 "cchunks": list(comps(max(1, n - 1))[len(cs) % len(comps(max(1, n - 1)))])}
            yield "histdd", {"form": "xy", "x": x, "y": list(reversed(x)), "xchunks": list(cs), "ychunks": list(cs),
                             "edges": [[0, 1, 3], [0, 2, 3]]}
    # every flat index of small shapes, both orders (round trip on the real code inside the case)
    dimss = [list(t) for k in (1, 2) for t in itertools.product(range(1, 4), repeat=k)]
    if th:
        dimss += [list(t) for t in itertools.product(range(1, 4), repeat=3)] + [list(t) for t in itertools.product((4, 5), repeat=2)]
    for dims in dimss:
        p = math.prod(dims)
        for order in "CF":
            yield "unravel", {"dims": dims, "idx": list(range(p)), "order": order, "chunks": rand_comp(rng, p)}
            idx = [i for t in zip(*itertools.product(*[range(dm) for dm in dims])) for i in t]
            yield "ravel", {"dims": dims, "idx": idx, "order": order, "mode": "raise", "form": "stack",
                            "chunks0": rand_comp(rng, len(dims)), "chunks1": rand_comp(rng, p)}


def _interleave(gens):
    gens = list(gens)
    while gens:
        alive = []
        for g in gens:
            try:
                yield next(g)
                alive.append(g)
            except StopIteration:
                pass
        gens = alive


def generate(ctx):
    yield from _gen_explicit(ctx)
    # the structured coarsen stream comes first and is interleaved with everything else, so that a run cut short by the
    # deadline has still seen every alignment class
    yield from _interleave([
        _gen_exhaustive(ctx),
        _gen_coarsen1d(ctx, ctx.n(200, 2400)),
        _gen_coarsen_nd(ctx, ctx.n(110, 1300)),
        _gen_aligned_random(ctx, ctx.n(20, 250)),
        _gen_searchsorted(ctx, ctx.n(220, 2600)),
        _gen_bincount(ctx, ctx.n(170, 2000)),
        _gen_histogram(ctx, ctx.n(200, 2400)),
        _gen_histdd(ctx, ctx.n(140, 1700)),
        _gen_unique(ctx, ctx.n(230, 2600)),
        _gen_unique_internal(ctx, ctx.n(150, 1500)),
        _gen_nonzero(ctx, ctx.n(180, 2200)),
        _gen_digitize1d(ctx, ctx.n(110, 1300)),
        _gen_compress1d(ctx, ctx.n(110, 1300)),
        _gen_ravel(ctx, ctx.n(110, 1300)),
        _gen_unravel(ctx, ctx.n(80, 1000)),
        _gen_misc(ctx, ctx.n(200, 2400)),
        # extension round (own seed-derived streams: the streams above are unchanged)
        _c27x.gen_explicit(),
        _c27x.gen_api(ctx, ctx.n(160, 2000)),
        _c27x.gen_internal(ctx, ctx.n(120, 1500)),
        _c27nd.gen_explicit(),
        _c27nd.gen_api(ctx, ctx.n(120, 1500)),
    ])


def _gen_searchsorted(ctx, count):
    rng = ctx.rng
    for _ in range(count):
        n = rng.randint(1, 16)
        hi = rng.choice([2, 4, 9, 30])
        a = sorted(rng.randint(0, hi) for _ in range(n))
        achunks = rand_comp_zeros(rng, n) if rng.random() < 0.3 else rand_comp(rng, n)
        vshape = [rng.randint(1, 5) for _ in range(rng.randint(1, 2))]
        nv = math.prod(vshape)
        # needles: values sitting at the chunk boundaries of `a`, just outside the range, anything
        bnd, off = [], 0
        for c in achunks:
            if c:
                bnd += [a[off], a[off + c - 1]]
            off += c
        v = [rng.choice(bnd) if bnd and rng.random() < 0.45 else rng.randint(-1, hi + 1) for _ in range(nv)]
        inp = {"a": a, "achunks": achunks, "v": v, "vshape": vshape, "vchunks": [rand_comp(rng, s) for s in vshape],
               "side": rng.choice(["left", "right"]), "dtype": rng.choice(["i8", "i8", "f8"])}
        if inp["dtype"] == "f8" and rng.random() < 0.5:       # a run of NaN at the end of `a` (and NaN needles)
            k = rng.randint(1, min(4, n))
            inp["anan"] = [False] * (n - k) + [True] * k
            inp["vnan"] = [rng.random() < 0.25 for _ in range(nv)]
        yield "searchsorted", inp


def _gen_bincount(ctx, count):
    rng = ctx.rng
    for _ in range(count):
        n = rng.randint(0 if rng.random() < 0.05 else 1, 20)
        x = [rng.randint(0, rng.choice([1, 3, 8])) for _ in range(n)]
        inp = {"x": x, "chunks": (rand_comp_zeros(rng, n) if rng.random() < 0.2 else rand_comp(rng, n)) if n else [0],
               "minlength": rng.choice([0, 0, 3, 12]), "split_every": rng.choice([None, None, 2, 3])}
        if rng.random() < 0.4:
            inp["weights"] = [rng.randint(-3, 6) / rng.choice([1, 2, 4]) for _ in range(n)]
        yield "bincount", inp


def _gen_histogram(ctx, count):
    rng = ctx.rng
    for _ in range(count):
        r = rng.random()
        if r < 0.12:
            n = rng.randint(1, 14)
            cs = rand_comp(rng, n)
            bins = rng.choice([rng.randint(1, 4), [rng.randint(1, 4), rng.randint(1, 4)]])
            inp = {"op": "2d", "x": [rng.randint(0, 9) for _ in range(n)], "y": [rng.randint(0, 9) for _ in range(n)],
                   "chunks": [cs], "bins": bins, "range": [[0, 10], [0, 10]] if rng.random() < 0.9 else [[2, 7], [1, 9]],
                   "dtype": rng.choice(["i8", "f8"])}
            if rng.random() < 0.3:
                inp["weights"] = [rng.randint(0, 5) / 2 for _ in range(n)]
            if rng.random() < 0.2:
                inp["density"] = True
            yield "histogram", inp
            continue
        shape, chunks = _nd(rng, 2, 8) if rng.random() < 0.3 else (None, None)
        if shape is None:
            n = rng.randint(1, 20)
            shape, chunks = [n], [rand_comp_zeros(rng, n) if rng.random() < 0.15 else rand_comp(rng, n)]
        n = math.prod(shape)
        inp = {"shape": shape, "chunks": chunks}
        if rng.random() < 0.55:
            inp["edges"] = _edges(rng, 0, 13)
            # values exactly on the edges (the closed last one included), so that they fall on both sides of chunk boundaries
            inp["x"] = [rng.choice(inp["edges"]) if rng.random() < 0.4 else rng.randint(0, 14) for _ in range(n)]
        else:
            lo = rng.randint(0, 5)
            inp["bins"], inp["range"] = rng.randint(1, 6), [lo, lo + rng.randint(1, 10)]
            inp["dtype"] = rng.choice(["i8", "f8"])
            inp["x"] = [rng.choice(inp["range"]) if rng.random() < 0.25 else rng.randint(0, 12) for _ in range(n)]
        if rng.random() < 0.3:
            inp["weights"] = [rng.randint(0, 5) / 2 for _ in range(n)]
        if rng.random() < 0.2:
            inp["density"] = True
        yield "histogram", inp


def _gen_unique(ctx, count):
    rng = ctx.rng
    for _ in range(count):
        if rng.random() < 0.25:
            shape, chunks = _nd(rng, 2, 5)
        else:
            n = rng.randint(1, 16)
            shape, chunks = [n], [_comp(rng, n, 0.15)]
        n = math.prod(shape)
        hi = rng.choice([2, 5, 20])
        if rng.random() < 0.4:      # runs of equal values, so that duplicates straddle chunk boundaries
            x, v = [], rng.randint(0, hi)
            while len(x) < n:
                x += [v] * rng.randint(1, 4)
                v = rng.randint(0, hi)
            x = x[:n]
        else:
            x = [rng.randint(0, hi) for _ in range(n)]
        inp = {"x": x, "shape": shape, "chunks": chunks}
        r = rng.random()
        if r < 0.4:
            inp.update(return_index=True, return_counts=True)
        else:
            for k in ("return_index", "return_inverse", "return_counts"):
                if rng.random() < 0.4:
                    inp[k] = True
        if rng.random() < 0.2:
            if rng.random() < 0.5:
                inp["nan"] = [rng.random() < 0.3 for _ in range(n)]
            else:               # a run of NaN
                a = rng.randrange(n)
                inp["nan"] = [a <= i < a + 3 for i in range(n)]
        elif rng.random() < 0.2:
            inp["dtype"] = "f8"
        yield "unique", inp


def _gen_unique_internal(ctx, count):
    rng = ctx.rng
    for _ in range(count):
        k = rng.randint(1, 12)
        yield "unique_internal", {"rows": [[rng.randint(0, 5), rng.randint(0, 40), rng.randint(1, 4)] for _ in range(k)]}


def _gen_nonzero(ctx, count):
    rng = ctx.rng
    for _ in range(count):
        op = rng.choice(["nonzero", "argwhere", "flatnonzero", "flatnonzero", "count_nonzero"])
        shape, chunks = _nd(rng) if (op != "flatnonzero" or rng.random() < 0.4) else (None, None)
        if shape is None:
            n = rng.randint(1, 14)
            shape, chunks = [n], [rand_comp(rng, n)]
        n = math.prod(shape)
        inp = {"op": op, "x": [rng.choice([0, 0, 1, 2, -3]) for _ in range(n)], "shape": shape, "chunks": chunks,
               "dtype": rng.choice(["i8", "i8", "f8", "bool"])}
        if op == "count_nonzero":
            inp["axis"] = rng.choice([None, rng.randrange(len(shape)), sorted(rng.sample(range(len(shape)), rng.randint(1, len(shape))))])
        yield "nonzero", inp


def _gen_misc(ctx, count):
    rng = ctx.rng
    # --- 1-d coarsen with chunks aligned to the factor (the case `coarsen_den` is about) -------------------------
    for _ in range(max(1, count // 8)):
        dv = rng.randint(1, 4)
        chunks = [dv * c for c in rand_comp(rng, rng.randint(1, 6))]
        n = sum(chunks)
        yield "misc", {"op": "coarsen", "x": [rng.randint(0, 9) for _ in range(n)], "shape": [n], "chunks": [chunks],
                       "axes": {"0": dv}, "red": "sum", "trim": rng.random() < 0.5}
    for _ in range(count):
        op = rng.choice(["isin", "isin", "digitize", "ravel_multi_index", "unravel_index", "compress", "compress", "extract"])
        if op == "isin":
            shape, chunks = _nd(rng)
            k = rng.randint(1, 8)
            yield "misc", {"op": op, "x": [rng.randint(0, 9) for _ in range(math.prod(shape))], "shape": shape, "chunks": chunks,
                           "t": [rng.randint(0, 9) for _ in range(k)], "tchunks": _comp(rng, k, 0.2), "invert": rng.random() < 0.3}
        elif op == "digitize":
            shape, chunks = _nd(rng)
            bins = sorted(set(rng.randint(0, 12) for _ in range(rng.randint(1, 5))))
            x = [rng.choice(bins) if rng.random() < 0.3 else rng.randint(0, 12) for _ in range(math.prod(shape))]
            yield "misc", {"op": op, "x": x, "shape": shape, "chunks": chunks,
                           "bins": bins, "right": rng.random() < 0.5,
                           "decreasing": rng.random() < 0.25, "dtype": rng.choice(["i8", "f8"]),
                           "nan": [rng.random() < 0.2 for _ in x] if rng.random() < 0.5 else None}
        elif op == "ravel_multi_index":
            dims = [rng.randint(1, 5) for _ in range(rng.randint(1, 3))]
            ishape = [rng.randint(1, 4) for _ in range(rng.randint(1, 2))]
            idx = [rng.randrange(dm) for dm in dims for _ in range(math.prod(ishape))]
            yield "misc", {"op": op, "dims": dims, "ishape": ishape, "idx": idx, "order": rng.choice(["C", "F"]),
                           "chunks": [rand_comp(rng, len(dims))] + [rand_comp(rng, s) for s in ishape]}
        elif op == "unravel_index":
            dims = [rng.randint(1, 5) for _ in range(rng.randint(1, 3))]
            ishape = [rng.randint(1, 4) for _ in range(rng.randint(1, 2))]
            yield "misc", {"op": op, "dims": dims, "ishape": ishape, "idx": [rng.randrange(math.prod(dims)) for _ in range(math.prod(ishape))],
                           "order": rng.choice(["C", "F"]), "chunks": [rand_comp(rng, s) for s in ishape]}
        else:
            shape, chunks = _nd(rng)
            n = math.prod(shape)
            ax = rng.choice([None, rng.randrange(len(shape))])
            ln = n if ax is None else shape[ax]
            k = rng.randint(1, ln)
            dask_cond = rng.random() < 0.5
            cond = [rng.random() < 0.5 for _ in range(k if op == "compress" else n)]
            if op == "compress" and not dask_cond and rng.random() < 0.25:
                # a NumPy condition longer than the axis: fine while the surplus entries are False
                cond = [rng.random() < 0.5 for _ in range(ln)] + [rng.random() < 0.15 for _ in range(rng.randint(1, 3))]
                k = len(cond)
            inp = {"op": op, "x": [rng.randint(0, 9) for _ in range(n)], "shape": shape, "chunks": chunks,
                   "cond": cond, "axis": ax, "dask_cond": dask_cond, "cchunks": rand_comp(rng, k)}
            if op == "extract" and rng.random() < 0.5:
                inp["cond_chunks"] = [_comp(rng, sh, 0.15) for sh in shape]
            yield "misc", inp
