"""C16 — graph manipulation (clone / bind / checkpoint / wait_on) keeps values and changes only keys and ordering.

Model:    lean/DaskModel/Model/Rename.lean
            renameNode (= GraphNode.substitute-based key regeneration), cloneValue (= Layer.clone.clone_value), bindNode;
            cloneSpecLayer / cloneLegacyLayer  = the whole loop of `Layer.clone` (both branches, with `bound`);
            blockwiseClone                     = `Blockwise.clone` (indices / numblocks / output / task wrapper / bound);
            cloneLoop, verbLoop, bindOne       = `_bind_one`'s two worklists over layer names, new_layers / new_deps;
            checkpointReduce / checkpointReduce? = the aggregation loop of `_checkpoint_one` (the latter with an explicit
                                                 "fuel exhausted" result)
Theorems: lean/DaskModel/Props/C16.lean (helper lemmas in Lemmas/Rename*.lean)
Tie:      function level:
            `layer`           MaterializedLayer.clone(keys, seed, bind_to) on legacy and task-spec layers vs clone_legacy_layer /
                              clone_spec_layer (layer and `bound`; the renaming is the real clone_key, handed over as a finite map)
            `bw_layer`        Blockwise.clone on map_blocks / blockwise / elemwise layers with Delayed / Item / 0-d / array /
                              literal arguments x omit subsets vs bw_clone (new indices, numblocks, output, task key, wrapper, bound)
            `bind_layers`     layers / dependencies of the HighLevelGraph returned by the real bind / clone on DAG-shaped
                              collections (arrays, bags, delayed; omit subsets incl. the child; parents inside / outside the
                              child's graph; assume_layers) vs bind_one (is_bound per layer from the real layer.clone), two pop
                              orders, + HighLevelGraph.validate(), values, statement-level oracles
            `checkpoint_tree` reduce layer of checkpoint(bag, split_every) vs checkpoint_reduce2, tree shape
          API level (`api`): arrays, bags, delayed trees, Blockwise layers with collection arguments, dask DataFrames through
            clone (omit / seeds / assume_layers), bind (parents, omit), wait_on, checkpoint: values, key disjointness, and the
            happens-before relation read from a recording scheduler callback (sync and threaded).
"""
from __future__ import annotations

import json

from sexp import Sym
from props._graph_terms import FUNCS, build, gen_legacy_graph, jsexp, node_sexp, to_sexp

PROP = "C16"
READY = True
DRIVER = "dm_graph"
LEAN_MODULES = ["DaskModel.Props.C16", "DaskModel.Props.C16xCloneKeys"]
LEVEL_TEXT = ("Lean 4 theorems, for all inputs, over executable models that are diffed against the real functions. "
              "(1) Key regeneration: clone_values (injective renaming rho: rho(k) denotes in the renamed graph what k denotes in the "
              "original, through aliases, TaskRefs, nested tasks/containers/kwargs), clone_keys_disjoint, bind_values / bind_waits. "
              "(2) Layer.clone as a whole (cloneSpecLayer / cloneLegacyLayer): layer_clone_values and layer_clone_bound_values (relative to "
              "a finite key universe on which the applied renaming is injective -- derived from clone_key injective + fresh -- the cloned "
              "layer computes under the regenerated keys exactly the original values, with and without blocker), layer_clone_waits (while the "
              "blocker has no value no regenerated key of a bound layer can be evaluated, at any depth), leaves wrapped in chunks.bind / "
              "inner entries renamed only / entries outside keys untouched, bound iff a leaf was wrapped; legacy branch: legacy_clone_values "
              "(clone_value keeps the value of every legacy object, and the cloned layer computes the original values fuel for fuel, under "
              "the statement's legacy semantics; no blocker), clone_value's is_leaf = no reference in the sense of keys_in_tasks, bound iff, "
              "a wrapped leaf lists the blocker. "
              "(3) _bind_one's bookkeeping over layer names (bindOne, every pop order of the two Python sets): terminates without KeyError "
              "with fuel #child layers + 2*#edges, result is a well-formed HighLevelGraph (same duplicate-free keys in layers and "
              "dependencies, no dangling dependency), a layer is regenerated iff reachable from the child's layers without entering an omitted "
              "layer (the child's own layers always are), copied verbatim iff omitted-and-needed (transitively), new dependency sets = renamed "
              "regenerated deps + omitted deps + blocker iff bound, every bound layer depends on the checkpoint layer and (acyclic graph, "
              "leaves bound) the checkpoint is reachable from every regenerated layer, only omitted / blocker layers keep original names, "
              "result independent of pop order and fuel. "
              "(4) Blockwise.clone (blockwiseClone): bound iff blocker given and is_leaf, the wrapper task reads the appended blocker "
              "argument, the names the rewritten layer refers to are exactly _bind_one's new dependency set, it refers to the regenerated "
              "name of an input iff that input is regenerated. "
              "(5) checkpoint: every input key feeds through the split_every tree into the final node (any fuel), chunks.checkpoint computes "
              "None, the loop's fuel len+1 suffices and the result is fuel-independent for split_every=False or >=2, every inner node has "
              "exactly split_every inputs and the final one at most, split_every=1 would not terminate (why checkpoint raises). "
              "PARTIAL / validated only: the value of a *legacy* leaf wrapped as (chunks.bind, value, blocker) (the legacy model leaves "
              "chunks.bind uninterpreted; proved on the task-spec side), the computation of clone_keys / omit_layers in _bind_one (incl. assume_layers=False), that the per-layer is_bound handed to bindOne "
              "is what Layer.clone returns (taken from the real method), materialisation of the rewritten Blockwise layer, "
              "rebuild/rename of the collection, wait_on's layers -- validated through the function-level diffs, HighLevelGraph.validate(), "
              "values, key sets and execution logs; happens-before on real schedulers relies on C02. "
              "Known findings: a child listed in omit gives an uncomputable result; clone/bind/wait_on reject dask DataFrames (rebuild has no "
              "rename=); bind with a DataFrame parent can fail in the array optimizer; a bound bag partition read twice loses elements under "
              "bag optimisation.")
LEVEL_NOTE = ("Trusted: Lean kernel + standard axioms; clone_key/tokenize treated as an injective fresh renaming on the compared names "
              "(the real renaming is handed to the model as a finite map; freshness is checked per case and cases violating it are only "
              "diffed, not judged); hand-written models tied to /repo by function-level diffs of MaterializedLayer.clone, Blockwise.clone, "
              "the layers/dependencies of real bind/clone results and checkpoint's reduce layer; API-level runs on arrays, bags, delayed "
              "trees, Blockwise layers with collection/literal arguments and DataFrames with recording callbacks (sync and threaded). "
              "Fixed in /repo: 52ea555 (Layer.clone ignored task-spec nodes), 1aebbe7 (Alias.substitute key), b418ebb (Blockwise.clone "
              "renamed literal arguments equal to a layer name: clone changed values), d1ed5a6 (assume_layers=False with omit renamed the "
              "omit collections' layers: uncomputable results); the dict-value divergence of Layer.clone was resolved by C08's ca6daad."
              " Section `history`: several clone/bind/wait_on/checkpoint calls in sequence on ONE child object with "
              "varying omit sets; all oracles and input purity (cached external-key set, layer keys, dependencies of the child, "
              "the omitted collections and the parents) after every call.")
TECHNIQUE = ("Lean 4 proof (renaming lemmas relative to a finite universe, worklist-loop invariants for every pop order with a fuel measure, "
             "reachability characterisation of regenerated/verbatim layers, aggregation-tree shape) + differential correspondence at "
             "function and API level + execution logs")
ASSUMPTIONS = ["clone_key(k, seed) is injective and fresh on the layer names / keys of the compared graphs (tokenize is treated as "
               "collision-free; checked per case)",
               "a layer of the child's graph is abstracted to (dependency names, is_bound as returned by Layer.clone); layers and "
               "dependencies of a HighLevelGraph have the same keys (checked per case)",
               "where the blocker's graph and the child's graph share a layer name they are the same layer (needed only for "
               "bind_one_verbatim_iff / order independence)",
               "happens-before is observed on the synchronous and threaded schedulers through pretask/posttask callbacks"]
CASE_TIMEOUT_S = 30


def _clone_keyable(j):
    return isinstance(j, str) or (isinstance(j, dict) and "t" in j and j["t"] and isinstance(j["t"][0], str))


def case_layer(ctx, inp):
    """MaterializedLayer.clone on a legacy layer and on its task-spec conversion"""
    from dask._task_spec import convert_legacy_graph
    from dask.base import clone_key
    from dask.graph_manipulation import chunks
    from dask.highlevelgraph import MaterializedLayer
    items = [kv for kv in inp["graph"] if _clone_keyable(kv[0])]
    okkeys = {json.dumps(k, sort_keys=True) for k, _ in items}
    # drop references to keys that cannot be cloned (ints): treat them as literals by removing those entries
    dsk = {build(k): build(v) for k, v in items}
    if len(dsk) != len(items) or not dsk:
        return
    allkeys = list(dsk)
    sel = [allkeys[i % len(allkeys)] for i in inp["sel"]] or allkeys
    keys = set(sel)
    seed = inp["seed"]
    bind_to = inp.get("bind")
    rho = [[to_sexp(k), to_sexp(clone_key(k, seed))] for k in allkeys]
    bsex = Sym("nobind") if bind_to is None else bind_to
    FUNCS_BIND = chunks.bind
    # legacy layer
    new, bound = MaterializedLayer(dict(dsk)).clone(keys=set(keys), seed=seed, bind_to=bind_to)

    def sx(o):
        # chunks.bind is not one of the uninterpreted functions: encode it as fn 99
        if isinstance(o, tuple) and o and o[0] is FUNCS_BIND:
            return [Sym("t"), [Sym("fn"), 99]] + [sx(x) for x in o[1:]]
        if isinstance(o, tuple):
            if o and callable(o[0]) and not hasattr(o[0], "data"):
                return [Sym("t"), to_sexp(o[0])] + [sx(x) for x in o[1:]]
            return to_sexp(o)
        if isinstance(o, list):
            return [Sym("l")] + [sx(x) for x in o]
        if isinstance(o, dict):
            return [Sym("d")] + [[to_sexp(k), sx(v)] for k, v in o.items()]
        return to_sexp(o)
    impl = [[to_sexp(k), sx(v)] for k, v in dict(new).items()]
    model = ctx.lean(Sym("clone_legacy_layer"), [to_sexp(k) for k in keys], rho, bsex, [Sym("fn"), 99],
                     [[to_sexp(k), to_sexp(v)] for k, v in dsk.items()])
    ctx.eq("Layer.clone (legacy values): (layer, bound)", model, [impl, bool(bound)])
    if bound:
        ctx.branch("legacy-bound")
    if len(keys) < len(allkeys):
        ctx.branch("partial-key-set")
    # task-spec layer
    spec = convert_legacy_graph(dsk)
    new2, bound2 = MaterializedLayer(dict(spec)).clone(keys=set(keys), seed=seed, bind_to=bind_to)

    def nsx(n):
        from dask._task_spec import Task
        if isinstance(n, Task) and n.func is FUNCS_BIND:
            return [Sym("task"), [Sym("bindfirst")], [node_sexp(a) for a in n.args], []]
        return node_sexp(n)
    impl2 = [[to_sexp(k), nsx(v)] for k, v in dict(new2).items()]
    model2 = ctx.lean(Sym("clone_spec_layer"), [to_sexp(k) for k in keys], rho, bsex,
                      [[to_sexp(k), node_sexp(v)] for k, v in spec.items()])
    ctx.eq("Layer.clone (task-spec nodes): (layer, bound)", model2, [impl2, bool(bound2)])
    if bound2:
        ctx.branch("spec-bound")
    # property: with all keys cloned, the clone computes the same values under the regenerated keys
    if keys == set(allkeys) and bind_to is None:
        from dask.core import get
        for layer_new, what in ((dict(new), "legacy"), (dict(new2), "task-spec")):
            for k in allkeys:
                try:
                    a = to_sexp(get(dsk, k))
                except Exception:
                    continue
                try:
                    b = to_sexp(get(layer_new, clone_key(k, seed)))
                except Exception as e:
                    ctx.fail(f"cloned {what} layer cannot compute {clone_key(k, seed)!r}: {type(e).__name__}: {e}")
                    break
                if a != b:
                    # (used to be a known divergence: Layer.clone renames key-like values inside dicts, which the
                    # conversion did not evaluate -- resolved in /repo by ca6daad, dict values are part of the graph)
                    ctx.fail(f"cloned {what} layer computes a different value", observed=b, expected=a)
                    break
            if set(layer_new) & set(dsk):
                ctx.fail(f"cloned {what} layer shares keys with the original", observed=sorted(map(repr, set(layer_new) & set(dsk))))
        ctx.branch("full-clone-evaluated")


class _Log:
    def __init__(self):
        self.ev = []

    def cb(self):
        from dask.callbacks import Callback
        return Callback(pretask=lambda key, dsk, state: self.ev.append(("start", key)),
                        posttask=lambda key, result, dsk, state, id: self.ev.append(("end", key)))

    def pos(self, kind, key):
        for i, (k, kk) in enumerate(self.ev):
            if k == kind and kk == key:
                return i
        return None


def _mk_collection(spec):
    """JSON description -> dask collection (+ a function computing its reference value)"""
    import numpy as np
    kind = spec["kind"]
    if kind == "array":
        import dask.array as da
        x = da.from_array(np.arange(int(np.prod(spec["shape"]))).reshape(spec["shape"]), chunks=tuple(spec["chunks"]))
        for op in spec["ops"]:
            if op == "add":
                x = x + 1
            elif op == "T":
                x = x.T
            elif op == "sum":
                x = x.sum(axis=0) if x.ndim > 1 else x.cumsum(axis=0)
            elif op == "mul":
                x = x * x
            elif op == "getitem":       # materialized layer of task-spec nodes
                x = x[1:] if x.shape[0] > 1 else x[:1]
            elif op == "rechunk":
                x = x.rechunk(tuple(max(1, (c[0] + 1) // 2) for c in x.chunks))
            elif op == "ravel":
                x = x.ravel()
            elif op == "concat":
                import dask.array as da
                x = da.concatenate([x, x + 1])
        return x
    if kind == "bag":
        import dask.bag as db
        b = db.from_sequence(list(range(spec["n"])), npartitions=spec["np"])
        for op in spec["ops"]:
            if op == "add":
                b = b.map(_inc)
            elif op == "filter":
                b = b.filter(_even)
        return b
    if kind == "mapblocks":
        return _mk_mapblocks(spec)[0]
    if kind == "frame":
        from core import import_dd
        dd = import_dd()
        import pandas as pd
        pdf = pd.DataFrame({"a": list(range(spec["n"])), "b": [i % 3 for i in range(spec["n"])]})
        df = dd.from_pandas(pdf, npartitions=spec["np"])
        for op in spec["ops"]:
            if op == "assign":
                df = df.assign(c=df.a + 1)
            elif op == "mapp":
                df = df.map_partitions(_df_inc)
            elif op == "filter":
                df = df[df.a % 2 == 0]
            elif op == "series":
                df = df.a
                break
        return df
    from dask import delayed
    vals = [delayed(FUNCS[i % 6])(i) for i in range(spec["n"])]
    while len(vals) > 1:
        vals = [delayed(FUNCS[(len(vals) + j) % 6])(*vals[j:j + spec["fan"]]) for j in range(0, len(vals), spec["fan"])]
    return vals[0]


def _addx(blk, extra):
    return blk + extra


def _df_inc(part):
    return part + 1


def _addx3(blk, extra, lit):
    return blk + extra + (sum(map(ord, lit)) % 7 if isinstance(lit, str) else len(lit))


def _mk_extra(kind):
    """a non-array (or 0-d array) collection handed to a blockwise layer as an argument"""
    import numpy as np
    if kind == "delayed":
        from dask import delayed
        return delayed(abs)(-2)
    if kind == "item":
        import dask.bag as db
        return db.from_sequence([1, 2, 3], npartitions=2).sum()
    if kind == "count":
        import dask.bag as db
        return db.from_sequence([1, 2, 3, 4], npartitions=3).count()
    if kind == "0d":
        import dask.array as da
        return da.from_array(np.arange(3), chunks=2).sum()
    import dask.array as da      # "array": an ordinary array argument of matching length is built by the caller
    return None


def _mk_mapblocks(spec):
    """a Blockwise layer whose inputs are an array `x` and a second collection `extra` (Delayed, bag Item, 0-d array,
    or another array), built through map_blocks / blockwise / elemwise.  Returns (y, [x, extra])."""
    import dask.array as da
    x = _mk_collection(spec["base"])
    if x.ndim != 1:
        x = x.ravel()
    extra = _mk_extra(spec["extra"])
    if extra is None:
        extra = x * 2
    via = spec["via"]
    lit = spec.get("lit")
    if lit:
        # an additional *literal* argument (index None): a string equal to the name of the input layer, another string,
        # or a list (dask#8978) -- `Blockwise.clone` must leave it alone
        litv = x.name if lit == "name" else "zz" if lit == "str" else [1, 2]
        if via == "map_blocks":
            y = da.map_blocks(_addx3, x, extra, litv, dtype=x.dtype)
        else:
            eidx = "i" if spec["extra"] == "array" else "" if spec["extra"] == "0d" else None
            y = da.blockwise(_addx3, "i", x, "i", extra, eidx, litv, None, dtype=x.dtype)
        return y, [x, extra]
    if spec["extra"] == "array" or (via == "elemwise" and spec["extra"] == "0d"):
        y = x + extra if via == "elemwise" else da.map_blocks(_addx, x, extra, dtype=x.dtype) if via == "map_blocks" \
            else da.blockwise(_addx, "i", x, "i", extra, "i" if spec["extra"] == "array" else "", dtype=x.dtype)
    elif via == "blockwise" or via == "elemwise":
        y = da.blockwise(_addx, "i", x, "i", extra, "" if spec["extra"] == "0d" else None, dtype=x.dtype)
    else:
        y = x.map_blocks(_addx, extra, dtype=x.dtype)
    return y, [x, extra]


def _inc(v):
    return v + 1


def _even(v):
    return v % 2 == 0


def _value(c, **kw):
    import numpy as np
    v = c.compute(scheduler=kw.get("scheduler", "sync"), optimize_graph=kw.get("optimize_graph", True))
    if isinstance(v, np.ndarray):
        return ["nd", list(v.shape), v.ravel().tolist()]
    if hasattr(v, "to_numpy") and hasattr(v, "index"):      # pandas DataFrame / Series
        return ["pd", [str(c) for c in getattr(v, "columns", [getattr(v, "name", None)])], list(map(int, v.index)),
                v.to_numpy().tolist()]
    try:
        return to_sexp(v)
    except TypeError:
        return repr(v)


def _mk_omit(inp, ins=None):
    """omit = 'prefix': the child's own first stage (a strict prefix sharing layers with the child);
    'self': the child itself (degenerate: everything is omitted); None"""
    how = inp.get("omit")
    ch = inp["child"]
    if ch["kind"] == "mapblocks":
        if not isinstance(how, list) or not how:
            return None, None
        # the very objects the child was built from (a Delayed has a fresh random key every time it is created)
        return [ins[i] for i in how], "inputs"
    if not how or isinstance(how, list) or ch["kind"] in ("delayed", "frame"):
        return None, None
    if how == "self":
        return _mk_collection(ch), "self"
    if len(ch["ops"]) < 2:
        return None, None
    om = _mk_collection(dict(ch, ops=ch["ops"][:1]))
    if _okeys(om) == _okeys(_mk_collection(ch)):
        # the remaining operations are no-ops (e.g. ravel of a 1-d array): omit *is* the child
        return om, "self"
    return om, "prefix"


SIG_SELF = "{op}:child-listed-in-omit:cannot-compute"
SIG_DFPARENT = "bind:dataframe-parent:optimizer-KeyError"


def _guard(ctx, op, inp, how, fn):
    """run fn(); map the known failure classes to their signatures, anything else is a fresh failure
    (assume_layers=False with omit used to be one: repaired in /repo d1ed5a6)"""
    try:
        return True, fn()
    except Exception as e:
        sig = None
        if how == "self":
            sig = SIG_SELF.format(op=op)
        elif op == "bind" and isinstance(e, KeyError) and (inp.get("parent") or {}).get("kind") == "frame":
            sig = SIG_DFPARENT
        ctx.fail(f"{op} result cannot be computed: {type(e).__name__}: {str(e)[:120]}", sig=sig)
        return False, None


def _okeys(c):
    from dask.core import flatten
    return set(flatten(c.__dask_keys__()))


def _task_okeys(c):
    """output keys that are computed by a task (data keys are in the cache from the start: no pretask/posttask)"""
    from dask.core import istask
    g = c.__dask_graph__()
    return {k for k in _okeys(c) if istask(g[k])}


SIG_DF = "{op}:dataframe-collection:postpersist-rejects-rename"


def case_api(ctx, inp):
    """dask DataFrames (dask-expr collections): `checkpoint` works; `clone` / `bind` / `wait_on` hand `rename=` to the
    collection's rebuild function, which `FrameBase._postpersist` does not accept (known finding)"""
    if inp["child"]["kind"] != "frame" or inp["op"] == "checkpoint":
        return _case_api(ctx, inp)
    try:
        return _case_api(ctx, inp)
    except TypeError as e:
        if "rename" not in str(e):
            raise
        ctx.fail(f"{inp['op']} on a dask DataFrame raises TypeError: {str(e)[:100]}", sig=SIG_DF.format(op=inp["op"]))
        ctx.branch(inp["op"] + "-frame-rejected")


def _case_api(ctx, inp):
    import dask
    from dask.graph_manipulation import bind, checkpoint, clone, wait_on
    ins = None
    if inp["child"]["kind"] == "mapblocks":
        child, ins = _mk_mapblocks(inp["child"])
    else:
        child = _mk_collection(inp["child"])
    want = _value(child)
    op = inp["op"]
    seed = inp.get("seed")
    al = inp.get("assume_layers", True)
    sched = inp.get("scheduler", "sync")
    if op == "clone":
        omit, how = _mk_omit(inp, ins)
        c = clone(child, omit=omit, seed=seed, assume_layers=al)
        ok, got = _guard(ctx, "clone", inp, how, lambda: _value(c))
        if not ok:
            return
        if got != want:
            ctx.fail("clone changes the computed value", observed=got, expected=want)
        shared = _okeys(c) & _okeys(child)
        if shared and how != "self":
            ctx.fail("clone shares output keys with the original", observed=sorted(map(repr, shared)))
        gk_c, gk_o = set(c.__dask_graph__()), set(child.__dask_graph__())
        allowed = set()
        for o in (omit if isinstance(omit, list) else [omit] if omit is not None else []):
            allowed |= set(o.__dask_graph__())
        if (gk_c & gk_o) - allowed:
            ctx.fail("clone shares graph keys with the original outside omit", observed=sorted(map(repr, (gk_c & gk_o) - allowed))[:5])
        if omit is not None:
            ctx.branch("clone-omit-" + how)
        if inp["child"]["kind"] == "mapblocks":
            ctx.branch("clone-mapblocks-" + inp["child"]["extra"])
        if seed is not None:
            c2 = clone(child, omit=omit, seed=seed, assume_layers=al)
            if set(c2.__dask_graph__()) != gk_c:
                ctx.fail("clone is not deterministic for a fixed seed")
        ctx.branch("clone-" + inp["child"]["kind"])
        return
    parent = _mk_collection(inp["parent"])
    pkeys = _task_okeys(parent)
    log = _Log()
    if op == "checkpoint":
        cp = checkpoint(child, parent, split_every=inp.get("split_every"))
        with log.cb():
            v = cp.compute(scheduler=sched, optimize_graph=False)
        if v is not None:
            ctx.fail("checkpoint does not compute to None", observed=repr(v))
        fin = log.pos("start", cp.key)
        for k in _task_okeys(child) | _task_okeys(parent):
            e = log.pos("end", k)
            if e is None or fin is None or e > fin:
                ctx.fail("checkpoint ran before a chunk of its inputs was computed", observed=[repr(k), e, fin])
                break
        ctx.branch("checkpoint")
        return
    if op == "wait_on":
        c = wait_on(child, split_every=inp.get("split_every"))
        with log.cb():
            v = c.compute(scheduler=sched, optimize_graph=False)
        got = _value(c)
        if got != want:
            ctx.fail("wait_on changes the computed value", observed=got, expected=want)
        ends = [log.pos("end", k) for k in _task_okeys(child)] or [-1]
        starts = [log.pos("start", k) for k in _okeys(c)]
        if None in ends or None in starts or max(ends) > min(starts):
            ctx.fail("wait_on: a chunk of the result started before all chunks of the input were computed",
                     observed=[max([e for e in ends if e is not None] or [-1]), min([s for s in starts if s is not None] or [-1])])
        if _okeys(c) & _okeys(child):
            ctx.fail("wait_on shares output keys with the original")
        ctx.branch("wait_on-" + inp["child"]["kind"])
        return
    # bind
    omit, how = _mk_omit(inp, ins)
    b = bind(child, parent, omit=omit, seed=seed, assume_layers=al, split_every=inp.get("split_every"))

    def run():
        with log.cb():
            b.compute(scheduler=sched, optimize_graph=False)
        return _value(b)
    ok, got = _guard(ctx, "bind", inp, how, run)
    if not ok:
        return
    if got != want:
        ctx.fail("bind changes the computed value", sig=_lazify_sig("bind", b, child), observed=got, expected=want)
    if _okeys(b) & _okeys(child) and how != "self":
        ctx.fail("bind shares output keys with the original", observed=sorted(map(repr, _okeys(b) & _okeys(child)))[:5])
    missing_parents = [k for k in _okeys(parent) if k not in b.__dask_graph__()]
    if missing_parents:
        ctx.fail("bind: the parents' keys are not in the graph of the bound collection (nothing makes the child wait)",
                 observed=[repr(k) for k in missing_parents][:3])
        return
    pend = [log.pos("end", k) for k in pkeys]
    if None in pend:
        ctx.fail("bind: a parent chunk was never computed", observed=[repr(k) for k in pkeys if log.pos("end", k) is None][:3])
        return
    last_parent = max(pend) if pend else -1
    orig = set(child.__dask_graph__()) | set(parent.__dask_graph__())
    for o in (omit if isinstance(omit, list) else [omit] if omit is not None else []):
        orig |= set(o.__dask_graph__())
    regenerated = [k for k in b.__dask_graph__() if k not in orig and not str(k if not isinstance(k, tuple) else k[0]).startswith("checkpoint")]
    for k in regenerated:
        s = log.pos("start", k)
        if s is not None and s < last_parent:
            ctx.fail("bind: a regenerated task of the child started before all parents were computed",
                     observed=[repr(k), s, last_parent])
            break
    if not regenerated:
        ctx.fail("bind: nothing was regenerated")
    ctx.branch("bind-" + inp["child"]["kind"])
    if omit is not None:
        ctx.branch("bind-omit-" + how)
    if inp["child"]["kind"] == "mapblocks":
        ctx.branch("bind-mapblocks-%s-omit%s" % (inp["child"]["extra"], "".join(map(str, inp.get("omit") or []))))


def case_checkpoint_tree(ctx, inp):
    """structure of the recursive aggregation of `checkpoint`"""
    from dask.graph_manipulation import checkpoint
    import dask.bag as db
    b = db.from_sequence(list(range(inp["n"])), npartitions=inp["np"])
    se = inp["split_every"]
    cp = checkpoint(b, split_every=se)
    hlg = cp.__dask_graph__()
    name = cp.key
    if name not in hlg.layers:
        ctx.note("single-key-collection")
        return
    layer = dict(hlg.layers[name])
    intern = {}

    def ik(k):
        # map keys are interned to small ints, reduce keys keep their (name, i) shape
        if k == name:
            return "cp"
        if isinstance(k, tuple) and k[0] == name:
            return [Sym("t"), "cp", k[1]]
        return intern.setdefault(k, len(intern))
    impl = []
    for k, v in layer.items():
        args = v[1] if isinstance(v, tuple) else [a.key if hasattr(a, "key") else a for a in v.args[0]]
        impl.append([ik(k), [ik(a) for a in args]])
    map_keys = [x for x in impl[-1][1] if isinstance(x, int)]
    all_map = sorted(intern.values())
    se_n = 0 if se is False else (8 if se is None else se)
    # `checkpointReduce?`: explicit "fuel exhausted" result; the fuel `len + 1` provably suffices (checkpoint_fuel_suffices)
    model = ctx.lean(Sym("checkpoint_reduce2"), "cp", se_n, all_map, Sym("auto"))
    ctx.eq("checkpoint reduce layer", model, [Sym("ok"), impl])
    if len(impl) > 1:
        ctx.branch("multi-level")
    # shape of the aggregation tree (checkpoint_shape): every inner node has exactly split_every inputs, the final one at
    # most split_every; with split_every=False there is a single flat node
    if se_n:
        bad = [e for e in impl[:-1] if len(e[1]) != se_n]
        if bad or len(impl[-1][1]) > se_n:
            ctx.fail("checkpoint: an aggregation node has the wrong number of inputs", observed=[len(e[1]) for e in impl], expected=se_n)
        if len(impl[-1][1]) < se_n and len(impl) > 1:
            ctx.branch("final-node-not-full")
    elif len(impl) != 1:
        ctx.fail("checkpoint(split_every=False) built an aggregation tree")
    if impl[-1][0] != "cp" or any(e[0] != [Sym("t"), "cp", i] for i, e in enumerate(impl[:-1])):
        ctx.fail("checkpoint: unexpected keys in the reduce layer", observed=[e[0] for e in impl])
    # every map key feeds into the final node
    feeds = {}
    for k, ins in impl:
        for a in ins:
            feeds.setdefault(json.dumps(a), json.dumps(k))
    for m in all_map:
        cur = json.dumps(m)
        for _ in range(len(impl) + 2):
            if cur == json.dumps("cp"):
                break
            cur = feeds.get(cur)
            if cur is None:
                break
        if cur != json.dumps("cp"):
            ctx.fail("a chunk of the input does not feed into the checkpoint node", observed=m)
            break


def _bw_idx(indices):
    """first components of `Blockwise.indices` as the model's BwArg: a TaskRef is `ref`; a hashable name *with an index*
    is `name`; everything else (literals: index None, or unhashable) is `other`"""
    from dask._task_spec import TaskRef
    from dask.core import ishashable
    out = []
    for k, idxv in indices:
        if isinstance(k, TaskRef):
            out.append([Sym("ref"), to_sexp(k.key)])
        elif idxv is not None and ishashable(k) and isinstance(k, (str, tuple)):
            try:
                out.append([Sym("name"), to_sexp(k)])
            except TypeError:
                out.append([Sym("other")])
        else:
            out.append([Sym("other")])
    return out


def case_bw_layer(ctx, inp):
    """`Blockwise.clone(keys, seed, bind_to)` on the top layer of a map_blocks/blockwise collection, for the clone-key set
    `bind` computes from an omit subset: the whole rewrite (`indices`, `numblocks`, `output`, the task wrapper, `bound`)
    against the model's `blockwiseClone`"""
    from dask._task_spec import TaskRef
    from dask.base import clone_key, get_name_from_key
    from dask.blockwise import Blockwise, blockwise_token
    from dask.graph_manipulation import chunks
    y, ins = _mk_mapblocks(inp["child"])
    hlg = y.__dask_graph__()
    layer = hlg.layers[y.name]
    if not isinstance(layer, Blockwise):
        ctx.note("top-layer-not-blockwise")
        return
    omit = [ins[i] for i in inp["omit"]]
    keys = set(hlg.get_all_external_keys())
    for o in omit:
        for ln in o.__dask_layers__():
            if ln in hlg.layers:
                keys -= hlg.layers[ln].get_output_keys()
    seed = inp["seed"]
    bind_to = "blocker-key" if inp.get("bind", True) else None
    new, bound = layer.clone(keys=keys, seed=seed, bind_to=bind_to)
    names = sorted({get_name_from_key(k) for k in keys}, key=repr)
    idx = _bw_idx(layer.indices)
    rho = [[to_sexp(n), to_sexp(clone_key(n, seed))] for n in sorted(set(names) | {layer.output, layer.task.key}, key=repr)
           if isinstance(n, (str, tuple))]
    m = ctx.lean(Sym("bw_clone"), [to_sexp(n) for n in names], rho, Sym("nobind") if bind_to is None else bind_to,
                 to_sexp(layer.output), idx, [to_sexp(k) for k in layer.numblocks], to_sexp(layer.task.key))
    wrapped = None
    if getattr(new.task, "func", None) is chunks.bind:
        a = new.task.args
        if len(a) == 2 and a[0] is layer.task and isinstance(a[1], TaskRef):
            for i in range(len(new.indices) + 1):
                if a[1].key == blockwise_token(i):
                    wrapped = i
        if wrapped is None:
            ctx.fail("Blockwise.clone: the chunks.bind wrapper is not (old task, TaskRef(blockwise_token(i)))", observed=repr(new.task)[:200])
            wrapped = -1
    impl = [[to_sexp(new.output), _bw_idx(new.indices), [to_sexp(k) for k in new.numblocks], to_sexp(new.task.key), wrapped], bool(bound)]
    ctx.eq("Blockwise.clone: (output, indices, numblocks keys, task key, wrapper), bound", m, impl)
    # positions and index tuples are untouched; literal arguments are the very same objects
    for i, (k, iv) in enumerate(layer.indices):
        nk, niv = new.indices[i]
        if niv != iv:
            ctx.fail("Blockwise.clone changed an index tuple", observed=[i, repr(iv), repr(niv)])
        if not isinstance(k, TaskRef) and (iv is None) and nk is not k:
            try:
                same = bool(nk == k)
            except Exception:
                same = False
            if not same:
                ctx.fail("Blockwise.clone rewrote a literal argument (index None)", observed=[repr(k)[:80], repr(nk)[:80]])
    if len(new.indices) not in (len(layer.indices), len(layer.indices) + 1):
        ctx.fail("Blockwise.clone: unexpected number of indices")
    has_blocker = any(isinstance(k, TaskRef) and k.key == "blocker-key" for k, _ in new.indices)
    if has_blocker != bool(bound):
        ctx.fail("Blockwise.clone: `bound` flag and the injected blocker argument disagree", observed=[bound, has_blocker])
    if has_blocker and (wrapped != len(layer.indices) or new.indices[-1][1] is not None):
        ctx.fail("Blockwise.clone: the blocker argument is not the one the wrapper task reads", observed=[wrapped, len(layer.indices)])
    # the statement behind it: a regenerated layer none of whose inputs is regenerated must be bound
    # (inputs are read off the HighLevelGraph's dependency map, not off the layer's own indices; a bag Item enters
    # through an extra `finalize` layer that is not part of the omitted collection and is therefore regenerated)
    omit_layers = {ln for o in omit for ln in o.__dask_layers__()}
    regenerated_inputs = set(hlg.dependencies[y.name]) - omit_layers
    if bind_to is not None:
        if not regenerated_inputs and not bound:
            ctx.fail("Blockwise.clone: a regenerated layer all of whose inputs are omitted was not bound to the blocker",
                     observed=[repr(k) for k, _ in layer.indices])
        if regenerated_inputs and bound:
            ctx.fail("Blockwise.clone: a layer with a regenerated input was bound as if it were a leaf",
                     observed=sorted(map(repr, regenerated_inputs)))
    # consistency with `_bind_one`'s dependency map: the names the rewritten layer refers to are the regenerated names
    # of the regenerated inputs, the omitted inputs under their own names, and the blocker iff bound
    refs_new = {e[1] for e in _bw_idx(new.indices) if e[0] != "other"}
    deps = set(hlg.dependencies[y.name])
    expect = {clone_key(d, seed) for d in deps - omit_layers} | (deps & omit_layers) | ({"blocker-key"} if bound else set())
    refs_old = {e[1] for e in idx if e[0] != "other"}
    if refs_old == deps and refs_new != expect:
        ctx.fail("Blockwise.clone: the rewritten layer does not refer to exactly the layers `_bind_one` records as its dependencies",
                 observed=sorted(map(repr, refs_new)), expected=sorted(map(repr, expect)))
    if refs_old == deps:
        ctx.branch("bw-refs-equal-hlg-deps")
    if inp["child"].get("lit"):
        ctx.branch("bw-literal-" + inp["child"]["lit"])
    ctx.branch("bw-%s-omit%s-%s%s" % (inp["child"]["extra"], "".join(map(str, inp["omit"])), "bound" if bound else "inner",
                                     "" if bind_to is not None else "-nobind"))


# ---------------------------------------------------------------------------------------------
# DAGs of collections (several layers, shared inputs, several leaves): the layer bookkeeping of `_bind_one`
# ---------------------------------------------------------------------------------------------

def _inc_blk(blk):
    return blk + 1


def _build_dag(spec):
    """JSON description -> the list of collections, one per node (node i may use nodes < i)"""
    flav = spec["flavour"]
    nodes = []
    if flav == "array":
        import numpy as np
        import dask.array as da
        n, c = spec["n"], spec["chunks"]
        for nd in spec["nodes"]:
            if nd[0] == "leaf":
                x = da.from_array(np.arange(n) + nd[1], chunks=c)
            elif nd[0] == "un":
                a = nodes[nd[2]]
                op = nd[1]
                if op == "add":
                    x = a + 1
                elif op == "mul":
                    x = a * 2
                elif op == "neg":
                    x = -a
                elif op == "rev":
                    x = a[::-1]
                elif op == "rechunk":
                    x = a.rechunk(max(1, c // 2) if c > 1 else 2)
                elif op == "mapb":
                    x = a.map_blocks(_inc_blk, dtype=a.dtype)
                else:
                    x = a.cumsum(axis=0)
            else:
                a, b = nodes[nd[2]], nodes[nd[3]]
                x = a + b if nd[1] == "add" else a * b
            nodes.append(x)
        return nodes
    if flav == "delayed":
        from dask import delayed
        for nd in spec["nodes"]:
            if nd[0] == "leaf":
                nodes.append(delayed(FUNCS[nd[1] % 6])(nd[1]))
            else:
                nodes.append(delayed(FUNCS[len(nodes) % 6])(*[nodes[j] for j in nd[1]]))
        return nodes
    import dask.bag as db
    for nd in spec["nodes"]:
        if nd[0] == "leaf":
            nodes.append(db.from_sequence(list(range(nd[1], nd[1] + spec["n"])), npartitions=spec["chunks"]))
        elif nd[0] == "un":
            nodes.append(nodes[nd[2]].map(_inc) if nd[1] != "filter" else nodes[nd[2]].filter(_even))
        else:
            import dask.bag as db
            nodes.append(db.concat([nodes[nd[2]], nodes[nd[3]]]))
    return nodes


SIG_LAZIFY = "bind:bag:bound-partition-read-twice:value-changed-under-optimization"


def _lazify_sig(op, r, child):
    """known finding: a bag partition that `bind` wrapped in chunks.bind(·, blocker) loses its `reify` in bag's `lazify`
    (the wrapper hands the one-shot iterator on) — wrong only with graph optimisation, and only for bags"""
    try:
        import dask.bag as db
        if op == "bind" and isinstance(child, db.Bag) and _value(r, optimize_graph=False) == _value(child):
            return SIG_LAZIFY
    except Exception:
        pass
    return None


import contextlib


@contextlib.contextmanager
def _record_clone_keys(layers):
    """record the `keys` argument of every `Layer.clone` / `Blockwise.clone` call made inside the block (the only place
    where `_bind_one`'s local `clone_keys` leaves the function)"""
    seen, saved = [], []
    for c in {c for l in layers for c in type(l).__mro__ if "clone" in vars(c)}:
        orig = vars(c)["clone"]

        def wrap(self, keys, seed, bind_to=None, _orig=orig):
            seen.append(frozenset(keys))
            return _orig(self, keys, seed, bind_to)
        saved.append((c, orig))
        setattr(c, "clone", wrap)
    try:
        yield seen
    finally:
        for c, orig in saved:
            setattr(c, "clone", orig)


def case_bind_layers(ctx, inp):
    """`_bind_one`'s layer bookkeeping: `layers` / `dependencies` of the HighLevelGraph that the real `bind` / `clone`
    returns, against the model `bindOne` (real `clone_key` as a finite map; `is_bound` per layer from the real
    `layer.clone`), in two pop orders, plus the statement-level oracles (valid graph, leaves depend on the blocker,
    only omitted layers keep their names)"""
    from dask.base import clone_key
    from dask.graph_manipulation import bind, checkpoint, clone
    from dask.highlevelgraph import HighLevelGraph
    nodes = _build_dag(inp["dag"])
    child = nodes[inp["out"]]
    omit = [nodes[i] for i in inp["omit"]]
    par = inp.get("parent")
    if inp["op"] == "clone":
        parent = None
    elif isinstance(par, dict) and "node" in par:
        parent = nodes[par["node"] % len(nodes)]
    else:
        parent = _mk_collection(par)
    seed, se, al = inp["seed"], inp.get("split_every"), inp.get("assume_layers", True)
    dsk = child.__dask_graph__()
    if not isinstance(dsk, HighLevelGraph):
        ctx.note("child-graph-not-hlg")
        return
    if set(dsk.layers) != set(dsk.dependencies):
        ctx.fail("child graph: layers and dependencies have different keys")
        return
    blocker = checkpoint(parent, split_every=se) if parent is not None else None
    bkey = blocker.key if blocker is not None else None
    bdsk = blocker.__dask_graph__() if blocker is not None else None
    child_in_omit = any(set(o.__dask_layers__()) & set(child.__dask_layers__()) for o in omit)
    if not al and omit and not (_okeys(child) - {k for o in omit for k in o.__dask_graph__()}):
        child_in_omit = True
    if al:
        omit_layers = {ln for o in omit for ln in o.__dask_layers__()}
        omit_keys = set()
    else:
        omit_layers = set()
        omit_keys = {k for o in omit for k in o.__dask_graph__()}
    omit_layers0, omit_keys0 = set(omit_layers), set(omit_keys)
    # the key set `_bind_one` hands to every `layer.clone`
    clone_keys = dsk.get_all_external_keys() - omit_keys
    for ln in omit_layers:
        if ln in dsk.layers:
            clone_keys -= dsk.layers[ln].get_output_keys()
    if omit_keys:
        # assume_layers=False: a layer none of whose keys is cloned is an omitted layer
        omit_layers = omit_layers | {ln for ln, layer in dsk.layers.items() if not (layer.get_output_keys() & clone_keys)}
    leaf = {}
    for name, layer in dsk.layers.items():
        try:
            leaf[name] = bool(layer.clone(keys=set(clone_keys), seed=seed, bind_to="blocker-probe")[1])
        except Exception as e:
            ctx.fail(f"layer.clone raised on a layer of the child: {type(e).__name__}: {str(e)[:100]}")
            return
    try:
        with _record_clone_keys(dsk.layers.values()) as seen_keys:
            if parent is None:
                r = clone(child, omit=omit or None, seed=seed, assume_layers=al)
            else:
                r = bind(child, parent, omit=omit or None, seed=seed, assume_layers=al, split_every=se)
    except Exception as e:
        ctx.fail(f"{inp['op']} raised: {type(e).__name__}: {str(e)[:120]}")
        return
    h = r.__dask_graph__()
    if not isinstance(h, HighLevelGraph):
        ctx.fail("the result's graph is not a HighLevelGraph")
        return
    # ---- `clone_keys` / effective `omit_layers` (head of `_bind_one`) against the model cloneKeysOf / omitLayersOf
    #      (Props/C16xCloneKeys): the model's key set vs the `keys=` argument the real call handed to `layer.clone`; the
    #      model's omitted layer names are what `bind_one` below runs with (so they are diffed through the real result) ----
    kid = {}
    ext_i = sorted([kid.setdefault(k, len(kid)) for k in dsk.get_all_external_keys()])
    ok_i = sorted([kid.setdefault(k, len(kid)) for k in omit_keys0])
    outs_i = [[n, sorted([kid.setdefault(k, len(kid)) for k in layer.get_output_keys()])] for n, layer in dsk.layers.items()]
    mk = ctx.lean(Sym("clone_keys"), ext_i, ok_i, sorted(omit_layers0), outs_i)
    if not (isinstance(mk, list) and len(mk) == 2):
        ctx.disagree("clone_keys: the model did not answer", mk, None)
        return
    if not seen_keys:
        ctx.fail("the real call never reached layer.clone")
        return
    if len(set(seen_keys)) != 1:
        ctx.fail("_bind_one handed different key sets to different layers")
        return
    ctx.eq("_bind_one: clone_keys handed to layer.clone", sorted(mk[0]), sorted(kid[k] for k in seen_keys[0]))
    if set(mk[1]) != set(omit_layers):
        ctx.disagree("omit_layers: model vs the reference computation of the harness", sorted(mk[1]), sorted(omit_layers))
    omit_layers = set(mk[1])
    if len(mk[0]) < len(ext_i):
        ctx.branch("clone_keys:some-keys-kept")
    if omit_layers0 - set(dsk.layers):
        ctx.branch("clone_keys:omitted-layer-not-in-graph")
    if omit_layers0 & set(dsk.layers):
        ctx.branch("clone_keys:omitted-layer-in-graph")
    if omit_keys0 and omit_layers:
        ctx.branch("clone_keys:assume_layers=False-layer-added")
    if omit_keys0 and not omit_layers:
        ctx.branch("clone_keys:assume_layers=False-nothing-omitted")
    names = list(dsk.layers)
    rho = {n: clone_key(n, seed) for n in names}
    inv = {v: k for k, v in rho.items()}
    fresh = len(inv) == len(rho) and not (set(inv) & set(names)) and not (bdsk is not None and set(inv) & set(bdsk.layers))
    if not fresh:
        ctx.note("clone_key-not-fresh")       # assumption of the theorems violated: only diffed, not judged
    G = [[n, sorted(dsk.dependencies[n]), leaf[n]] for n in names]
    B = [[n, sorted(d)] for n, d in bdsk.dependencies.items()] if bdsk is not None else []
    impl = []
    for n in h.layers:
        deps = sorted(h.dependencies.get(n, ()))
        if bdsk is not None and n in bdsk.layers:
            origin = [Sym("blocker")]      # (bind builds its own checkpoint: same names, other objects)
        elif n in dsk.layers:
            origin = [Sym("verbatim")]
            if h.layers[n] is not dsk.layers[n]:
                ctx.fail("a layer that kept its name is not the original layer object", observed=n)
        elif n in inv:
            origin = [Sym("cloned"), inv[n], bkey is not None and bkey in h.dependencies.get(n, ())]
        else:
            origin = [Sym("unknown")]
        impl.append([n, origin, deps])
    impl.sort(key=lambda e: e[0])
    results = []
    for o1, o2 in ((0, 0), tuple(inp.get("orders", [1, 2]))):
        m = ctx.lean(Sym("bind_one"), G, list(child.__dask_layers__()), sorted(omit_layers), [[k, v] for k, v in rho.items()],
                     Sym("noblocker") if bkey is None else bkey, B, o1, o2)
        if not (isinstance(m, list) and m and m[0] == "ok"):
            ctx.disagree("_bind_one: the model did not return a graph", m, impl)
            return
        mm = sorted([[e[0], e[1], sorted(e[2])] for e in m[1]], key=lambda e: e[0])
        results.append(mm)
    ctx.eq("_bind_one: layers (origin) and dependencies of the new HighLevelGraph", results[0], impl)
    if results[0] != results[1]:
        ctx.disagree("_bind_one model: the result depends on the pop order", results[0], results[1])
    # ---- statement-level oracles on the real result (independent of the model) ----
    known = SIG_SELF.format(op=inp["op"]) if child_in_omit else None
    if set(h.layers) != set(h.dependencies):
        ctx.fail("result: layers and dependencies have different keys", sig=known)
    dangling = sorted({d for ds in h.dependencies.values() for d in ds} - set(h.layers))
    if dangling:
        ctx.fail("result: a dependency names a layer that does not exist", sig=known, observed=dangling[:3])
    cloned = [e for e in impl if e[1][0] == "cloned"]
    regen_prev = {e[1][1] for e in cloned}
    for n, origin, deps in cloned:
        prev = origin[1]
        if bkey is not None and not (set(dsk.dependencies[prev]) & regen_prev) and not origin[2] and fresh:
            ctx.fail("bind: a regenerated layer none of whose inputs is regenerated does not depend on the checkpoint",
                     sig=known, observed=[prev, deps])
        if origin[2] and bkey not in h.layers:
            ctx.fail("bind: a bound layer depends on a checkpoint layer that is not in the graph", observed=n)
    if fresh:
        allowed = set(bdsk.layers) if bdsk is not None else set()
        # omitted layers and their transitive dependencies
        stack = [d for e in cloned for d in dsk.dependencies[e[1][1]] if d in omit_layers]
        while stack:
            d = stack.pop()
            if d not in allowed:
                allowed.add(d)
                stack.extend(dsk.dependencies[d])
        kept = (set(h.layers) & set(dsk.layers)) - allowed
        if kept:
            ctx.fail("a layer that is neither omitted nor part of the blocker kept its original name", sig=known,
                     observed=sorted(kept)[:3])
    if known is None and fresh:
        try:
            h.validate()
        except Exception as e:
            ctx.fail(f"result: HighLevelGraph.validate() fails: {type(e).__name__}: {str(e)[:160]}")
        if inp.get("compute", True):
            ok, got = _guard(ctx, inp["op"], {"assume_layers": al}, None, lambda: _value(r))
            if ok and got != _value(child):
                ctx.fail(f"{inp['op']} changes the computed value", sig=_lazify_sig(inp["op"], r, child), observed=got,
                         expected=_value(child))
    # ---- measured branches ----
    if len(cloned) >= 3:
        ctx.branch("layers:multi-layer(>=3 regenerated)")
    verb = [e[0] for e in impl if e[1][0] == "verbatim"]
    shared = [o for o in (set(verb) | (set(bdsk.layers) if bdsk is not None else set())) & omit_layers
              if sum(1 for e in cloned if o in dsk.dependencies[e[1][1]]) >= 2]
    if shared:
        ctx.branch("layers:shared-omitted-layer")
    direct = {d for e in cloned for d in dsk.dependencies[e[1][1]]}
    if any(v not in direct for v in verb):
        ctx.branch("layers:verbatim-closure-deeper-than-one")
    if sum(1 for e in cloned if e[1][2]) > 1:
        ctx.branch("layers:bound-layers>1")
    if bdsk is not None and set(bdsk.layers) & set(dsk.layers):
        ctx.branch("layers:blocker-shares-layers-with-child")
    if child_in_omit:
        ctx.branch("layers:child-in-omit")
    if omit and not al:
        ctx.branch("layers:assume_layers=False")
    ctx.branch("layers:%s-%s" % (inp["op"], inp["dag"]["flavour"]))


def _graph_snapshot(c):
    """everything a call must not change about a collection's graph: the (cached) set of external keys, the keys of
    every layer, the layer dependencies, and the output keys"""
    from dask.highlevelgraph import HighLevelGraph
    g = c.__dask_graph__()
    if isinstance(g, HighLevelGraph):
        return {"ext": set(g.get_all_external_keys()), "layers": {n: set(l.keys()) for n, l in g.layers.items()},
                "deps": {n: set(d) for n, d in g.dependencies.items()}, "out": set(_okeys(c))}
    return {"ext": set(g), "layers": {}, "deps": {}, "out": set(_okeys(c))}


def case_history(ctx, inp):
    """several clone / bind / wait_on / checkpoint calls IN SEQUENCE on the SAME child object, with varying omit sets
    (omit then no omit and the reverse): after EVERY call the statement's oracles (values, no shared keys outside omit,
    parents before regenerated tasks) and input purity (the child's, the omitted collections' and the parents' graphs —
    incl. the cached `get_all_external_keys()` — are not changed by a call)"""
    from dask.graph_manipulation import bind, checkpoint, clone, wait_on
    nodes = _build_dag(inp["dag"])
    child = nodes[inp["out"]]
    want = _value(child)
    sched = inp.get("scheduler", "sync")
    for si, step in enumerate(inp["steps"]):
        op = step["op"]
        # (a node that computes the same thing as the child has the child's keys: omitting it is the degenerate
        #  "child listed in omit" case, a known finding exercised by the `api` and `bind_layers` sections)
        omit = [nodes[i] for i in step.get("omit", []) if i != inp["out"] and not (_okeys(nodes[i]) & _okeys(child))]
        parent = nodes[step["parent"] % len(nodes)] if op in ("bind", "checkpoint") and step.get("parent") is not None else None
        watched = [("child", child)] + [("omit", o) for o in omit] + ([("parent", parent)] if parent is not None else [])
        before = [(w, _graph_snapshot(c)) for w, c in watched]
        tag = f"step {si} ({op}, omit={step.get('omit', [])})"
        try:
            if op == "clone":
                r = clone(child, omit=omit or None, seed=step.get("seed"))
            elif op == "bind":
                r = bind(child, parent if parent is not None else nodes[0], omit=omit or None, seed=step.get("seed"),
                         split_every=step.get("split_every"))
            elif op == "wait_on":
                r = wait_on(child, split_every=step.get("split_every"))
            else:
                r = checkpoint(child, split_every=step.get("split_every"))
        except Exception as e:
            ctx.fail(f"{tag}: raised {type(e).__name__}: {str(e)[:100]}")
            return
        # input purity
        for (w, snap), (_, c) in zip(before, watched):
            now = _graph_snapshot(c)
            for field in ("ext", "layers", "deps", "out"):
                if now[field] != snap[field]:
                    ctx.fail(f"{tag}: the call changed the {w} collection's graph ({field})",
                             observed=sorted(map(repr, (snap[field] - now[field]) if isinstance(snap[field], set) else
                                                 set(snap[field]) ^ set(now[field])))[:4])
                    break           # (the later calls are still made: their oracles show the consequences)
        log = _Log()
        if op == "checkpoint":
            try:
                with log.cb():
                    v = r.compute(scheduler=sched, optimize_graph=False)
            except Exception as e:
                ctx.fail(f"{tag}: result cannot be computed: {type(e).__name__}: {str(e)[:100]}")
                return
            if v is not None:
                ctx.fail(f"{tag}: checkpoint does not compute to None", observed=repr(v))
            fin = log.pos("start", r.key)
            for k in _task_okeys(child):
                e = log.pos("end", k)
                if e is None or fin is None or e > fin:
                    ctx.fail(f"{tag}: checkpoint ran before a chunk of its input was computed", observed=[repr(k), e, fin])
                    break
            ctx.branch("history-checkpoint")
            continue
        try:
            with log.cb():
                r.compute(scheduler=sched, optimize_graph=False)
            got = _value(r)
        except Exception as e:
            ctx.fail(f"{tag}: result cannot be computed: {type(e).__name__}: {str(e)[:100]}")
            return
        if got != want:
            ctx.fail(f"{tag}: the computed value changed", sig=_lazify_sig(op, r, child), observed=got, expected=want)
        if _okeys(r) & _okeys(child):
            ctx.fail(f"{tag}: the result shares output keys with the original", observed=sorted(map(repr, _okeys(r) & _okeys(child)))[:4])
        allowed = set()
        for o in omit:
            allowed |= set(o.__dask_graph__())
        if parent is not None or op == "bind":
            allowed |= set((parent if parent is not None else nodes[0]).__dask_graph__())
        shared = (set(r.__dask_graph__()) & set(child.__dask_graph__())) - allowed
        if shared and op in ("clone", "bind"):
            ctx.fail(f"{tag}: the result shares graph keys with the original outside omit (not all nodes were regenerated)",
                     observed=sorted(map(repr, shared))[:4])
        if op == "bind":
            par = parent if parent is not None else nodes[0]
            pend = [log.pos("end", k) for k in _task_okeys(par)]
            if None in pend:
                ctx.fail(f"{tag}: a parent chunk was never computed")
            else:
                last_parent = max(pend) if pend else -1
                orig = set(child.__dask_graph__()) | set(par.__dask_graph__()) | allowed
                for k in r.__dask_graph__():
                    if k in orig or str(k if not isinstance(k, tuple) else k[0]).startswith("checkpoint"):
                        continue
                    st_ = log.pos("start", k)
                    if st_ is not None and st_ < last_parent:
                        ctx.fail(f"{tag}: a regenerated task started before all parents were computed", observed=[repr(k), st_, last_parent])
                        break
        if op == "wait_on":
            ends = [log.pos("end", k) for k in _task_okeys(child)] or [-1]
            starts = [log.pos("start", k) for k in _okeys(r)]
            if None in ends or None in starts or max(ends) > min(starts):
                ctx.fail(f"{tag}: a chunk of the result started before all chunks of the input were computed")
        ctx.branch("history-" + op + ("-omit" if omit else ""))
    kinds = [("omit" if st.get("omit") else "plain") for st in inp["steps"] if st["op"] in ("clone", "bind")]
    if "omit" in kinds and "plain" in kinds[kinds.index("omit"):]:
        ctx.branch("history-omit-then-no-omit")
    if "plain" in kinds and "omit" in kinds[kinds.index("plain"):]:
        ctx.branch("history-no-omit-then-omit")


CASES = {"layer": case_layer, "api": case_api, "checkpoint_tree": case_checkpoint_tree, "bw_layer": case_bw_layer,
         "bind_layers": case_bind_layers, "history": case_history}


def _gen_coll(rng, kind=None):
    kind = kind or rng.choice(["array", "bag", "delayed"])
    if kind == "array":
        nd = rng.choice([1, 2])
        shape = [rng.randint(2, 6) for _ in range(nd)]
        return {"kind": "array", "shape": shape, "chunks": [rng.randint(1, s) for s in shape],
                "ops": [rng.choice(["add", "T", "sum", "mul", "getitem", "rechunk", "ravel", "concat"]) for _ in range(rng.randint(1, 3))]}
    if kind == "bag":
        return {"kind": "bag", "n": rng.randint(1, 12), "np": rng.randint(1, 4),
                "ops": [rng.choice(["add", "filter"]) for _ in range(rng.randint(1, 3))]}
    if kind == "frame":
        return {"kind": "frame", "n": rng.randint(2, 12), "np": rng.randint(1, 4),
                "ops": [rng.choice(["assign", "mapp", "filter", "series"]) for _ in range(rng.randint(0, 2))]}
    return {"kind": "delayed", "n": rng.randint(1, 7), "fan": rng.randint(2, 3), "ops": []}


def _gen_dag(rng, flavour=None):
    flavour = flavour or rng.choice(["array", "array", "array", "delayed", "bag"])
    k = rng.randint(2, 7)
    nodes = []
    for i in range(k):
        if i == 0 or rng.random() < 0.15:
            nodes.append(["leaf", rng.randint(0, 5)])
        elif flavour == "delayed":
            nodes.append(["call", sorted(rng.sample(range(i), rng.randint(1, min(3, i))))])
        elif i >= 2 and rng.random() < 0.45:
            a, b = rng.sample(range(i), 2)
            nodes.append(["bin", rng.choice(["add", "mul"]), a, b])
        elif flavour == "array":
            nodes.append(["un", rng.choice(["add", "mul", "neg", "rev", "rechunk", "mapb", "cumsum"]), rng.randrange(i)])
        else:
            nodes.append(["un", rng.choice(["map", "map", "filter"]), rng.randrange(i)])
    return {"kind": "dag", "flavour": flavour, "n": rng.randint(2, 6), "chunks": rng.randint(1, 3), "nodes": nodes}


def _gen_bind_layers(rng):
    dag = _gen_dag(rng)
    k = len(dag["nodes"])
    out = k - 1 if rng.random() < 0.85 else rng.randrange(k)
    r = rng.random()
    if r < 0.25:
        omit = []
    elif r < 0.9:
        omit = sorted(rng.sample(range(k - 1), rng.randint(1, min(2, k - 1))))
    else:
        omit = sorted(set(rng.sample(range(k), rng.randint(1, min(2, k))) + [out]))      # child listed in omit
    op = rng.choice(["bind", "bind", "clone"])
    inp = {"dag": dag, "out": out, "omit": omit, "op": op, "seed": rng.choice([0, 5, "s"]),
           "assume_layers": rng.random() < 0.85, "split_every": rng.choice([None, 2]), "orders": [rng.randrange(3), rng.randrange(3)]}
    if op == "bind":
        inp["parent"] = {"node": rng.choice(omit)} if omit and rng.random() < 0.5 else \
            {"node": rng.randrange(k)} if rng.random() < 0.3 else _gen_coll(rng)
    return inp


def generate(ctx):
    rng = ctx.rng
    yield "layer", {"graph": [["a", {"t": [{"fn": 0}, 1]}], ["b", {"t": [{"fn": 1}, "a"]}]], "sel": [], "seed": 3, "bind": None}
    yield "layer", {"graph": [["a", {"t": [{"fn": 0}, 1]}], ["b", {"t": [{"fn": 1}, "a"]}]], "sel": [], "seed": 3, "bind": "blk"}
    yield "api", {"op": "clone", "child": {"kind": "delayed", "n": 3, "fan": 2, "ops": []}, "seed": 3}
    for _ in range(ctx.n(300)):
        n = rng.randint(1, 6)
        g = gen_legacy_graph(rng, n, rng.choice([(), ("dictref",)]), depth=2)
        yield "layer", {"graph": g, "sel": [rng.randrange(n) for _ in range(rng.choice([0, 0, 1, 2, 3]))],
                        "seed": rng.choice([0, 1, "s", 17]), "bind": rng.choice([None, None, "blocker-1"])}
    for _ in range(ctx.n(90)):
        op = rng.choice(["clone", "clone", "bind", "bind", "wait_on", "checkpoint"])
        inp = {"op": op, "child": _gen_coll(rng), "seed": rng.choice([None, 0, 5]), "assume_layers": rng.random() < 0.7,
               "omit": rng.choice([None, None, None, "prefix", "prefix", "self"]), "scheduler": rng.choice(["sync", "sync", "threads"]),
               "split_every": rng.choice([None, False, 2, 3])}
        if op != "clone":
            inp["parent"] = _gen_coll(rng)
        yield "api", inp
    # dask DataFrames: as the checkpointed / waited-for input (works), as parents of bind (works), as children of
    # clone / bind / wait_on (known finding: the rebuild function rejects rename=)
    for i in range(ctx.n(14)):
        op = ["checkpoint", "checkpoint", "bind-parent", "bind-parent", "clone", "bind", "wait_on"][i % 7]
        if op == "bind-parent":
            yield "api", {"op": "bind", "child": _gen_coll(rng, rng.choice(["array", "bag", "delayed"])), "parent": _gen_coll(rng, "frame"),
                          "seed": rng.choice([None, 0]), "assume_layers": True, "omit": None, "scheduler": rng.choice(["sync", "threads"]),
                          "split_every": rng.choice([None, 2])}
        else:
            yield "api", {"op": op, "child": _gen_coll(rng, "frame"), "parent": _gen_coll(rng, rng.choice(["array", "frame", "bag"])),
                          "seed": 0, "assume_layers": True, "omit": None, "scheduler": rng.choice(["sync", "threads"]),
                          "split_every": rng.choice([None, False, 2])}
    # Blockwise layers with non-array collection arguments x every omit subset of the layer's inputs
    extras = ["delayed", "item", "count", "0d", "array"]
    vias = ["map_blocks", "blockwise", "elemwise"]
    combos = [(e, v, om) for e in extras for v in vias for om in ([], [0], [1], [0, 1])]
    rng.shuffle(combos)

    def mb(e, v):
        base = {"kind": "array", "shape": [rng.randint(2, 6)], "chunks": [rng.randint(1, 3)], "ops": [rng.choice(["add", "mul"])]}
        ch = {"kind": "mapblocks", "base": base, "extra": e, "via": v, "ops": []}
        lit = rng.choice([None, None, None, "name", "name", "str", "list"])
        if lit:
            ch["lit"] = lit
        return ch
    yield "bw_layer", {"child": {"kind": "mapblocks", "base": {"kind": "array", "shape": [4], "chunks": [2], "ops": ["add"]},
                                 "extra": "delayed", "via": "map_blocks", "ops": [], "lit": "name"}, "omit": [], "seed": 0}
    yield "api", {"op": "clone", "child": {"kind": "mapblocks", "base": {"kind": "array", "shape": [4], "chunks": [2], "ops": ["add"]},
                                           "extra": "delayed", "via": "blockwise", "ops": [], "lit": "name"}, "seed": 3, "omit": []}
    for (e, v, om) in combos:
        yield "bw_layer", {"child": mb(e, v), "omit": om, "seed": rng.choice([0, 3]), "bind": rng.random() < 0.8}
    api_combos = [c for c in combos if c[2] == [0, 1]] + [c for c in combos if c[2] != [0, 1]][:ctx.n(24, 45)]
    for (e, v, om) in api_combos:
        ch = mb(e, v)
        for op in ("bind", "clone") if rng.random() < 0.4 else ("bind",):
            yield "api", {"op": op, "child": ch, "parent": _gen_coll(rng, rng.choice(["array", "bag", "delayed"])),
                          "seed": rng.choice([None, 0, 5]), "assume_layers": True, "omit": om,
                          "scheduler": rng.choice(["sync", "threads"]), "split_every": rng.choice([None, 2])}
    for _ in range(ctx.n(60)):
        yield "checkpoint_tree", {"n": rng.randint(1, 40), "np": rng.randint(1, 25), "split_every": rng.choice([None, False, 2, 3, 4, 8])}
    # _bind_one's layer bookkeeping on DAG-shaped collections
    yield "bind_layers", {"dag": {"kind": "dag", "flavour": "array", "n": 4, "chunks": 2,
                                  "nodes": [["leaf", 0], ["un", "add", 0], ["un", "add", 1], ["un", "mul", 1], ["bin", "add", 2, 3]]},
                          "out": 4, "omit": [1], "op": "bind", "parent": {"node": 1}, "seed": 0, "assume_layers": True,
                          "split_every": None, "orders": [1, 2]}
    for _ in range(ctx.n(110)):
        yield "bind_layers", _gen_bind_layers(rng)
    # multi-call histories on one child object
    yield "history", {"dag": {"kind": "dag", "flavour": "delayed", "n": 3, "chunks": 1,
                              "nodes": [["leaf", 0], ["call", [0]], ["call", [1]]]},
                      "out": 2, "steps": [{"op": "bind", "omit": [1], "parent": 0, "seed": 0}, {"op": "bind", "omit": [], "parent": 0, "seed": 1}]}
    yield "history", {"dag": {"kind": "dag", "flavour": "array", "n": 4, "chunks": 2,
                              "nodes": [["leaf", 0], ["un", "add", 0], ["un", "mul", 1]]},
                      "out": 2, "steps": [{"op": "clone", "omit": [1], "seed": 0}, {"op": "clone", "omit": [], "seed": 1}]}
    for _ in range(ctx.n(40)):
        dag = _gen_dag(rng, rng.choice(["array", "delayed", "bag", "array"]))
        k = len(dag["nodes"])
        out = k - 1
        steps = []
        for _s in range(rng.randint(2, 4)):
            op = rng.choice(["clone", "clone", "bind", "bind", "wait_on", "checkpoint"])
            st_ = {"op": op, "seed": rng.choice([None, 0, 5]), "split_every": rng.choice([None, 2])}
            if op in ("clone", "bind"):
                st_["omit"] = sorted(rng.sample(range(k - 1), rng.randint(1, min(2, k - 1)))) if rng.random() < 0.55 else []
            if op == "bind":
                st_["parent"] = rng.randrange(k - 1)
            steps.append(st_)
        # make sure both orders (omit then none, none then omit) occur often
        cb = [st_ for st_ in steps if st_["op"] in ("clone", "bind")]
        if len(cb) >= 2 and rng.random() < 0.7:
            cb[0]["omit"] = sorted(rng.sample(range(k - 1), 1))
            cb[1]["omit"] = []
            if rng.random() < 0.5:
                cb[0]["omit"], cb[1]["omit"] = cb[1]["omit"], cb[0]["omit"]
        yield "history", {"dag": dag, "out": out, "steps": steps, "scheduler": rng.choice(["sync", "sync", "threads"])}
