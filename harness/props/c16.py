"""C16 — graph manipulation (clone / bind / checkpoint / wait_on) keeps values and changes only keys and ordering.

Model:    lean/DaskModel/Model/Rename.lean (renameNode = GraphNode.substitute-based key regeneration, cloneValue =
          Layer.clone.clone_value, bindNode, checkpointReduce)
Theorems: lean/DaskModel/Props/C16.lean
Tie:      function-level: `MaterializedLayer.clone(keys, seed, bind_to)` on legacy and task-spec layers against the
          model (the renaming is the real `clone_key`, handed to the model as a finite map); the reduce layer of
          `checkpoint(.., split_every)` against `checkpointReduce`.  API-level: arrays, bags and delayed trees through
          clone (omit / seeds / assume_layers), bind (parents, omit), wait_on, checkpoint: values, key disjointness, and the
          happens-before relation read from a recording scheduler callback.
"""
from __future__ import annotations

import json

from sexp import Sym
from props._graph_terms import FUNCS, build, gen_legacy_graph, jsexp, node_sexp, to_sexp

PROP = "C16"
READY = True
DRIVER = "dm_graph"
LEAN_MODULES = ["DaskModel.Props.C16"]
LEVEL_TEXT = ("Lean 4 theorems over a model of key regeneration: clone_values (for every injective renaming rho, graph, cache and "
              "depth the regenerated key rho(k) denotes in the renamed graph what k denotes in the original; through aliases, "
              "TaskRefs, nested tasks/containers/kwargs), clone_keys_disjoint (fresh renaming => only omitted keys are shared), "
              "bind_values / bind_waits (chunks.bind(node, blocker) computes node's value once the blocker has one, lists the blocker "
              "as a dependency and cannot be evaluated before it), checkpoint_reaches_all (every input key feeds through the "
              "split_every aggregation tree into the final node, for every split_every and fuel) and checkpoint_none. PARTIAL: the "
              "leaf decision of Blockwise.clone is modelled (blockwiseLeaf, blockwiseLeaf_of_all_omitted: a regenerated layer whose "
              "inputs -- array names or TaskRefs to Delayed/Item/scalar collections -- are all omitted is a leaf and gets bound) and "
              "diffed; the remaining glue (layer selection in _bind_one, Blockwise index rewriting, HighLevelGraph dependencies, rebuild/rename) is "
              "validated through values, key sets and execution logs, not proved; happens-before on real schedulers relies on C02. "
              "Known findings: assume_layers=False with omit, and a child listed in omit, give uncomputable results; Layer.clone renames "
              "key-like dict values that the evaluation treats as literals.")
LEVEL_NOTE = ("Trusted: Lean kernel + standard axioms; clone_key/tokenize treated as an injective fresh renaming (the real renaming is "
              "handed to the model as a finite map and its freshness is checked per case); function-level diff of "
              "MaterializedLayer.clone on legacy and task-spec layers and of checkpoint's reduce layer; API-level runs on arrays, bags, "
              "delayed trees with recording callbacks (sync and threaded). Fixed in /repo: Layer.clone ignored task-spec nodes "
              "(clone/bind of Delayed chains raised Missing dependency).")
TECHNIQUE = "Lean 4 proof (renaming lemma, bind/checkpoint nodes, aggregation-tree reachability) + differential correspondence + execution logs"
ASSUMPTIONS = ["clone_key(k, seed) is injective and fresh (tokenize is treated as collision-free on the compared keys)",
               "happens-before is observed on the synchronous and threaded schedulers through pretask/posttask callbacks"]
CASE_TIMEOUT_S = 30


def _clone_keyable(j):
    return isinstance(j, str) or (isinstance(j, dict) and "t" in j and j["t"] and isinstance(j["t"][0], str))


def case_layer(ctx, inp):
    """MaterializedLayer.clone on a legacy layer and on its task-spec conversion"""
    from dask._task_spec import convert_legacy_graph
    from dask.base import clone_key
    from dask.graph_manipulation import chunks
    from dask.highlevelgraph import MaterializedLayer
    items = [kv for kv in inp["graph"] if _clone_keyable(kv[0])]
    okkeys = {json.dumps(k, sort_keys=True) for k, _ in items}
    # drop references to keys that cannot be cloned (ints): treat them as literals by removing those entries
    dsk = {build(k): build(v) for k, v in items}
    if len(dsk) != len(items) or not dsk:
        return
    allkeys = list(dsk)
    sel = [allkeys[i % len(allkeys)] for i in inp["sel"]] or allkeys
    keys = set(sel)
    seed = inp["seed"]
    bind_to = inp.get("bind")
    rho = [[to_sexp(k), to_sexp(clone_key(k, seed))] for k in allkeys]
    bsex = Sym("nobind") if bind_to is None else bind_to
    FUNCS_BIND = chunks.bind
    # legacy layer
    new, bound = MaterializedLayer(dict(dsk)).clone(keys=set(keys), seed=seed, bind_to=bind_to)

    def sx(o):
        # chunks.bind is not one of the uninterpreted functions: encode it as fn 99
        if isinstance(o, tuple) and o and o[0] is FUNCS_BIND:
            return [Sym("t"), [Sym("fn"), 99]] + [sx(x) for x in o[1:]]
        if isinstance(o, tuple):
            if o and callable(o[0]) and not hasattr(o[0], "data"):
                return [Sym("t"), to_sexp(o[0])] + [sx(x) for x in o[1:]]
            return to_sexp(o)
        if isinstance(o, list):
            return [Sym("l")] + [sx(x) for x in o]
        if isinstance(o, dict):
            return [Sym("d")] + [[to_sexp(k), sx(v)] for k, v in o.items()]
        return to_sexp(o)
    impl = [[to_sexp(k), sx(v)] for k, v in dict(new).items()]
    model = ctx.lean(Sym("clone_legacy_layer"), [to_sexp(k) for k in keys], rho, bsex, [Sym("fn"), 99],
                     [[to_sexp(k), to_sexp(v)] for k, v in dsk.items()])
    ctx.eq("Layer.clone (legacy values): (layer, bound)", model, [impl, bool(bound)])
    if bound:
        ctx.branch("legacy-bound")
    if len(keys) < len(allkeys):
        ctx.branch("partial-key-set")
    # task-spec layer
    spec = convert_legacy_graph(dsk)
    new2, bound2 = MaterializedLayer(dict(spec)).clone(keys=set(keys), seed=seed, bind_to=bind_to)

    def nsx(n):
        from dask._task_spec import Task
        if isinstance(n, Task) and n.func is FUNCS_BIND:
            return [Sym("task"), [Sym("bindfirst")], [node_sexp(a) for a in n.args], []]
        return node_sexp(n)
    impl2 = [[to_sexp(k), nsx(v)] for k, v in dict(new2).items()]
    model2 = ctx.lean(Sym("clone_spec_layer"), [to_sexp(k) for k in keys], rho, bsex,
                      [[to_sexp(k), node_sexp(v)] for k, v in spec.items()])
    ctx.eq("Layer.clone (task-spec nodes): (layer, bound)", model2, [impl2, bool(bound2)])
    if bound2:
        ctx.branch("spec-bound")
    # property: with all keys cloned, the clone computes the same values under the regenerated keys
    if keys == set(allkeys) and bind_to is None:
        from dask.core import get
        for layer_new, what in ((dict(new), "legacy"), (dict(new2), "task-spec")):
            for k in allkeys:
                try:
                    a = to_sexp(get(dsk, k))
                except Exception:
                    continue
                try:
                    b = to_sexp(get(layer_new, clone_key(k, seed)))
                except Exception as e:
                    ctx.fail(f"cloned {what} layer cannot compute {clone_key(k, seed)!r}: {type(e).__name__}: {e}")
                    break
                if a != b:
                    # known divergence (C08): Layer.clone renames key-like values inside dicts, which the real
                    # evaluation treats as literals -- attributed only if the dict semantics matters for this key
                    sig = None
                    try:
                        from props._graph_terms import ref_eval
                        if to_sexp(ref_eval(dsk, k, False, True)) != to_sexp(ref_eval(dsk, k, True, True)):
                            sig = "Layer.clone:value-changed:reference-in-dict-value"
                    except Exception:
                        sig = None
                    ctx.fail(f"cloned {what} layer computes a different value", sig=sig, observed=b, expected=a)
                    break
            if set(layer_new) & set(dsk):
                ctx.fail(f"cloned {what} layer shares keys with the original", observed=sorted(map(repr, set(layer_new) & set(dsk))))
        ctx.branch("full-clone-evaluated")


class _Log:
    def __init__(self):
        self.ev = []

    def cb(self):
        from dask.callbacks import Callback
        return Callback(pretask=lambda key, dsk, state: self.ev.append(("start", key)),
                        posttask=lambda key, result, dsk, state, id: self.ev.append(("end", key)))

    def pos(self, kind, key):
        for i, (k, kk) in enumerate(self.ev):
            if k == kind and kk == key:
                return i
        return None


def _mk_collection(spec):
    """JSON description -> dask collection (+ a function computing its reference value)"""
    import numpy as np
    kind = spec["kind"]
    if kind == "array":
        import dask.array as da
        x = da.from_array(np.arange(int(np.prod(spec["shape"]))).reshape(spec["shape"]), chunks=tuple(spec["chunks"]))
        for op in spec["ops"]:
            if op == "add":
                x = x + 1
            elif op == "T":
                x = x.T
            elif op == "sum":
                x = x.sum(axis=0) if x.ndim > 1 else x.cumsum(axis=0)
            elif op == "mul":
                x = x * x
            elif op == "getitem":       # materialized layer of task-spec nodes
                x = x[1:] if x.shape[0] > 1 else x[:1]
            elif op == "rechunk":
                x = x.rechunk(tuple(max(1, (c[0] + 1) // 2) for c in x.chunks))
            elif op == "ravel":
                x = x.ravel()
            elif op == "concat":
                import dask.array as da
                x = da.concatenate([x, x + 1])
        return x
    if kind == "bag":
        import dask.bag as db
        b = db.from_sequence(list(range(spec["n"])), npartitions=spec["np"])
        for op in spec["ops"]:
            if op == "add":
                b = b.map(_inc)
            elif op == "filter":
                b = b.filter(_even)
        return b
    if kind == "mapblocks":
        return _mk_mapblocks(spec)[0]
    from dask import delayed
    vals = [delayed(FUNCS[i % 6])(i) for i in range(spec["n"])]
    while len(vals) > 1:
        vals = [delayed(FUNCS[(len(vals) + j) % 6])(*vals[j:j + spec["fan"]]) for j in range(0, len(vals), spec["fan"])]
    return vals[0]


def _addx(blk, extra):
    return blk + extra


def _mk_extra(kind):
    """a non-array (or 0-d array) collection handed to a blockwise layer as an argument"""
    import numpy as np
    if kind == "delayed":
        from dask import delayed
        return delayed(abs)(-2)
    if kind == "item":
        import dask.bag as db
        return db.from_sequence([1, 2, 3], npartitions=2).sum()
    if kind == "count":
        import dask.bag as db
        return db.from_sequence([1, 2, 3, 4], npartitions=3).count()
    if kind == "0d":
        import dask.array as da
        return da.from_array(np.arange(3), chunks=2).sum()
    import dask.array as da      # "array": an ordinary array argument of matching length is built by the caller
    return None


def _mk_mapblocks(spec):
    """a Blockwise layer whose inputs are an array `x` and a second collection `extra` (Delayed, bag Item, 0-d array,
    or another array), built through map_blocks / blockwise / elemwise.  Returns (y, [x, extra])."""
    import dask.array as da
    x = _mk_collection(spec["base"])
    if x.ndim != 1:
        x = x.ravel()
    extra = _mk_extra(spec["extra"])
    if extra is None:
        extra = x * 2
    via = spec["via"]
    if spec["extra"] == "array" or (via == "elemwise" and spec["extra"] == "0d"):
        y = x + extra if via == "elemwise" else da.map_blocks(_addx, x, extra, dtype=x.dtype) if via == "map_blocks" \
            else da.blockwise(_addx, "i", x, "i", extra, "i" if spec["extra"] == "array" else "", dtype=x.dtype)
    elif via == "blockwise" or via == "elemwise":
        y = da.blockwise(_addx, "i", x, "i", extra, "" if spec["extra"] == "0d" else None, dtype=x.dtype)
    else:
        y = x.map_blocks(_addx, extra, dtype=x.dtype)
    return y, [x, extra]


def _inc(v):
    return v + 1


def _even(v):
    return v % 2 == 0


def _value(c, **kw):
    import numpy as np
    v = c.compute(scheduler=kw.get("scheduler", "sync"), optimize_graph=kw.get("optimize_graph", True))
    if isinstance(v, np.ndarray):
        return ["nd", list(v.shape), v.ravel().tolist()]
    try:
        return to_sexp(v)
    except TypeError:
        return repr(v)


def _mk_omit(inp, ins=None):
    """omit = 'prefix': the child's own first stage (a strict prefix sharing layers with the child);
    'self': the child itself (degenerate: everything is omitted); None"""
    how = inp.get("omit")
    ch = inp["child"]
    if ch["kind"] == "mapblocks":
        if not isinstance(how, list) or not how:
            return None, None
        # the very objects the child was built from (a Delayed has a fresh random key every time it is created)
        return [ins[i] for i in how], "inputs"
    if not how or isinstance(how, list) or ch["kind"] == "delayed":
        return None, None
    if how == "self":
        return _mk_collection(ch), "self"
    if len(ch["ops"]) < 2:
        return None, None
    om = _mk_collection(dict(ch, ops=ch["ops"][:1]))
    if _okeys(om) == _okeys(_mk_collection(ch)):
        # the remaining operations are no-ops (e.g. ravel of a 1-d array): omit *is* the child
        return om, "self"
    return om, "prefix"


SIG_AL = "{op}:assume_layers=False-with-omit:cannot-compute"
SIG_SELF = "{op}:child-listed-in-omit:cannot-compute"


def _guard(ctx, op, inp, how, fn):
    """run fn(); map the two known failure classes to their signatures, anything else is a fresh failure"""
    try:
        return True, fn()
    except Exception as e:
        sig = None
        if how == "self":
            sig = SIG_SELF.format(op=op)
        elif how in ("prefix", "inputs") and not inp.get("assume_layers", True):
            sig = SIG_AL.format(op=op)
        ctx.fail(f"{op} result cannot be computed: {type(e).__name__}: {str(e)[:120]}", sig=sig)
        return False, None


def _okeys(c):
    from dask.core import flatten
    return set(flatten(c.__dask_keys__()))


def _task_okeys(c):
    """output keys that are computed by a task (data keys are in the cache from the start: no pretask/posttask)"""
    from dask.core import istask
    g = c.__dask_graph__()
    return {k for k in _okeys(c) if istask(g[k])}


def case_api(ctx, inp):
    import dask
    from dask.graph_manipulation import bind, checkpoint, clone, wait_on
    ins = None
    if inp["child"]["kind"] == "mapblocks":
        child, ins = _mk_mapblocks(inp["child"])
    else:
        child = _mk_collection(inp["child"])
    want = _value(child)
    op = inp["op"]
    seed = inp.get("seed")
    al = inp.get("assume_layers", True)
    sched = inp.get("scheduler", "sync")
    if op == "clone":
        omit, how = _mk_omit(inp, ins)
        c = clone(child, omit=omit, seed=seed, assume_layers=al)
        ok, got = _guard(ctx, "clone", inp, how, lambda: _value(c))
        if not ok:
            return
        if got != want:
            ctx.fail("clone changes the computed value", observed=got, expected=want)
        shared = _okeys(c) & _okeys(child)
        if shared and how != "self":
            ctx.fail("clone shares output keys with the original", observed=sorted(map(repr, shared)))
        gk_c, gk_o = set(c.__dask_graph__()), set(child.__dask_graph__())
        allowed = set()
        for o in (omit if isinstance(omit, list) else [omit] if omit is not None else []):
            allowed |= set(o.__dask_graph__())
        if (gk_c & gk_o) - allowed:
            ctx.fail("clone shares graph keys with the original outside omit", observed=sorted(map(repr, (gk_c & gk_o) - allowed))[:5])
        if omit is not None:
            ctx.branch("clone-omit-" + how)
        if inp["child"]["kind"] == "mapblocks":
            ctx.branch("clone-mapblocks-" + inp["child"]["extra"])
        if seed is not None:
            c2 = clone(child, omit=omit, seed=seed, assume_layers=al)
            if set(c2.__dask_graph__()) != gk_c:
                ctx.fail("clone is not deterministic for a fixed seed")
        ctx.branch("clone-" + inp["child"]["kind"])
        return
    parent = _mk_collection(inp["parent"])
    pkeys = _task_okeys(parent)
    log = _Log()
    if op == "checkpoint":
        cp = checkpoint(child, parent, split_every=inp.get("split_every"))
        with log.cb():
            v = cp.compute(scheduler=sched, optimize_graph=False)
        if v is not None:
            ctx.fail("checkpoint does not compute to None", observed=repr(v))
        fin = log.pos("start", cp.key)
        for k in _task_okeys(child) | _task_okeys(parent):
            e = log.pos("end", k)
            if e is None or fin is None or e > fin:
                ctx.fail("checkpoint ran before a chunk of its inputs was computed", observed=[repr(k), e, fin])
                break
        ctx.branch("checkpoint")
        return
    if op == "wait_on":
        c = wait_on(child, split_every=inp.get("split_every"))
        with log.cb():
            v = c.compute(scheduler=sched, optimize_graph=False)
        got = _value(c)
        if got != want:
            ctx.fail("wait_on changes the computed value", observed=got, expected=want)
        ends = [log.pos("end", k) for k in _task_okeys(child)] or [-1]
        starts = [log.pos("start", k) for k in _okeys(c)]
        if None in ends or None in starts or max(ends) > min(starts):
            ctx.fail("wait_on: a chunk of the result started before all chunks of the input were computed",
                     observed=[max([e for e in ends if e is not None] or [-1]), min([s for s in starts if s is not None] or [-1])])
        if _okeys(c) & _okeys(child):
            ctx.fail("wait_on shares output keys with the original")
        ctx.branch("wait_on-" + inp["child"]["kind"])
        return
    # bind
    omit, how = _mk_omit(inp, ins)
    b = bind(child, parent, omit=omit, seed=seed, assume_layers=al, split_every=inp.get("split_every"))

    def run():
        with log.cb():
            b.compute(scheduler=sched, optimize_graph=False)
        return _value(b)
    ok, got = _guard(ctx, "bind", inp, how, run)
    if not ok:
        return
    if got != want:
        ctx.fail("bind changes the computed value", observed=got, expected=want)
    if _okeys(b) & _okeys(child) and how != "self":
        ctx.fail("bind shares output keys with the original", observed=sorted(map(repr, _okeys(b) & _okeys(child)))[:5])
    missing_parents = [k for k in _okeys(parent) if k not in b.__dask_graph__()]
    if missing_parents:
        ctx.fail("bind: the parents' keys are not in the graph of the bound collection (nothing makes the child wait)",
                 observed=[repr(k) for k in missing_parents][:3])
        return
    pend = [log.pos("end", k) for k in pkeys]
    if None in pend:
        ctx.fail("bind: a parent chunk was never computed", observed=[repr(k) for k in pkeys if log.pos("end", k) is None][:3])
        return
    last_parent = max(pend) if pend else -1
    orig = set(child.__dask_graph__()) | set(parent.__dask_graph__())
    for o in (omit if isinstance(omit, list) else [omit] if omit is not None else []):
        orig |= set(o.__dask_graph__())
    regenerated = [k for k in b.__dask_graph__() if k not in orig and not str(k if not isinstance(k, tuple) else k[0]).startswith("checkpoint")]
    for k in regenerated:
        s = log.pos("start", k)
        if s is not None and s < last_parent:
            ctx.fail("bind: a regenerated task of the child started before all parents were computed",
                     observed=[repr(k), s, last_parent])
            break
    if not regenerated:
        ctx.fail("bind: nothing was regenerated")
    ctx.branch("bind-" + inp["child"]["kind"])
    if omit is not None:
        ctx.branch("bind-omit-" + how)
    if inp["child"]["kind"] == "mapblocks":
        ctx.branch("bind-mapblocks-%s-omit%s" % (inp["child"]["extra"], "".join(map(str, inp.get("omit") or []))))


def case_checkpoint_tree(ctx, inp):
    """structure of the recursive aggregation of `checkpoint`"""
    from dask.graph_manipulation import checkpoint
    import dask.bag as db
    b = db.from_sequence(list(range(inp["n"])), npartitions=inp["np"])
    se = inp["split_every"]
    cp = checkpoint(b, split_every=se)
    hlg = cp.__dask_graph__()
    name = cp.key
    if name not in hlg.layers:
        ctx.note("single-key-collection")
        return
    layer = dict(hlg.layers[name])
    intern = {}

    def ik(k):
        # map keys are interned to small ints, reduce keys keep their (name, i) shape
        if k == name:
            return "cp"
        if isinstance(k, tuple) and k[0] == name:
            return [Sym("t"), "cp", k[1]]
        return intern.setdefault(k, len(intern))
    impl = []
    for k, v in layer.items():
        args = v[1] if isinstance(v, tuple) else [a.key if hasattr(a, "key") else a for a in v.args[0]]
        impl.append([ik(k), [ik(a) for a in args]])
    map_keys = [x for x in impl[-1][1] if isinstance(x, int)]
    all_map = sorted(intern.values())
    model = ctx.lean(Sym("checkpoint_reduce"), "cp", 0 if se is False else (8 if se is None else se), all_map)
    ctx.eq("checkpoint reduce layer", model, impl)
    if len(impl) > 1:
        ctx.branch("multi-level")
    # every map key feeds into the final node
    feeds = {}
    for k, ins in impl:
        for a in ins:
            feeds.setdefault(json.dumps(a), json.dumps(k))
    for m in all_map:
        cur = json.dumps(m)
        for _ in range(len(impl) + 2):
            if cur == json.dumps("cp"):
                break
            cur = feeds.get(cur)
            if cur is None:
                break
        if cur != json.dumps("cp"):
            ctx.fail("a chunk of the input does not feed into the checkpoint node", observed=m)
            break


def case_bw_layer(ctx, inp):
    """`Blockwise.clone(keys, seed, bind_to)` on the top layer of a map_blocks/blockwise collection: the `bound` flag
    (= is_leaf) against the model's `blockwiseLeaf`, for the clone-key set `bind` computes from an omit subset"""
    from dask._task_spec import TaskRef
    from dask.base import get_name_from_key
    from dask.blockwise import Blockwise
    from dask.core import ishashable
    y, ins = _mk_mapblocks(inp["child"])
    hlg = y.__dask_graph__()
    layer = hlg.layers[y.name]
    if not isinstance(layer, Blockwise):
        ctx.note("top-layer-not-blockwise")
        return
    omit = [ins[i] for i in inp["omit"]]
    keys = set(hlg.get_all_external_keys())
    for o in omit:
        for ln in o.__dask_layers__():
            if ln in hlg.layers:
                keys -= hlg.layers[ln].get_output_keys()
    new, bound = layer.clone(keys=keys, seed=inp["seed"], bind_to="blocker-key")
    names = sorted({get_name_from_key(k) for k in keys}, key=repr)
    idx = []
    for k, _ in layer.indices:
        if isinstance(k, TaskRef):
            idx.append([Sym("ref"), to_sexp(k.key)])
        elif ishashable(k) and isinstance(k, (str, tuple, int)) and not isinstance(k, bool):
            try:
                idx.append([Sym("name"), to_sexp(k)])
            except TypeError:
                idx.append([Sym("other")])
        else:
            idx.append([Sym("other")])
    m = ctx.lean(Sym("bw_leaf"), [to_sexp(n) for n in names], idx, [to_sexp(k) for k in layer.numblocks])
    ctx.eq("Blockwise.clone: bound (= is_leaf)", m, bool(bound))
    has_blocker = any(isinstance(k, TaskRef) and k.key == "blocker-key" for k, _ in new.indices)
    if has_blocker != bool(bound):
        ctx.fail("Blockwise.clone: `bound` flag and the injected blocker argument disagree", observed=[bound, has_blocker])
    # the statement behind it: a regenerated layer none of whose inputs is regenerated must be bound
    # (inputs are read off the HighLevelGraph's dependency map, not off the layer's own indices; a bag Item enters
    # through an extra `finalize` layer that is not part of the omitted collection and is therefore regenerated)
    omit_layers = {ln for o in omit for ln in o.__dask_layers__()}
    regenerated_inputs = set(hlg.dependencies[y.name]) - omit_layers
    if not regenerated_inputs and not bound:
        ctx.fail("Blockwise.clone: a regenerated layer all of whose inputs are omitted was not bound to the blocker",
                 observed=[repr(k) for k, _ in layer.indices])
    if regenerated_inputs and bound:
        ctx.fail("Blockwise.clone: a layer with a regenerated input was bound as if it were a leaf",
                 observed=sorted(map(repr, regenerated_inputs)))
    ctx.branch("bw-%s-omit%s-%s" % (inp["child"]["extra"], "".join(map(str, inp["omit"])), "bound" if bound else "inner"))


CASES = {"layer": case_layer, "api": case_api, "checkpoint_tree": case_checkpoint_tree, "bw_layer": case_bw_layer}


def _gen_coll(rng, kind=None):
    kind = kind or rng.choice(["array", "bag", "delayed"])
    if kind == "array":
        nd = rng.choice([1, 2])
        shape = [rng.randint(2, 6) for _ in range(nd)]
        return {"kind": "array", "shape": shape, "chunks": [rng.randint(1, s) for s in shape],
                "ops": [rng.choice(["add", "T", "sum", "mul", "getitem", "rechunk", "ravel", "concat"]) for _ in range(rng.randint(1, 3))]}
    if kind == "bag":
        return {"kind": "bag", "n": rng.randint(1, 12), "np": rng.randint(1, 4),
                "ops": [rng.choice(["add", "filter"]) for _ in range(rng.randint(1, 3))]}
    return {"kind": "delayed", "n": rng.randint(1, 7), "fan": rng.randint(2, 3), "ops": []}


def generate(ctx):
    rng = ctx.rng
    yield "layer", {"graph": [["a", {"t": [{"fn": 0}, 1]}], ["b", {"t": [{"fn": 1}, "a"]}]], "sel": [], "seed": 3, "bind": None}
    yield "layer", {"graph": [["a", {"t": [{"fn": 0}, 1]}], ["b", {"t": [{"fn": 1}, "a"]}]], "sel": [], "seed": 3, "bind": "blk"}
    yield "api", {"op": "clone", "child": {"kind": "delayed", "n": 3, "fan": 2, "ops": []}, "seed": 3}
    for _ in range(ctx.n(300)):
        n = rng.randint(1, 6)
        g = gen_legacy_graph(rng, n, rng.choice([(), ("dictref",)]), depth=2)
        yield "layer", {"graph": g, "sel": [rng.randrange(n) for _ in range(rng.choice([0, 0, 1, 2, 3]))],
                        "seed": rng.choice([0, 1, "s", 17]), "bind": rng.choice([None, None, "blocker-1"])}
    for _ in range(ctx.n(90)):
        op = rng.choice(["clone", "clone", "bind", "bind", "wait_on", "checkpoint"])
        inp = {"op": op, "child": _gen_coll(rng), "seed": rng.choice([None, 0, 5]), "assume_layers": rng.random() < 0.7,
               "omit": rng.choice([None, None, None, "prefix", "prefix", "self"]), "scheduler": rng.choice(["sync", "sync", "threads"]),
               "split_every": rng.choice([None, False, 2, 3])}
        if op != "clone":
            inp["parent"] = _gen_coll(rng)
        yield "api", inp
    # Blockwise layers with non-array collection arguments x every omit subset of the layer's inputs
    extras = ["delayed", "item", "count", "0d", "array"]
    vias = ["map_blocks", "blockwise", "elemwise"]
    combos = [(e, v, om) for e in extras for v in vias for om in ([], [0], [1], [0, 1])]
    rng.shuffle(combos)
    for (e, v, om) in combos:
        base = {"kind": "array", "shape": [rng.randint(2, 6)], "chunks": [rng.randint(1, 3)], "ops": [rng.choice(["add", "mul"])]}
        ch = {"kind": "mapblocks", "base": base, "extra": e, "via": v, "ops": []}
        yield "bw_layer", {"child": ch, "omit": om, "seed": rng.choice([0, 3])}
    api_combos = [c for c in combos if c[2] == [0, 1]] + [c for c in combos if c[2] != [0, 1]][:ctx.n(24, 45)]
    for (e, v, om) in api_combos:
        base = {"kind": "array", "shape": [rng.randint(2, 6)], "chunks": [rng.randint(1, 3)], "ops": [rng.choice(["add", "mul"])]}
        ch = {"kind": "mapblocks", "base": base, "extra": e, "via": v, "ops": []}
        for op in ("bind", "clone") if rng.random() < 0.4 else ("bind",):
            yield "api", {"op": op, "child": ch, "parent": _gen_coll(rng, rng.choice(["array", "bag", "delayed"])),
                          "seed": rng.choice([None, 0, 5]), "assume_layers": True, "omit": om,
                          "scheduler": rng.choice(["sync", "threads"]), "split_every": rng.choice([None, 2])}
    for _ in range(ctx.n(60)):
        yield "checkpoint_tree", {"n": rng.randint(1, 40), "np": rng.randint(1, 25), "split_every": rng.choice([None, False, 2, 3, 4, 8])}
