"""C03 — intermediate results are never released early and never leaked.

Model/theorems: lean/DaskModel/Model/Sched.lean (`release_data`, `finish_task`), lean/DaskModel/Props/C03.lean.
Tie: the controlled-executor trace diff (cache / waiting_data / released compared at every callback) with
the four clauses evaluated directly on the real snapshots; function-level diff of `finish_task` and
`release_data` on states taken from real runs and on perturbed (malformed) states, including which
exception Python raises.
"""
from __future__ import annotations

import copy
import random

from sexp import Sym

from props import _sched_util as U

PROP = "C03"
READY = True
DRIVER = "dm_sched"
LEAN_MODULES = ["DaskModel.Props.C03"]
CASE_TIMEOUT_S = 30
LEVEL_TEXT = (
    "Lean 4 theorems over the get_async model, for every acyclic graph, worker count, batch size and completion "
    "order, in every reachable state: a dependency is not released while a dependent is unfinished and is in the "
    "cache (with its denoted value) whenever a dependent is ready or running (no_early_release); finish_task for a "
    "running key never raises - the assert in release_data, the `del cache[key]` and every `.remove` succeed, so no "
    "key is released twice (release_once); a released key is never requested, all its dependents have finished and "
    "it is out of the cache (released_only_when_unneeded, results_never_released); conversely a non-requested key whose "
    "dependents have all finished has already been released, at every moment (released_promptly); on normal return the cache holds "
    "exactly the requested keys and every other visited key is released (no_leak). The *_full versions hold for the state start_state_from_dask really builds (Sched.startState_ok).")
LEVEL_NOTE = (
    "The theorems are for the empty start cache (a caller-supplied `cache=` is tied to the model in C01 only); `delete=False` is outside the model (cache starts empty, "
    "delete=True as get_async calls it). OS thread timing not modelled (adversarial completion order is). Trusted: "
    "Lean kernel + standard axioms; the harness.")
TECHNIQUE = "Lean 4 invariant proof over an adversarial state machine + differential state-trace and function-level correspondence"
ASSUMPTIONS = ["cache starts empty; delete=True"]


def oracle_release(ctx, out, inp):
    real, dag = out["real"], out["dag"]
    nodes = dag["nodes"]
    if any(nd[0] == "x" for nd in nodes):
        return
    results = set(out["flat_ids"])
    events = real["events"]
    released_at = {}
    for idx, (e, st) in enumerate(events):
        if st is None or e[0] == "start":
            continue
        deps_map = {k: set(v) for k, v in st[0]}
        dts_map = {k: set(v) for k, v in st[1]}
        cache = {c[0] for c in st[4]}
        finished, released = set(st[7]), set(st[8])
        if released & results:
            ctx.fail("a requested key was released", observed=sorted(released & results))
        if released & cache:
            ctx.fail("a released key is still in the cache", observed=sorted(released & cache))
        for d in released:
            released_at.setdefault(d, idx)
            bad = sorted(j for j in dts_map.get(d, ()) if j not in finished)
            if bad:
                ctx.fail("a result was released before a dependent finished", observed=[d, bad])
        # every unfinished needed task still finds its finished dependencies in the cache
        running = set(st[6])
        for k in list(running) + list(st[5]):
            for d in deps_map.get(k, ()):
                if d not in cache:
                    ctx.fail("a dependency of a ready/running task is not in the cache", observed=[k, d, e])
        wd = {k: set(v) for k, v in st[3]}
        for d, s in wd.items():
            want = {j for j in dts_map.get(d, ()) if j not in finished}
            if e[0] != "posttask" and s != want:
                ctx.fail("waiting_data is not the set of unfinished dependents", observed=[d, sorted(s), sorted(want)])
    if real["error"] is None and events and events[-1][0][0] == "finish":
        st = events[-1][1]
        cache = {c[0] for c in st[4]}
        seen = {k for k, _ in st[0]}
        if cache != (results & seen):
            ctx.fail("at return the cache does not hold exactly the requested keys (leak or loss)",
                     observed=sorted(cache), expected=sorted(results & seen))
        if set(st[8]) != seen - results:
            ctx.fail("at return the released set is not (visited keys - requested keys)", observed=sorted(st[8]),
                     expected=sorted(seen - results))
        if st[2] or st[5] or st[6]:
            ctx.fail("at return waiting/ready/running are not empty", observed=[st[2], st[5], st[6]])


def case_trace(ctx, inp):
    out = U.run_trace(ctx, inp)
    oracle_release(ctx, out, inp)
    ev = out["real"]["events"]
    if ev and ev[-1][1] and ev[-1][1][8]:
        ctx.branch("something-released")
    n_int = len(out["dag"]["nodes"]) - len(set(out["flat_ids"]))
    if n_int >= 3:
        ctx.branch(">=3 intermediate keys")
    if any(nd[0] == "d" for nd in out["dag"]["nodes"]) and ev and ev[-1][1] and any(
            out["dag"]["nodes"][d][0] == "d" for d in ev[-1][1][8]):
        ctx.branch("data-node-released")
    if len(out["real"]["choices"]) >= 2 and any(c > 0 for c in out["real"]["choices"]):
        ctx.branch("non-fifo-completion")
    if inp.get("fails"):
        ctx.branch("failing-task")


def case_exh(ctx, inp):
    def run_with(prefix, branching):
        sub = dict(inp, choices=prefix)
        out = U.run_trace(ctx, sub)
        branching.extend(out["real"]["branching"])
        oracle_release(ctx, out, sub)
    n = U.enumerate_schedules(run_with, limit=inp.get("limit", 300))
    ctx.note("schedules_enumerated", n)
    if n > 1:
        ctx.branch("exh:several-orders")


def _err_class(e):
    if isinstance(e, KeyError):
        return "keyError"
    if isinstance(e, AssertionError):
        return "assertion"
    return type(e).__name__


def _perturb(rng, st):
    """one mutation of a serialised state that makes it inconsistent (error branches of finish_task)"""
    st = copy.deepcopy(st)
    kind = rng.choice(["drop_waiting", "drop_wd_member", "drop_cache", "drop_running", "drop_wd_entry", "nonempty_wd",
                       "drop_waiting_member"])
    try:
        if kind == "drop_waiting" and st[2]:
            st[2].pop(rng.randrange(len(st[2])))
        elif kind == "drop_waiting_member" and st[2]:
            e = rng.choice(st[2]); e[1].pop(rng.randrange(len(e[1])))
        elif kind == "drop_wd_member":
            cand = [e for e in st[3] if e[1]]
            e = rng.choice(cand); e[1].pop(rng.randrange(len(e[1])))
        elif kind == "drop_cache" and st[4]:
            st[4].pop(rng.randrange(len(st[4])))
        elif kind == "drop_running" and st[6]:
            st[6].pop(rng.randrange(len(st[6])))
        elif kind == "drop_wd_entry" and st[3]:
            st[3].pop(rng.randrange(len(st[3])))
        elif kind == "nonempty_wd" and st[3]:
            e = rng.choice(st[3]); e[1] = sorted(set(e[1]) | {rng.choice(st[0])[0]})
    except (IndexError, ValueError):
        pass
    return st, kind


def case_finish(ctx, inp):
    """finish_task / release_data at function level on a given (possibly malformed) state"""
    from dask.local import finish_task, release_data
    st, key, results, prio, op = inp["state"], inp["key"], inp["results"], inp["prio"], inp["op"]
    n = 1 + max([key] + [k for part in st[:4] for k, v in part] + [x for part in st[:4] for k, v in part for x in v]
                + [c[0] for c in st[4]] + st[5] + st[6] + st[7] + st[8] + results + [0])
    keys = [U.key_of(i, inp.get("keys", "str")) for i in range(n)]
    idof = {k: i for i, k in enumerate(keys)}
    real_state = U.unser_state(st, keys)
    pr = dict((k, p) for k, p in prio)
    try:
        if op == "finish_task":
            finish_task({}, keys[key], real_state, {keys[r] for r in results}, lambda k: pr.get(idof[k], 0))
        else:
            release_data(keys[key], real_state)
        impl = [Sym("ok"), U.ser_state(real_state, idof)]
    except (KeyError, AssertionError) as e:
        impl = [Sym("raised"), _err_class(e)]
    if op == "finish_task":
        model = ctx.lean(Sym("finish_task"), st, key, results, prio)
    else:
        model = ctx.lean(Sym("release_data"), st, key)
    if model[0] == "raised":
        model = [model[0], str(model[1][0])]
        ctx.branch(f"{op}:raises:{model[1]}")
        if inp.get("kind"):
            ctx.branch("perturbation:" + inp["kind"])
    else:
        ctx.branch(f"{op}:ok")
        before, after = st, model[1]
        if len(after[8]) > len(before[8]):
            ctx.branch(f"{op}:releases")
        if len(after[5]) > len(before[5]):
            ctx.branch(f"{op}:makes-ready")
    # ties in priority make the order of the newly ready keys unknowable: compare as sets then
    vals = [p for _, p in prio]
    if len(set(vals)) != len(vals) and impl[0] == "ok" and model[0] == "ok":
        impl[1][5], model[1][5] = sorted(impl[1][5]), sorted(model[1][5])
    ctx.eq(op, model, impl)


CASES = {"trace": case_trace, "exh": case_exh, "finish": case_finish}


def _states_from_run(ctx_rng, n_max):
    """run the real scheduler once, return (snapshots at pretask/posttask with the running keys, prio, results)"""
    rng = ctx_rng
    inp = U.gen_trace_input(rng, max_n=n_max)
    dag, req = inp["dag"], inp["req"]
    if any(nd[0] == "x" for nd in dag["nodes"]):
        return []
    dsk, keys = U.render(dag)
    idof = {k: i for i, k in enumerate(keys)}
    real = U.controlled_run(dsk, U.map_req(req, lambda i: keys[i]), inp["nw"], inp["cs"],
                            U.rng_chooser(random.Random(inp["seed"]), inp["bias"]), idof)
    try:
        prio, _ = U.priorities(dsk, idof)
    except Exception:
        return []
    outs = []
    for e, st in real["events"]:
        if st and e[0] in ("submit", "pretask", "posttask") and st[6]:
            outs.append((st, prio, sorted(set(U.flatten_req(req))), dag["keys"]))
    return outs


def generate(ctx):
    rng = ctx.rng
    for _ in range(ctx.n(1500, 8000)):
        yield "trace", U.gen_trace_input(rng, max_n=rng.choice([4, 7, 10, 14, 18]), fail_p=0.1)
    for n in range(1, 6 if ctx.thorough() else 5):
        dags = list(U.all_dags(n))
        if n == 5:
            dags = rng.sample(dags, 300)
        elif n == 4 and not ctx.thorough():
            dags = rng.sample(dags, 150)
        for nodes in dags:
            dag = {"nodes": nodes, "keys": rng.choice(["str", "tuple", "int", "falsy"]), "style": rng.choice(["legacy", "spec", "mixed"])}
            for req in ([n - 1], list(range(n)), rng.choice([[], [[], []], [[], [0]]])):
                yield "exh", {"dag": dag, "req": req, "nw": rng.choice([1, 2, 3]), "cs": rng.choice([1, 2, -1]),
                              "fails": {}, "seed": 0, "bias": None, "limit": 300}
    # function level: finish_task / release_data on real intermediate states and on perturbed ones
    budget = ctx.n(600, 9000)
    made = 0
    while made < budget:
        snaps = _states_from_run(rng, rng.choice([5, 9, 14]))
        rng.shuffle(snaps)
        for st, prio, results, kk in snaps[:6]:
            key = rng.choice(st[6])
            made += 1
            yield "finish", {"state": st, "key": key, "results": results, "prio": prio, "op": "finish_task", "keys": kk}
            if rng.random() < 0.6:
                st2, kind = _perturb(rng, st)
                made += 1
                yield "finish", {"state": st2, "key": key, "results": results, "prio": prio, "op": "finish_task",
                                 "keys": kk, "kind": kind}
            if rng.random() < 0.4:
                cand = [k for k, _ in st[0]]
                made += 1
                yield "finish", {"state": st, "key": rng.choice(cand), "results": results, "prio": prio,
                                 "op": "release_data", "keys": kk}
        if not snaps:
            made += 1


def search(ctx):
    rng = ctx.rng
    for _ in range(ctx.n(2000, 8000)):
        yield "trace", U.gen_trace_input(rng, max_n=rng.choice([4, 7, 10]), fail_p=0.1)
