"""C48 — bag operations equal their Python reference.

Model:    lean/DaskModel/Model/BagOps.lean (accumulate, take, repartition incl. the binary64 cut points of split() and
          repartition(partition_size), from_sequence, fold/foldby (three variants)/topk/frequencies/distinct/sum/count/max/
          mean/var as instances of Bag.reduction, product, zip), Model/BagReduce.lean (the reduction tree),
          Model/BagShuffle.lean (groupby_tasks staged routing, groupby_disk incl. the block-by-block disk shuffle),
          Model/BagLazify.lean (lazify_task / _count_references / the keep set on task-spec terms)
Theorems: lean/DaskModel/Props/C48.lean, lean/DaskModel/Props/C48Lazify.lean
Tie:      function level: every modelled operation on generated partitionings (empty partitions, split_every,
          max_branch forcing multi-stage shuffles) against the Lean model; property oracles against plain Python;
          API level: pipelines over ints/strings/tuples/dicts vs plain Python.
"""
from __future__ import annotations

import collections
import functools
import itertools
import math
import operator
import random

from sexp import Sym

PROP = "C48"
READY = True
DRIVER = "dm_bag"
LEAN_MODULES = ["DaskModel.Props.C48", "DaskModel.Props.C48Lazify"]
CASE_TIMEOUT_S = 60
TECHNIQUE = "Lean 4 proof (invariant principle for the reduction tree, digit arithmetic of the staged shuffle, scan/partition lemmas, exact binary64 rounding for split) + differential correspondence"
ASSUMPTIONS = [
    "functions passed to the bag are pure and consume a partition once; binop/combine/initial of fold / foldby form a homomorphism (stated as hypothesis of bag_fold_eq, foldby_eq, foldby_noci_eq)",
    "groupby_tasks: k^stages >= npartitions for the (stages, k) the REAL function computes with math.log / ** (recorded from the function itself, not from a copy of the formula; every npartitions < 400 quick / <= 2000 thorough, max_branch in {2,3,..,32})",
    "tokenize-based hash of a key is a function of the key",
    "IEEE-754 binary64 round-to-nearest-even for int/int true division and float*int (the cut points of split(); modelled exactly, scale 2^-1074)",
    "sizeof() of a partition and dask.utils.iter_chunks are inputs of the repartition(partition_size) model (recorded from the real call)",
]
TRUSTED = ["toolz (groupby, reduceby, unique, topk, frequencies, partition_all, join) as reference semantics",
           "partd files of the disk shuffle"]

BINOPS = {
    "add": operator.add, "mul": operator.mul, "sub": operator.sub, "max": max, "min": min,
    "right": lambda a, x: x, "left": lambda a, x: a, "lin": lambda a, x: 2 * a + x,
}
# (binop, combine, initial) triples for which the sequential fold is the reference
HOM = [("add", "add", 0), ("mul", "mul", 1), ("max", "max", -10 ** 9), ("min", "min", 10 ** 9)]


def mk_bag(parts):
    from dask.bag.core import Bag
    name = "verif-c48-%d" % random.getrandbits(60)
    return Bag({(name, i): list(p) for i, p in enumerate(parts)}, name, len(parts))


def parts_of(b):
    return [list(p) for p in b.map_partitions(lambda p: [list(p)]).compute(scheduler="sync")]


def se_eff(se, nparts):
    return 8 if se is None else (nparts if se is False else se)


def _ok(v):
    return [Sym("ok"), v]


# ----------------------------------------------------------------------------------------------
# function level
# ----------------------------------------------------------------------------------------------

def case_accumulate(ctx, inp):
    from dask.utils import no_default
    parts, op, init = inp["parts"], inp["op"], inp["init"]
    flat = [x for p in parts for x in p]
    want = list(itertools.accumulate(flat, BINOPS[op])) if init is None else \
        list(itertools.accumulate(flat, BINOPS[op], initial=init))
    try:
        got = parts_of(mk_bag(parts).accumulate(BINOPS[op], no_default if init is None else init))
    except Exception as e:
        ctx.fail(f"accumulate raised {type(e).__name__}: {e}", observed=repr(e), expected=want)
        return
    ctx.eq("Bag.accumulate partitions", ctx.lean(Sym("accumulate"), Sym(op), init, parts), got)
    if [x for p in got for x in p] != want:
        ctx.fail("accumulate differs from itertools.accumulate on the concatenated sequence", observed=got, expected=want)
    if any(not p for p in parts):
        ctx.branch("empty-partition")
        if not parts[0] and flat and init is None:
            ctx.branch("empty-first-partition-no-initial")
    if len(parts) > 1 and flat:
        ctx.branch("carry-across-partitions")


def case_take(ctx, inp):
    parts, k, n = inp["parts"], inp["k"], inp["n"]
    b = mk_bag(parts)
    try:
        got = _ok(list(b.take(k, npartitions=-1 if n is None else n, warn=False)))
    except ValueError:
        got = [Sym("raised")]
    ctx.eq("Bag.take", ctx.lean(Sym("take"), k, n, parts), got)
    nn = len(parts) if n is None else n
    if got[0] == "ok":
        want = [x for p in parts[:max(nn, 1)] for x in p][:k]
        if got[1] != want:
            ctx.fail("take is not the first k elements of the first npartitions partitions", observed=got[1], expected=want)
        if n is None and got[1] != [x for p in parts for x in p][:k]:
            ctx.fail("take(npartitions=-1) is not islice(seq, k)", observed=got[1])
        if nn > 1:
            ctx.branch("several-partitions")
        if len(got[1]) < k:
            ctx.branch("fewer-than-k-available")
    elif nn <= len(parts):
        ctx.fail("take raised although enough partitions exist")
    else:
        ctx.branch("too-many-partitions-requested")


def case_repartition(ctx, inp):
    from dask.bag.core import split
    parts, m = inp["parts"], inp["m"]
    b = mk_bag(parts)
    r = b.repartition(npartitions=m)
    got = parts_of(r)
    n = len(parts)
    cuts = []
    if m > n:
        ns = ctx.lean(Sym("nsplits"), n, m)
        for p, k in zip(parts, ns):
            part = len(p) / k
            cuts.append([int(part * i) for i in range(k)])
            if k > 1 and split(list(p), k) != [p[a:b] for a, b in zip(cuts[-1], cuts[-1][1:] + [len(p)])]:
                ctx.disagree("split(seq, n) is not the slices at int(len/n*i)", None, split(list(p), k))
    ctx.eq("repartition partitions", ctx.lean(Sym("repartition"), m, cuts, parts), got)
    # the model's OWN binary64 cut points (splitCuts: int(len/k*i) via round53) — no Python copy in between
    ctx.eq("repartition partitions (model cut points)", ctx.lean(Sym("repartitionieee"), m, parts), got)
    if m < n:
        ctx.eq("repartition boundaries", ctx.lean(Sym("boundaries"), n, m)[-1], n)
    if [x for p in got for x in p] != [x for p in parts for x in p]:
        ctx.fail("repartition changed the sequence", observed=got)
    if r.npartitions != m or len(got) != m:
        ctx.fail("repartition(npartitions=m) does not have m partitions", observed=[r.npartitions, len(got)], expected=m)
    if m < n:
        ctx.branch("fewer")
        if [int(i * (n / m)) for i in range(m + 1)] != [i * n // m for i in range(m + 1)]:
            ctx.branch("fewer:float-boundary-would-differ")
    elif m > n:
        ctx.branch("more")
        if any(len(p) >= 9 for p in parts):
            ctx.branch("more:long-partition")


def case_split(ctx, inp):
    """dask.bag.core.split(seq, k) for one length and a range of k: k consecutive slices that concatenate to the
    sequence, at the cut points the Lean model computes itself (`splitCuts`, exact binary64)."""
    from dask.bag.core import split
    L = inp["len"]
    seq = list(range(L))
    for k in range(inp["k0"], inp["k1"]):
        got = split(seq, k)
        cuts = ctx.lean(Sym("splitcuts"), L, k)
        want = [seq[a:b] for a, b in zip(cuts, cuts[1:] + [L])]
        if got != want:
            ctx.disagree(f"split(range({L}), {k}) vs the slices at the model's cut points", want, got)
        if [x for p in got for x in p] != seq:
            ctx.fail(f"split(range({L}), {k}) does not concatenate to the sequence (element lost or duplicated)",
                     observed=got, expected=seq)
        if len(got) != k:
            ctx.fail(f"split(range({L}), {k}) does not return k pieces", observed=len(got))
        if cuts != [i * L // k for i in range(k)]:
            ctx.branch("split:float-cut-differs-from-integer-division")
    if L < inp["k1"] - 1:
        ctx.branch("split:more-pieces-than-elements")
    ctx.branch("split")


def case_repartsize(ctx, inp):
    """repartition(partition_size=…): the real _split_partitions / _repartition_from_boundaries arguments
    (nsplits, boundaries) are recorded and handed to the Lean model; result partitions diffed."""
    import dask.bag.core as bc
    parts, size = inp["parts"], inp["size"]
    b = mk_bag(parts)
    rec = {}
    o_split, o_bound = bc._split_partitions, bc._repartition_from_boundaries

    def r_split(bag, nsplits, new_name):
        rec["nsplits"] = list(nsplits)
        return o_split(bag, nsplits, new_name)

    def r_bound(bag, boundaries, new_name):
        boundaries = list(boundaries)
        rec["bounds"] = list(boundaries)
        rec["n_in"] = bag.npartitions
        return o_bound(bag, boundaries, new_name)

    bc._split_partitions, bc._repartition_from_boundaries = r_split, r_bound
    try:
        r = b.repartition(partition_size=size)
    finally:
        bc._split_partitions, bc._repartition_from_boundaries = o_split, o_bound
    got = parts_of(r)
    flat = [x for p in parts for x in p]
    if [x for p in got for x in p] != flat:
        ctx.fail("repartition(partition_size) changed the sequence", observed=got, expected=flat)
    if r.npartitions != len(got):
        ctx.fail("repartition(partition_size): npartitions attribute differs from the number of partitions",
                 observed=[r.npartitions, len(got)])
    nsplits = rec.get("nsplits", [1] * len(parts))
    bounds = rec["bounds"]
    chunks = [b_ - a for a, b_ in zip([0] + bounds, bounds)]
    if sum(chunks) != rec["n_in"] or any(c <= 0 for c in chunks) or sum(nsplits) != rec["n_in"]:
        ctx.disagree("repartition_size: chunk lengths are not positive numbers adding up to the split partitions",
                     None, [nsplits, bounds, rec["n_in"]])
    ctx.eq("repartition(partition_size) partitions", ctx.lean(Sym("repartitionsize"), nsplits, chunks, parts), got)
    if "nsplits" in rec:
        ctx.branch("repartsize:split")
        if any(k >= 9 for k in nsplits):
            ctx.branch("repartsize:split>=9-ways")
    if len(chunks) < rec["n_in"]:
        ctx.branch("repartsize:concat")


def case_stats(ctx, inp):
    """mean / var / std: the exact integer moments (Lean: meanB, varB = (Σx², Σx, n) for every partitioning) put
    through the final formula as exact fractions vs the floats dask returns; raising iff the model says so."""
    from fractions import Fraction
    from dask.bag import chunk
    parts, ddof = inp["parts"], inp["ddof"]
    flat = [x for p in parts for x in p]
    b = mk_bag(parts)
    for p in parts:       # function level: var_chunk on one partition
        sq, tot, n = chunk.var_chunk(iter(p))
        if (sq, tot, n) != (float(sum(x * x for x in p)), float(sum(p)), len(p)):
            ctx.disagree("var_chunk", [sum(x * x for x in p), sum(p), len(p)], [sq, tot, n])

    def run(f):
        try:
            return [Sym("ok"), f()]
        except Exception as e:      # ZeroDivisionError / ValueError: nothing to average
            return [Sym("raised"), type(e).__name__]

    m = ctx.lean(Sym("mean"), parts)
    gm = run(lambda: b.mean().compute(scheduler="sync"))
    if m[0] != gm[0]:
        ctx.disagree("Bag.mean returns / raises", m, gm)
    elif m[0] == "ok":
        if [m[1], m[2]] != [sum(flat), len(flat)]:
            ctx.fail("mean: total/count differ from sum(seq)/len(seq)", observed=m)
        want = Fraction(m[1], m[2])
        if abs(Fraction(gm[1]) - want) > Fraction(1, 10 ** 9) * (1 + abs(want)):
            ctx.fail("mean differs from sum(seq)/len(seq)", observed=gm[1], expected=float(want))
    v = ctx.lean(Sym("var"), ddof, parts)
    gv = run(lambda: b.var(ddof=ddof).compute(scheduler="sync"))
    gs = run(lambda: b.std(ddof=ddof).compute(scheduler="sync"))
    if v[0] != gv[0]:
        ctx.disagree("Bag.var returns / raises", v, gv)
    elif v[0] == "ok":
        x2, x, n = v[1], v[2], v[3]
        if [x2, x, n] != [sum(y * y for y in flat), sum(flat), len(flat)]:
            ctx.fail("var: moments differ from those of the sequence", observed=v)
        want = Fraction(n * x2 - x * x, n * (n - ddof))       # (x2/n - (x/n)^2) * n / (n - ddof)
        if abs(Fraction(gv[1]) - want) > Fraction(1, 10 ** 8) * (1 + abs(want)):
            ctx.fail("var differs from the variance of the sequence", observed=gv[1], expected=float(want))
        if want >= 0:
            if gs[0] != "ok" or abs(gs[1] - math.sqrt(float(want))) > 1e-7 * (1 + math.sqrt(float(want))):
                ctx.fail("std differs from sqrt(var)", observed=gs, expected=math.sqrt(float(want)))
        else:
            ctx.branch("stats:n<ddof-negative-variance")
    else:
        ctx.branch("stats:raises")
    if any(not p for p in parts) and len(parts) > 1:
        ctx.branch("empty-partition")
    ctx.branch("stats")


def _reference_fold(flat, op, init):
    return functools.reduce(BINOPS[op], flat, init)


def case_reduce(ctx, inp):
    """fold / sum / count / max / topk / frequencies / distinct / foldby through Bag.reduction."""
    parts, se, kind = inp["parts"], inp["se"], inp["kind"]
    flat = [x for p in parts for x in p]
    b = mk_bag(parts)
    see = se_eff(se, len(parts))
    allempty = not flat

    def run(f):
        try:
            return _ok(f())
        except (TypeError, ValueError) as e:
            return [Sym("raised")]

    if kind == "fold":
        op, cop, init = inp["op"], inp["cop"], inp["init"]
        got = run(lambda: b.fold(BINOPS[op], BINOPS[cop], initial=init, split_every=se).compute(scheduler="sync"))
        ctx.eq("Bag.fold", ctx.lean(Sym("fold"), Sym(op), Sym(cop), init, see, parts), got[1] if got[0] == "ok" else got)
        if [op, cop, init] in [list(h) for h in HOM]:
            want = _reference_fold(flat, op, init)
            if got != _ok(want):
                ctx.fail("fold differs from functools.reduce on the concatenated sequence", observed=got, expected=want)
            ctx.branch("fold-homomorphism")
        if allempty and len(parts) > 1:
            ctx.branch("fold-all-partitions-empty")
    elif kind == "foldnoinit":
        op, cop = inp["op"], inp["cop"]
        got = run(lambda: b.fold(BINOPS[op], BINOPS[cop], split_every=se).compute(scheduler="sync"))
        ctx.eq("Bag.fold (no initial)", ctx.lean(Sym("foldnoinit"), Sym(op), Sym(cop), see, parts), got)
        if op == cop and op in ("add", "mul", "max", "min"):
            if flat and got != _ok(functools.reduce(BINOPS[op], flat)):
                ctx.fail("fold (no initial) differs from functools.reduce", observed=got)
            if not flat and got[0] != "raised":
                ctx.fail("fold (no initial) of an empty bag returned a value; reduce() raises TypeError", observed=got)
    elif kind == "sum":
        got = run(lambda: b.sum(split_every=se).compute(scheduler="sync"))
        ctx.eq("Bag.sum", ctx.lean(Sym("sum"), see, parts), got[1] if got[0] == "ok" else got)
        if got != _ok(sum(flat)):
            ctx.fail("sum differs", observed=got, expected=sum(flat))
        got = run(lambda: b.count(split_every=se).compute(scheduler="sync"))
        ctx.eq("Bag.count", ctx.lean(Sym("count"), see, parts), got[1] if got[0] == "ok" else got)
        if got != _ok(len(flat)):
            ctx.fail("count differs", observed=got, expected=len(flat))
    elif kind == "max":
        got = run(lambda: b.max(split_every=se).compute(scheduler="sync"))
        ctx.eq("Bag.max", ctx.lean(Sym("max"), see, parts), got)
        if (flat and got != _ok(max(flat))) or (not flat and got[0] != "raised"):
            ctx.fail("max differs from max(seq) (ValueError when empty)", observed=got)
        gmin = run(lambda: b.min(split_every=se).compute(scheduler="sync"))
        ctx.eq("Bag.min", ctx.lean(Sym("min"), see, parts), gmin)
        bools = [[1 if x > 0 else 0 for x in p] for p in parts]
        bb = mk_bag([[bool(x) for x in p] for p in bools])
        ctx.eq("Bag.any/all", ctx.lean(Sym("anyall"), see, bools),
               [bool(bb.any(split_every=se).compute(scheduler="sync")), bool(bb.all(split_every=se).compute(scheduler="sync"))])
        if (flat and gmin != _ok(min(flat))) or (not flat and gmin[0] != "raised"):
            ctx.fail("min differs from min(seq)", observed=gmin)
    elif kind == "topk":
        k = inp["k"]
        got = run(lambda: list(b.topk(k, split_every=se).compute(scheduler="sync")))
        ctx.eq("Bag.topk", ctx.lean(Sym("topk"), k, see, parts), got[1] if got[0] == "ok" else got)
        if got != _ok(sorted(flat, reverse=True)[:k]):
            ctx.fail("topk differs from sorted(seq, reverse=True)[:k]", observed=got)
    elif kind == "freq":
        got = run(lambda: [list(kv) for kv in b.frequencies(split_every=se).compute(scheduler="sync")])
        ctx.eq("Bag.frequencies", ctx.lean(Sym("freq"), see, parts), got[1] if got[0] == "ok" else got)
        if got[0] != "ok" or dict(map(tuple, got[1])) != dict(collections.Counter(flat)) or len(got[1]) != len(set(flat)):
            ctx.fail("frequencies differs from collections.Counter", observed=got)
        got = run(lambda: list(b.distinct().compute(scheduler="sync")))
        ctx.eq("Bag.distinct", ctx.lean(Sym("distinct"), parts), got[1] if got[0] == "ok" else got)
        if got[0] != "ok" or sorted(got[1]) != sorted(set(flat)):
            ctx.fail("distinct differs from set(seq)", observed=got)
    elif kind == "foldby":
        km, op, init, cop, cinit = inp["km"], inp["op"], inp["init"], inp["cop"], inp["cinit"]
        got = run(lambda: [list(kv) for kv in b.foldby(lambda x: x % km, BINOPS[op], init, BINOPS[cop], cinit,
                                                        split_every=se).compute(scheduler="sync")])
        ctx.eq("Bag.foldby", ctx.lean(Sym("foldby"), km, Sym(op), init, Sym(cop), cinit, see, parts),
               got[1] if got[0] == "ok" else got)
        if [op, cop, init] in [list(h) for h in HOM] and cinit == init:
            want = {}
            for x in flat:
                want[x % km] = BINOPS[op](want.get(x % km, init), x)
            if got[0] != "ok" or dict(map(tuple, got[1])) != want:
                ctx.fail("foldby differs from the key-wise sequential fold", observed=got, expected=want)
            ctx.branch("foldby-homomorphism")
    elif kind == "foldbynoci":
        # foldby(key, binop, initial, combine) WITHOUT combine_initial: levels are merge_with(reduce(combine))
        km, op, init, cop = inp["km"], inp["op"], inp["init"], inp["cop"]
        got = run(lambda: [list(kv) for kv in b.foldby(lambda x: x % km, BINOPS[op], init, BINOPS[cop],
                                                        split_every=se).compute(scheduler="sync")])
        ctx.eq("Bag.foldby (no combine_initial)", ctx.lean(Sym("foldbynoci"), km, Sym(op), init, Sym(cop), see, parts),
               got[1] if got[0] == "ok" else got)
        if [op, cop, init] in [list(h) for h in HOM]:
            want = {}
            for x in flat:
                want[x % km] = BINOPS[op](want.get(x % km, init), x)
            if got[0] != "ok" or dict(map(tuple, got[1])) != want or len(got[1]) != len(want):
                ctx.fail("foldby (no combine_initial) differs from the key-wise sequential fold", observed=got, expected=want)
            ctx.branch("foldby-homomorphism")
    elif kind == "foldbynoinit":
        # foldby(key, binop[, combine=…]) with no initial value at all
        km, op, cop = inp["km"], inp["op"], inp["cop"]
        got = run(lambda: [list(kv) for kv in b.foldby(lambda x: x % km, BINOPS[op], combine=BINOPS[cop],
                                                        split_every=se).compute(scheduler="sync")])
        ctx.eq("Bag.foldby (no initial)", ctx.lean(Sym("foldbynoinit"), km, Sym(op), Sym(cop), see, parts),
               got[1] if got[0] == "ok" else got)
        if op == cop and op in ("add", "mul", "max", "min"):
            want = {}
            for x in flat:
                want[x % km] = BINOPS[op](want[x % km], x) if x % km in want else x
            if got[0] != "ok" or dict(map(tuple, got[1])) != want or len(got[1]) != len(want):
                ctx.fail("foldby (no initial) differs from the key-wise functools.reduce", observed=got, expected=want)
            ctx.branch("foldby-associative-operator")
    if len(parts) > see:
        ctx.branch("multi-level-tree")
    if any(not p for p in parts) and len(parts) > 1:
        ctx.branch("empty-partition")
    ctx.branch("kind:" + kind)


class _StopGraph(Exception):
    pass


def real_stages_k(n, max_branch):
    """(stages, k, k**stages) as the REAL dask.bag.core.groupby_tasks computes them for a bag of n partitions:
    the function itself runs up to the first `digit(i, j, k)` of its `inputs` comprehension — the arguments of
    `range(k**stages)`, `range(stages)` and `digit(…, k)` are recorded, then graph construction is abandoned.
    (A change of the float formula for stages / k is seen here; a change of the surrounding code makes this raise,
    which is reported as a broken correspondence.)"""
    import dask.bag.core as bc
    rec = []

    class FakeBag:
        npartitions = n

    def fake_range(*a):
        rec.append(a)
        return range(*a)

    def fake_digit(i, j, k):
        rec.append(("k", k))
        raise _StopGraph

    old_digit = bc.digit
    bc.digit, bc.range = fake_digit, fake_range
    try:
        bc.groupby_tasks(FakeBag(), None, hash=None, max_branch=max_branch)
    except _StopGraph:
        pass
    finally:
        bc.digit = old_digit
        del bc.range
    (K,), (stages,), (_, k) = rec[0], rec[1], rec[2]
    return stages, k, K


def stages_k_of_graph(g):
    """(stages, k) read off the graph groupby_tasks built: the digit tuples of the join keys have `stages` entries,
    every group is split `k` ways."""
    inps = [key[2] for key in g.dask if isinstance(key, tuple) and str(key[0]).startswith("shuffle-join-") and key[1] == 0]
    stages = len(inps[0])
    inp0 = inps[0]
    k = sum(1 for key in g.dask if isinstance(key, tuple) and str(key[0]).startswith("shuffle-split-")
            and key[1] == 1 and key[3] == inp0)
    if len(inps) != g.npartitions or k ** stages != g.npartitions:
        raise AssertionError(f"groupby_tasks graph: {len(inps)} inputs, npartitions {g.npartitions}, k={k}, stages={stages}")
    return stages, k


def case_stagesk(ctx, inp):
    """The hypothesis of the routing theorems (npartitions <= k^stages), for the values the REAL function computes."""
    n, mb = inp["n"], inp["mb"]
    stages, k, K = real_stages_k(n, mb)
    if K != k ** stages:
        ctx.disagree("groupby_tasks: number of inputs is not k**stages", k ** stages, K)
    if k ** stages < n:
        ctx.fail("groupby_tasks: k**stages < npartitions — input partitions would be dropped", observed=[n, mb, stages, k])
    if stages > 1:
        ctx.branch("multi-stage")
    if k ** stages > n:
        ctx.branch("padding-partitions")


def case_digits(ctx, inp):
    from dask.utils import digit, insert
    t, s, v, k, st = inp["t"], inp["s"], inp["v"], inp["k"], inp["stages"]
    ctx.eq("digit", ctx.lean(Sym("digit"), t, s, k), digit(t, s, k))
    tup = tuple(digit(t, j, k) for j in range(st))
    new = insert(tup, s, v)
    ctx.eq("insert on the digit tuple", ctx.lean(Sym("setdigit"), t, s, v, k), sum(d * k ** j for j, d in enumerate(new)))
    ctx.branch("digits")


def case_groupby_tasks(ctx, inp):
    """groupby_tasks with a controlled hash: final placement and grouping vs the Lean staged routing."""
    from dask.bag.core import groupby_tasks
    parts, km, hs, mb = inp["parts"], inp["km"], inp["hashes"], inp["mb"]
    b = mk_bag(parts)
    g = groupby_tasks(b, lambda x: x % km, hash=lambda key: hs[key], max_branch=mb)
    got = [[[k, list(v)] for k, v in p] for p in parts_of(g)]
    stages, k = stages_k_of_graph(g)
    if (stages, k) != real_stages_k(len(parts), mb)[:2]:
        ctx.disagree("(stages, k) of the graph vs of the function prefix", real_stages_k(len(parts), mb)[:2], [stages, k])
    model = ctx.lean(Sym("groupbytasks"), k, stages, km, hs, parts)
    ctx.eq("groupby_tasks partitions", model, got)
    flat = [x for p in parts for x in p]
    want = collections.defaultdict(list)
    for x in flat:
        want[x % km].append(x)
    seen = {}
    K = k ** stages
    for t, p in enumerate(got):
        for key, vals in p:
            if key in seen:
                ctx.fail("groupby_tasks: a key appears in two output partitions", observed=[key, seen[key], t])
            seen[key] = t
            if hs[key] % K != t:
                ctx.fail("groupby_tasks: group is not in partition hash % k**stages", observed=[key, hs[key], t, K])
            if sorted(vals) != sorted(want[key]):
                ctx.fail("groupby_tasks: group differs from the Python groupby", observed=[key, vals], expected=want[key])
    if set(seen) != set(want):
        ctx.fail("groupby_tasks: keys lost", observed=sorted(seen), expected=sorted(want))
    if stages > 1:
        ctx.branch("multi-stage")
    if stages > 2:
        ctx.branch("three-stages")
    if K > len(parts):
        ctx.branch("padding-partitions")
    if any(not p for p in parts):
        ctx.branch("empty-partition")


def case_groupby_api(ctx, inp):
    """b.groupby(...) with the default (tokenize) hash, tasks and disk shuffles, vs Python."""
    from dask.base import tokenize
    parts, km, method = inp["parts"], inp["km"], inp["method"]
    b = mk_bag(parts)
    kw = {"max_branch": inp.get("mb")} if method == "tasks" else {"npartitions": inp.get("nout")}
    if method == "disk" and inp.get("blocksize"):
        kw["blocksize"] = inp["blocksize"]       # elements per on-disk block: forces several blocks per partition
    import dask.bag.core as bc
    ran, o_partition = [], bc.partition

    def rec_partition(grouper, sequence, npartitions, p, nelements=2 ** 20):
        sequence = list(sequence)
        ran.append(sequence)
        return o_partition(grouper, sequence, npartitions, p, nelements)

    bc.partition = rec_partition
    try:
        g = b.groupby(lambda x: x % km, shuffle=method, **kw)
        got = [[[k, list(v)] for k, v in p] for p in parts_of(g)]
    finally:
        bc.partition = o_partition
    inp = dict(inp, _ran=ran)
    flat = [x for p in parts for x in p]
    want = collections.defaultdict(list)
    for x in flat:
        want[x % km].append(x)
    res = {}
    for p in got:
        for key, vals in p:
            if key in res:
                ctx.fail("groupby: a key appears twice", observed=key)
            res[key] = sorted(vals)
    if res != {k: sorted(v) for k, v in want.items()}:
        ctx.fail(f"groupby(shuffle={method}) differs from the Python groupby", observed=res, expected=dict(want))
    hs = [abs(int(tokenize(key), 16)) if method == "disk" else int(tokenize(key), 16) for key in range(km)]
    if method == "disk":
        nout = inp.get("nout") or len(parts)
        model = ctx.lean(Sym("groupbydisk"), nout, km, hs, parts)
        # the shuffle as it runs: blocks of `blocksize` elements regrouped and appended to the partd files, in the
        # order in which the scheduler ran the `partition` tasks (recorded; bags promise no order between partitions)
        ran = inp["_ran"]
        if sorted(map(tuple, ran)) != sorted(map(tuple, parts)):
            ctx.disagree("groupby_disk: `partition` did not run exactly once per input partition", parts, ran)
        blocks = ctx.lean(Sym("groupbydiskblocks"), nout, inp.get("blocksize") or 2 ** 20, km, hs, ran)
        ctx.eq("groupby(disk) == block model on the partitions in execution order (keys and elements in file order)", blocks, got)
        if ran != parts:
            ctx.branch("groupby-disk:partitions-ran-out-of-order")
        if inp.get("blocksize") and any(len(p) > inp["blocksize"] for p in parts):
            ctx.branch("groupby-disk:several-blocks-per-partition")
    else:
        stages, k = stages_k_of_graph(g)
        model = ctx.lean(Sym("groupbytasks"), k, stages, km, hs, parts)
    canon = lambda ps: [sorted([k, sorted(v)] for k, v in p) for p in ps]
    ctx.eq(f"groupby({method}) placement", canon(model), canon(got))
    ctx.branch("groupby-" + method)


def case_product_zip(ctx, inp):
    import dask.bag as db
    a, b2 = inp["a"], inp["b"]
    A, B = mk_bag(a), mk_bag(b2)
    try:
        got = [[list(xy) for xy in p] for p in parts_of(A.product(B))]
    except Exception as e:
        ctx.fail(f"product raised {type(e).__name__}: {e}", observed=repr(e)[:200])
        return
    ctx.eq("Bag.product partitions", ctx.lean(Sym("product"), a, b2), got)
    fa, fb = [x for p in a for x in p], [x for p in b2 for x in p]
    if sorted(map(tuple, (xy for p in got for xy in p))) != sorted(itertools.product(fa, fb)):
        ctx.fail("product differs from itertools.product as a multiset", observed=got)
    if len(a) == len(b2):
        gz = [[list(xy) for xy in p] for p in parts_of(db.zip(A, B))]
        ctx.eq("bag zip partitions", ctx.lean(Sym("zip"), a, b2), _ok(gz))
        if all(len(p) == len(q) for p, q in zip(a, b2)):
            if [tuple(xy) for p in gz for xy in p] != list(zip(fa, fb)):
                ctx.fail("zip of equally partitioned bags differs from zip(seq1, seq2)", observed=gz)
            ctx.branch("zip-aligned")
    # join of A with a small sequence
    km = inp.get("km", 3)
    other = fb[:4]
    gj = [[list(yx) for yx in p] for p in parts_of(A.join(other, lambda x: x % km))]
    ctx.eq("Bag.join partitions", ctx.lean(Sym("join"), km, other, a), gj)
    if sorted(tuple(yx) for p in gj for yx in p) != sorted((y, x) for x in fa for y in other if x % km == y % km):
        ctx.fail("join differs from the nested-loop join as a multiset", observed=gj)
    gc = parts_of(db.concat([A, B, A]))
    if gc != [list(p) for p in a + b2 + a]:
        ctx.fail("concat is not the partitions in order", observed=gc)
    ctx.branch("product")


# ----------------------------------------------------------------------------------------------
# API level: pipelines over several element kinds vs plain Python
# ----------------------------------------------------------------------------------------------

def _elems(rng, kind, n):
    if kind == "int":
        return [rng.randint(-5, 9) for _ in range(n)]
    if kind == "str":
        return [rng.choice(["a", "bb", "abc", "", "Zed", "bb"]) + str(rng.randint(0, 3)) for _ in range(n)]
    if kind == "tuple":
        return [(rng.randint(0, 3), rng.choice("xyz")) for _ in range(n)]
    return [{"name": rng.choice(["Al", "Bo", "Cy"]), "v": rng.randint(0, 5)} for _ in range(n)]


def case_api(ctx, inp):
    import dask.bag as db
    rng = random.Random(inp["seed"])
    kind, op = inp["kind"], inp["op"]
    sizes = inp["sizes"]
    seq = _elems(rng, kind, sum(sizes))
    parts, pos = [], 0
    for s in sizes:
        parts.append(seq[pos:pos + s])
        pos += s
    b = mk_bag(parts)
    se = inp.get("se")

    def chk(what, got, want):
        if got != want:
            ctx.fail(f"{op}: {what} differs from the plain-Python computation", observed=got, expected=want)

    key = {"int": lambda x: x % 3, "str": len, "tuple": lambda x: x[0], "dict": lambda x: x["name"]}[kind]
    num = {"int": lambda x: x, "str": len, "tuple": lambda x: x[0], "dict": lambda x: x["v"]}[kind]
    pred = lambda x: num(x) % 2 == 0
    try:
        if op == "map":
            chk("map", list(b.map(num)), [num(x) for x in seq])
            b2 = mk_bag([[num(x) * 10 for x in p] for p in parts])
            chk("map over two aligned bags", list(db.map(lambda x, y: (num(x), y), b, b2)), [(num(x), num(x) * 10) for x in seq])
            if seq:
                chk("map with an Item keyword", list(b.map(lambda x, m=0: num(x) - m, m=b.map(num).max())),
                    [num(x) - max(map(num, seq)) for x in seq])
            chk("map with kwargs", list(b.map(lambda x, y=0: (num(x), y), y=5)), [(num(x), 5) for x in seq])
        elif op == "starmap":
            pairs = [(num(x), i) for i, x in enumerate(seq)]
            bb = mk_bag([pairs[sum(sizes[:i]):sum(sizes[:i + 1])] for i in range(len(sizes))])
            chk("starmap", list(bb.starmap(lambda a, c: a * 2 + c)), [a * 2 + c for a, c in pairs])
        elif op == "filter":
            chk("filter", list(b.filter(pred)), [x for x in seq if pred(x)])
            chk("remove", list(b.remove(pred)), [x for x in seq if not pred(x)])
        elif op == "map_partitions":
            chk("map_partitions", list(b.map_partitions(lambda p: [num(x) + 1 for x in p])), [num(x) + 1 for x in seq])
            chk("map_partitions(len)", list(b.map_partitions(lambda p: [len(list(p))])), [len(p) for p in parts])
        elif op == "pluck":
            if kind == "tuple":
                chk("pluck(1)", list(b.pluck(1)), [x[1] for x in seq])
            elif kind == "dict":
                chk("pluck('v')", list(b.pluck("v")), [x["v"] for x in seq])
                chk("pluck default", list(b.pluck("zz", -1)), [-1 for _ in seq])
            else:
                chk("map", list(b.map(num)), [num(x) for x in seq])
        elif op == "flatten":
            chk("flatten", list(b.map(lambda x: [x] * (num(x) % 3)).flatten()), [y for x in seq for y in [x] * (num(x) % 3)])
        elif op == "distinct":
            if kind != "dict":
                chk("distinct", sorted(b.distinct()), sorted(set(seq)))
            chk("distinct(key)", sorted(map(repr, b.distinct(key=key))),
                sorted(map(repr, {key(x): x for x in reversed(seq)}.values())))
        elif op == "frequencies":
            if kind != "dict":
                chk("frequencies", dict(b.frequencies(split_every=se)), dict(collections.Counter(seq)))
            chk("map+frequencies", dict(b.map(key).frequencies(split_every=se)), dict(collections.Counter(map(key, seq))))
        elif op == "topk":
            k = inp["k"]
            chk("topk(key)", [num(x) for x in b.topk(k, key=num, split_every=se)], sorted(map(num, seq), reverse=True)[:k])
        elif op == "stats":
            vals = [num(x) for x in seq]
            nb = b.map(num)
            chk("sum", nb.sum(split_every=se).compute(), sum(vals))
            chk("count", b.count(split_every=se).compute(), len(vals))
            chk("any/all", [nb.any(split_every=se).compute(), nb.all(split_every=se).compute()],
                [any(vals), all(vals)])
            if vals:
                chk("max/min", [nb.max(split_every=se).compute(), nb.min(split_every=se).compute()], [max(vals), min(vals)])
                mean = sum(vals) / len(vals)
                var = sum((v - mean) ** 2 for v in vals) / len(vals)
                got = [nb.mean().compute(), nb.var().compute(), nb.std().compute()]
                if any(abs(g - w) > 1e-9 * (1 + abs(w)) for g, w in zip(got, [mean, var, math.sqrt(var)])):
                    ctx.fail("mean/var/std differ", observed=got, expected=[mean, var, math.sqrt(var)])
                if len(vals) >= 2:
                    var1 = var * len(vals) / (len(vals) - 1)
                    got1 = [nb.var(ddof=1).compute(), nb.std(ddof=1).compute()]
                    if any(abs(g - w) > 1e-9 * (1 + abs(w)) for g, w in zip(got1, [var1, math.sqrt(var1)])):
                        ctx.fail("var/std(ddof=1) differ", observed=got1, expected=[var1, math.sqrt(var1)])
        elif op == "foldby":
            want = {}
            for x in seq:
                want[key(x)] = want.get(key(x), 0) + num(x)
            chk("foldby", dict(b.foldby(key, lambda a, x: a + num(x), 0, operator.add, 0, split_every=se)), want)
            # without combine / combine_initial (merge_with(reduce(combine))) and without any initial
            chk("foldby (no combine_initial)", dict(b.foldby(key, lambda a, x: a + num(x), 0, operator.add, split_every=se)), want)
            if kind == "int":   # binop doubles as combine only when totals and elements have the same type
                chk("foldby (binop only)", dict(b.foldby(key, operator.add, 0, split_every=se)), want)
            nk = lambda v: v % 3
            wantn = {}
            for v in map(num, seq):
                wantn[nk(v)] = wantn[nk(v)] + v if nk(v) in wantn else v
            chk("foldby (no initial)", dict(b.map(num).foldby(nk, operator.add, split_every=se)), wantn)
        elif op == "groupby":
            want = collections.defaultdict(list)
            for x in seq:
                want[key(x)].append(x)
            methods = [("tasks", {"max_branch": inp.get("mb")})]
            if inp.get("disk"):
                # the default blocksize (2**20 elements per block) costs seconds per partition inside
                # toolz.partition_all; a small one exercises several blocks per partition instead
                kwd = {"npartitions": inp.get("nout")}
                if inp.get("disk") != "default-blocksize":
                    kwd["blocksize"] = 3
                methods.append(("disk", kwd))
            for method, kw in methods:
                got = {k: sorted(map(repr, v)) for k, v in b.groupby(key, shuffle=method, **kw)}
                chk(f"groupby({method})", got, {k: sorted(map(repr, v)) for k, v in want.items()})
        elif op == "join":
            other = _elems(rng, kind, rng.randint(0, 5))
            got = sorted(map(repr, b.join(other, key)))
            want = sorted(repr((y, x)) for x in seq for y in other if key(x) == key(y))
            chk("join", got, want)
            # `other` as a single-partition Bag (also a lazily mapped one) and as a Delayed
            import dask
            ob = mk_bag([other])
            chk("join(other = single-partition Bag)", sorted(map(repr, b.join(ob, key))), want)
            chk("join(other = lazily mapped single-partition Bag)",
                sorted(map(repr, b.join(ob.map(lambda y: y), key))), want)
            chk("join(other = Delayed)", sorted(map(repr, b.join(dask.delayed(tuple(other)), key))), want)
            chk("join(on_self, on_other)", sorted(map(repr, b.join(other, key, lambda y: key(y)))), want)
            try:
                b.join(mk_bag([other, other]), key)
                ctx.fail("join with a multi-partition Bag did not raise NotImplementedError")
            except NotImplementedError:
                pass
        elif op == "accumulate":
            vals = [num(x) for x in seq]
            chk("accumulate", list(b.map(num).accumulate(operator.add)), list(itertools.accumulate(vals)))
            chk("accumulate(initial)", list(b.map(num).accumulate(operator.add, 3)), list(itertools.accumulate(vals, initial=3)))
        elif op == "take":
            k = inp["k"]
            chk("take", list(b.take(k, npartitions=-1, warn=False)), seq[:k])
        elif op == "repartition":
            m = inp["m"]
            r = b.repartition(npartitions=m)
            chk("repartition", [list(r), r.npartitions], [seq, m])
            r2 = b.repartition(partition_size=rng.choice([60, 150, 400, 10 ** 6]))
            got2 = parts_of(r2)
            chk("repartition(partition_size)", [[x for p in got2 for x in p], r2.npartitions], [seq, len(got2)])
        elif op == "from_sequence":
            kw = inp["kw"]
            r = db.from_sequence(seq, **kw)
            chk("from_sequence", list(r), seq)
            sizes_r = [len(p) for p in parts_of(r)]
            if kw.get("npartitions") and seq and len(seq) <= 100:
                ps = int(math.ceil(len(seq) / kw["npartitions"]))
                chk("from_sequence(npartitions) partition sizes", sizes_r,
                    [ps] * (len(seq) // ps) + ([len(seq) % ps] if len(seq) % ps else []))
            if not kw and seq and len(seq) <= 100:
                chk("from_sequence default: one element per partition", sizes_r, [1] * len(seq))
            if kw.get("partition_size"):
                chk("partition sizes", [len(p) for p in parts_of(r)] if seq else [0],
                    ([kw["partition_size"]] * (len(seq) // kw["partition_size"]) + ([len(seq) % kw["partition_size"]] if len(seq) % kw["partition_size"] else [])) if seq else [0])
        elif op == "tasklike":
            # elements that LOOK like dask tasks (a tuple headed by a callable, also nested in lists / dicts) are data:
            # from_sequence must hand them back unchanged, and every operation must see them as they are
            pool = [(len, "abc"), (max, 1, 2), [(len, "ab")], {"f": (min, 3, 4)}, (1, 2), "plain", (str, 5), ((len, "x"),)]
            tl = [rng.choice(pool) for _ in range(max(1, sum(sizes)))]
            kw2 = rng.choice([{}, {"npartitions": rng.randint(1, 4)}, {"partition_size": rng.randint(1, 3)}])
            tb = db.from_sequence(tl, **kw2)
            chk("from_sequence of task-like elements", list(tb), tl)
            chk("map over task-like elements", list(tb.map(lambda e: type(e).__name__)), [type(e).__name__ for e in tl])
            chk("filter / count", [list(tb.filter(lambda e: isinstance(e, tuple))), tb.count().compute()],
                [[e for e in tl if isinstance(e, tuple)], len(tl)])
            chk("repartition", list(tb.repartition(npartitions=rng.randint(1, 5))), tl)
            chk("persist", list(tb.persist(scheduler="sync")), tl)
            chk("to_delayed / from_delayed", list(db.from_delayed(tb.to_delayed())), tl)
            chk("concat / zip", [list(db.concat([tb, tb])), list(db.zip(tb, tb))], [tl + tl, list(zip(tl, tl))])
            chk("take", list(tb.take(2, npartitions=-1, warn=False)), tl[:2])
            chk("map producing task-like values", list(tb.map(lambda e: (len, "zz"))), [(len, "zz")] * len(tl))
        elif op == "fold_set":
            chk("fold into a set", b.map(num).fold(lambda acc, x: acc | {x}, set.union, initial=set(), split_every=se).compute(),
                set(map(num, seq)))
        elif op == "multi_consumer":
            # one intermediate bag feeding several results computed together (lazify must not share an iterator)
            import dask
            b2 = b.map(num).map(lambda v: v + 1)
            vals = [num(x) + 1 for x in seq]
            got = dask.compute(b2.sum(split_every=se), b2.count(split_every=se), b2.filter(lambda v: v % 2 == 0).count(),
                               b2, b2.map(lambda v: v * 2), b2.frequencies(split_every=se), scheduler="sync")
            chk("sum,count,filtered count,bag,mapped,frequencies computed together",
                [got[0], got[1], got[2], list(got[3]), list(got[4]), dict(got[5])],
                [sum(vals), len(vals), sum(1 for v in vals if v % 2 == 0), vals, [v * 2 for v in vals],
                 dict(collections.Counter(vals))])
        elif op == "pipeline":
            # a random program: chain of per-partition steps, then a terminal operation
            cur, ref = b.map(num), [num(x) for x in seq]
            for _ in range(rng.randint(1, 5)):
                step = rng.choice(["map", "filter", "remove", "flatten", "map_partitions", "repartition", "accumulate", "distinct_sorted",
                                   "zip_self"])
                if step == "map":
                    c = rng.randint(-2, 3)
                    cur, ref = cur.map(lambda v, c=c: v * 2 + c), [v * 2 + c for v in ref]
                elif step == "filter":
                    m = rng.randint(2, 3)
                    cur, ref = cur.filter(lambda v, m=m: v % m == 0), [v for v in ref if v % m == 0]
                elif step == "remove":
                    cur, ref = cur.remove(lambda v: v % 3 == 1), [v for v in ref if v % 3 != 1]
                elif step == "flatten":
                    cur, ref = cur.map(lambda v: [v] * (v % 3)).flatten(), [w for v in ref for w in [v] * (v % 3)]
                elif step == "map_partitions":
                    cur, ref = cur.map_partitions(lambda p: [v + 1 for v in p]), [v + 1 for v in ref]
                elif step == "zip_self":
                    cur, ref = db.zip(cur, cur).starmap(lambda u, w: u + 2 * w), [3 * v for v in ref]
                elif step == "repartition":
                    cur = cur.repartition(npartitions=rng.randint(1, 6))
                elif step == "accumulate":
                    cur, ref = cur.accumulate(operator.add), list(itertools.accumulate(ref))
                else:
                    cur, ref = cur.distinct().map_partitions(sorted), sorted(set(ref))
            term = rng.choice(["list", "sum", "count", "topk", "frequencies", "fold", "take", "groupby"])
            if term == "list":
                chk("pipeline → list", list(cur), ref)
            elif term == "sum":
                chk("pipeline → sum", cur.sum(split_every=se).compute(), sum(ref))
            elif term == "count":
                chk("pipeline → count", cur.count(split_every=se).compute(), len(ref))
            elif term == "topk":
                chk("pipeline → topk", list(cur.topk(3, split_every=se)), sorted(ref, reverse=True)[:3])
            elif term == "frequencies":
                chk("pipeline → frequencies", dict(cur.frequencies(split_every=se)), dict(collections.Counter(ref)))
            elif term == "fold":
                chk("pipeline → fold", cur.fold(operator.add, initial=0, split_every=se).compute(), sum(ref))
            elif term == "take":
                chk("pipeline → take", list(cur.take(4, npartitions=-1, warn=False)), ref[:4])
            else:
                want = collections.defaultdict(list)
                for v in ref:
                    want[v % 3].append(v)
                chk("pipeline → groupby", {k: sorted(v) for k, v in cur.groupby(lambda v: v % 3, shuffle="tasks", max_branch=inp.get("mb"))},
                    {k: sorted(v) for k, v in want.items()})
        elif op == "foldby_joint":
            # Bag.foldby's token does not contain split_every: graphs built with different split_every share
            # their key names. Computing them together (and with the bag itself) must still give every result.
            import dask
            want = {}
            for x in seq:
                want[key(x)] = want.get(key(x), 0) + num(x)
            binop = lambda a, x: a + num(x)
            ses = [2, 3, None, False] if inp.get("se") != 3 else [3, 2, 4, None]
            fs = [b.foldby(key, binop, 0, operator.add, 0, split_every=s_) for s_ in ses]
            if len({f.name for f in fs}) == 1:
                ctx.branch("api:foldby_joint:shared-key-names")
            got = dask.compute(*fs, b, scheduler="sync")
            chk("foldby with several split_every computed together", [dict(g) for g in got[:-1]], [want] * len(fs))
            chk("the bag computed together with its foldbys", list(got[-1]), seq)
            import dask.bag as db2
            chk("concat of foldbys with different split_every", sorted(map(repr, db2.concat(fs))),
                sorted(map(repr, list(want.items()) * len(fs))))
        elif op == "delayed":
            # to_delayed / from_delayed round trip (with and without graph optimisation), Item.to_delayed
            for og in (True, False):
                ds = b.to_delayed(optimize_graph=og)
                chk("to_delayed: one Delayed per partition", len(ds), len(parts))
                chk(f"to_delayed(optimize_graph={og}) partitions", [list(d.compute(scheduler="sync")) for d in ds], parts)
                back = db.from_delayed(ds)
                chk("from_delayed(to_delayed(b))", [list(back), back.npartitions], [seq, len(parts)])
                chk("from_delayed(...).map", list(back.map(num)), [num(x) for x in seq])
            mapped = b.map(num).map(lambda v: v + 1).filter(lambda v: v % 2 == 0)
            chk("to_delayed of a lazy chain", [list(d.compute(scheduler="sync")) for d in mapped.to_delayed()],
                [[num(x) + 1 for x in p if (num(x) + 1) % 2 == 0] for p in parts])
            import dask
            one = dask.delayed(lambda: [seq[0]] if seq else [])()
            chk("from_delayed of a single Delayed", list(db.from_delayed(one)), seq[:1])
            chk("Item.to_delayed", b.map(num).sum(split_every=se).to_delayed().compute(scheduler="sync"), sum(map(num, seq)))
            chk("Item.from_delayed", db.Item.from_delayed(dask.delayed(sum)([num(x) for x in seq])).compute(scheduler="sync"),
                sum(map(num, seq)))
        elif op == "to_dataframe":
            import core as _core
            _core.import_dd()
            # meta is inferred from the first partition; when that is empty the documented way is to pass meta
            infer = bool(parts[0])
            if not infer:
                ctx.branch("api:to_dataframe:explicit-meta(empty first partition)")
            if kind == "dict":
                df = b.to_dataframe() if infer else b.to_dataframe(meta={"name": "object", "v": "int64"})
                got = df.compute(scheduler="sync")
                chk("to_dataframe rows", list(zip(got["name"].tolist(), got["v"].tolist())), [(x["name"], x["v"]) for x in seq])
            elif kind == "tuple":
                df = b.to_dataframe(columns=["n", "c"]) if infer else b.to_dataframe(meta={"n": "int64", "c": "object"})
                got = df.compute(scheduler="sync")
                chk("to_dataframe(columns) rows", list(zip(got["n"].tolist(), got["c"].tolist())), list(seq))
            else:
                b1 = b.map(lambda x: (num(x),))
                df = b1.to_dataframe(columns=["v"]) if infer else b1.to_dataframe(meta={"v": "int64"})
                chk("to_dataframe(scalars) rows", df.compute(scheduler="sync")["v"].tolist(), [num(x) for x in seq])
            chk("to_dataframe npartitions", df.npartitions, len(parts))
            chk("to_dataframe rows per partition", df.map_partitions(len).compute(scheduler="sync").tolist(), [len(p) for p in parts])
        elif op == "joint_alias":
            # partitions that concat / repartition hand on unchanged are ALIASES of the input partition; computed
            # together with something that reads them, the aliased (fused, lazified) partition must still be a list
            import dask
            m_ = b.map(num).map(lambda v: v + 1)
            vals = [num(x) + 1 for x in seq]
            c = db.concat([m_, m_.map(lambda v: v * 10)])
            cw = vals + [v * 10 for v in vals]
            got = dask.compute(c, c.count(), c.sum(), c.distinct().map_partitions(sorted), scheduler="sync")
            chk("concat of lazily mapped bags computed with its reductions",
                [list(got[0]), got[1], got[2], list(got[3])], [cw, len(cw), sum(cw), sorted(set(cw))])
            got = dask.compute(c.count(), c, scheduler="sync")
            chk("…reduction first", [got[0], list(got[1])], [len(cw), cw])
            for mm in (len(parts) + 1, len(parts) + 2, 2 * len(parts) + 1):
                r = m_.repartition(npartitions=mm)       # nsplits has 1s: those partitions are aliases
                got = dask.compute(r, r.count(), r.sum(), scheduler="sync")
                chk(f"repartition({mm}) of a lazily mapped bag computed with its reductions",
                    [list(got[0]), got[1], got[2]], [vals, len(vals), sum(vals)])
                lazify_invariant(ctx, r, "repartition to more partitions")
            # the same aliased partition read twice by one task, also inside the renamed copy an Item keyword brings
            chk("zip(c, c) through concat aliases", list(db.zip(c, c)), list(zip(cw, cw)))
            r3 = m_.repartition(npartitions=len(parts) + 1)
            chk("zip(r, r) through repartition aliases", list(db.zip(r3, r3)), list(zip(vals, vals)))
            chk("count of zip(c, c) as a keyword of another map",
                list(b.map(lambda x_, s_=0: (num(x_), s_), s_=db.zip(c, c).count())), [(num(x), len(cw)) for x in seq])
            t1 = m_.take(2, npartitions=-1, compute=False, warn=False)
            got = dask.compute(t1, t1.count(), db.concat([t1, t1]), scheduler="sync")
            chk("take(compute=False) computed with consumers", [list(got[0]), got[1], list(got[2])], [vals[:2], len(vals[:2]), vals[:2] * 2])
        elif op == "same_bag_twice":
            # one lazily mapped bag read twice by a single task (zip / map / map_partitions / join / product / concat
            # of a bag with itself): after fusion the intermediate partition must not be a one-shot iterator
            b2 = b.map(num).map(lambda v: v * 2 + 1)
            vals = [num(x) * 2 + 1 for x in seq]
            chk("zip(b2, b2)", list(db.zip(b2, b2)), list(zip(vals, vals)))
            chk("zip(b2, b2, b2)", list(db.zip(b2, b2, b2)), list(zip(vals, vals, vals)))
            chk("map(f, b2, b2)", list(db.map(lambda u, w: u - w, b2, b2)), [0] * len(vals))
            chk("map(f, b2, y=b2)", list(db.map(lambda u, y=0: (u, y), b2, y=b2)), list(zip(vals, vals)))
            chk("map_partitions(f, b2, b2)", list(db.map_partitions(lambda p, q: [(list(p), list(q))], b2, b2)),
                [([num(x) * 2 + 1 for x in p],) * 2 for p in parts])
            b3 = b2.filter(lambda v: v % 3 != 0)
            v3 = [v for v in vals if v % 3 != 0]
            chk("zip of a filtered bag with itself", list(db.zip(b3, b3)), list(zip(v3, v3)))
            lazify_invariant(ctx, db.zip(b3, b3), "zip(b3, b3)")
            lazify_invariant(ctx, db.map(lambda u, w: u - w, b2, b2), "map(f, b2, b2)")
            chk("zip(b2, b2).starmap", list(db.zip(b2, b2).starmap(lambda u, w: u + w)), [2 * v for v in vals])
            chk("product(b2, b2)", sorted(b2.product(b2)), sorted(itertools.product(vals, vals)))
            chk("concat([b2, b2])", list(db.concat([b2, b2])), vals + vals)
            one = b2.repartition(npartitions=1)
            chk("self-join", sorted(one.join(one, lambda v: v % 4)), sorted((y, x_) for x_ in vals for y in vals if x_ % 4 == y % 4))
            chk("b2 and a reduction of b2 in one task", list(b2.map(lambda v, t=0: v - t, t=b2.max())) if vals else [],
                [v - max(vals) for v in vals] if vals else [])
            # an Item keyword is a renamed COPY of its graph (every task wrapped in an identity): the copy of a
            # partition that several tasks read (here: of b2, read by the product) must stay a list there too
            if vals and len(vals) <= 8:
                p_ = b2.product(b2).map(lambda t_: t_[0] - t_[1])
                pv = [u - w for pa in parts for pb in parts for u in [num(x) * 2 + 1 for x in pa] for w in [num(x) * 2 + 1 for x in pb]]
                chk("product(b2, b2) with its own max as a keyword", list(p_.map(lambda v, t=0: v - t, t=p_.max())),
                    [v - max(pv) for v in pv])
                chk("a count over zip(b2, b2) as a keyword", list(b.map(lambda x_, s_=0: (num(x_), s_), s_=db.zip(b2, b2).count())),
                    [(num(x), len(vals)) for x in seq])
        elif op == "reduction":
            chk("reduction(sum, sum)", b.map(num).reduction(sum, sum, split_every=se).compute(), sum(map(num, seq)))
            chk("reduction(list, concat)", b.reduction(list, lambda xs: [y for x in xs for y in x], split_every=se).compute(), seq)
    except Exception as e:
        ctx.fail(f"{op} on {kind} raised {type(e).__name__}: {e}", observed=repr(e)[:300])
    ctx.branch(f"api:{op}")
    if 0 in sizes and len(sizes) > 1:
        ctx.branch("api:empty-partition")


def case_program(ctx, inp):
    """A random PROGRAM over several bags: a pool of bags grown by unary steps (map, filter, flatten, repartition,
    accumulate, an Item as keyword, take(compute=False), …) and binary ones (zip / map / map_partitions / product /
    concat / join over two bags of the pool — possibly the same one), then a random subset computed TOGETHER
    (dask.compute) and one of them alone, partition by partition — against a plain-Python interpreter."""
    import dask
    import dask.bag as db
    rng = random.Random(inp["seed"])
    n = rng.randint(1, 5)
    parts = [[rng.randint(-3, 9) for _ in range(rng.choice([0, 1, 2, 3, 4]))] for _ in range(n)]
    pool = [(mk_bag(parts), [list(p) for p in parts])]
    log = []
    ops = ["map", "filter", "flatten", "mp", "repart", "accum", "zip", "map2", "mp2", "concat", "product", "pluckpair",
           "remove", "distinct", "itemkw", "take_bag", "starmap", "join1", "itemkw2", "selfjoin",
           "groupby", "foldby", "freq", "topk", "redbag", "unzip", "persist", "delayed", "mapitem"]
    for _ in range(rng.randint(1, inp.get("steps", 7))):
        i = rng.randrange(len(pool))
        b, ref = pool[i]
        flat = [v for p in ref for v in p]
        op = rng.choice(ops)
        if op == "map":
            c = rng.randint(-2, 3)
            nb, nr = b.map(lambda v, c=c: v * 2 + c), [[v * 2 + c for v in p] for p in ref]
        elif op == "filter":
            m = rng.randint(2, 3)
            nb, nr = b.filter(lambda v, m=m: v % m == 0), [[v for v in p if v % m == 0] for p in ref]
        elif op == "remove":
            nb, nr = b.remove(lambda v: v % 3 == 1), [[v for v in p if v % 3 != 1] for p in ref]
        elif op == "flatten":
            nb, nr = b.map(lambda v: [v] * (v % 3)).flatten(), [[w for v in p for w in [v] * (v % 3)] for p in ref]
        elif op == "mp":
            nb, nr = b.map_partitions(lambda p: [v + 1 for v in p]), [[v + 1 for v in p] for p in ref]
        elif op == "repart":
            m = rng.randint(1, 6)
            nb = b.repartition(npartitions=m)
            nr = parts_of(nb)      # the partition structure is dask's choice; sequence and count are not
            if [v for p in nr for v in p] != flat or len(nr) != m or nb.npartitions != m:
                ctx.fail("repartition inside a program changed the sequence / the number of partitions",
                         observed=[log, nr, nb.npartitions], expected=[flat, m])
                return
        elif op == "accum":
            nb = b.accumulate(operator.add)
            acc, nr, pos = list(itertools.accumulate(flat)), [], 0
            for p in ref:
                nr.append(acc[pos:pos + len(p)])
                pos += len(p)
        elif op in ("zip", "map2", "mp2", "product", "concat", "selfjoin"):
            same = [j for j, (_, rr) in enumerate(pool) if [len(p) for p in rr] == [len(p) for p in ref]]
            j = rng.choice(same) if op in ("zip", "map2") else rng.randrange(len(pool))
            b2, ref2 = pool[j]
            if op == "zip":
                nb = db.zip(b, b2).map(lambda t: t[0] * 3 + t[1])
                nr = [[a * 3 + c for a, c in zip(p, q)] for p, q in zip(ref, ref2)]
            elif op == "map2":
                nb, nr = db.map(lambda u, w: u - 2 * w, b, b2), [[a - 2 * c for a, c in zip(p, q)] for p, q in zip(ref, ref2)]
            elif op == "mp2":
                if len(ref) != len(ref2):
                    continue
                nb = db.map_partitions(lambda p, q: [sum(p) + 2 * sum(q)], b, b2)
                nr = [[sum(p) + 2 * sum(q)] for p, q in zip(ref, ref2)]
            elif op == "product":
                if len(flat) * sum(map(len, ref2)) > 60 or len(ref) * len(ref2) > 20:
                    continue
                nb = b.product(b2).map(lambda t: t[0] * 5 + t[1])
                nr = [[a * 5 + c for a in p for c in q] for p in ref for q in ref2]
            elif op == "selfjoin":
                if len(ref2) != 1 or len(flat) * len(ref2[0]) > 60:
                    continue
                nb = b.join(b2, lambda v: v % 3).map(lambda t: t[0] * 7 + t[1])
                nr = [[y * 7 + x for x in p for y in ref2[0] if y % 3 == x % 3] for p in ref]
            else:
                nb, nr = db.concat([b, b2, b]), ref + ref2 + ref
            log.append((op, i, j))
        elif op == "pluckpair":
            nb, nr = b.map(lambda v: (v, v + 1)).pluck(1), [[v + 1 for v in p] for p in ref]
        elif op == "distinct":
            nb, nr = b.distinct().map_partitions(sorted), [sorted(set(flat))]
        elif op in ("itemkw", "itemkw2"):
            if not flat:
                continue
            if op == "itemkw":
                nb, nr = b.map(lambda v, t=0: v - t, t=b.max()), [[v - max(flat) for v in p] for p in ref]
            else:     # the Item comes from ANOTHER bag of the pool
                j = rng.randrange(len(pool))
                b2, ref2 = pool[j]
                tot = sum(v for p in ref2 for v in p)
                nb, nr = b.map(lambda v, t=0: v + t, t=b2.sum()), [[v + tot for v in p] for p in ref]
        elif op == "take_bag":
            k = rng.randint(0, 4)
            nb, nr = b.take(k, npartitions=-1, compute=False, warn=False), [flat[:k]]
        elif op == "starmap":
            nb, nr = b.map(lambda v: (v, 2)).starmap(lambda a, c: a * c), [[v * 2 for v in p] for p in ref]
        elif op == "groupby":
            g_ = b.groupby(lambda v: v % 3, shuffle="tasks", max_branch=rng.choice([None, 2, 3]))
            g_ = g_.map(lambda kv: (kv[0], sorted(kv[1]))).map_partitions(sorted)
            d_ = collections.defaultdict(list)
            for v in flat:
                d_[v % 3].append(v)
            got_ = parts_of(g_)
            if sorted(tuple(x) for p in got_ for x in map(lambda kv: (kv[0], tuple(kv[1])), p)) != \
                    sorted((k_, tuple(sorted(v))) for k_, v in d_.items()):
                ctx.fail("groupby inside a program differs from the Python groupby", observed=[log, got_], expected=dict(d_))
                return
            nb, nr = g_.map(lambda kv: kv[0] * 100 + sum(kv[1])), [[k_ * 100 + sum(v) for k_, v in p] for p in got_]
        elif op == "foldby":
            nb = b.foldby(lambda v: v % 3, operator.add, 0, operator.add, 0, split_every=rng.choice([None, 2, 3]))
            nb = nb.map_partitions(sorted).map(lambda kv: kv[0] * 100 + kv[1])
            d_ = {}
            for v in flat:
                d_[v % 3] = d_.get(v % 3, 0) + v
            nr = [[k_ * 100 + t for k_, t in sorted(d_.items())]]
        elif op == "freq":
            nb = b.frequencies(split_every=rng.choice([None, 2])).map_partitions(sorted).map(lambda kv: kv[0] * 100 + kv[1])
            nr = [[k_ * 100 + c for k_, c in sorted(collections.Counter(flat).items())]]
        elif op == "topk":
            k = rng.randint(0, 4)
            nb, nr = b.topk(k, split_every=rng.choice([None, 2])), [sorted(flat, reverse=True)[:k]]
        elif op == "redbag":
            from dask.bag.core import Bag as _Bag
            nb = b.reduction(lambda p: [sum(p)], lambda xs: [sum(x[0] for x in xs)], out_type=_Bag, split_every=rng.choice([None, 2]))
            nr = [[sum(flat)]]
        elif op == "unzip":
            u1, u2 = b.map(lambda v: (v, v * 2)).unzip(2)
            nb, nr = db.zip(u1, u2).map(sum), [[v * 3 for v in p] for p in ref]
        elif op == "persist":
            nb, nr = b.persist(scheduler="sync"), ref
        elif op == "delayed":
            nb, nr = db.from_delayed(b.to_delayed()), ref
        elif op == "mapitem":
            nb, nr = db.map(lambda v, t: v + t, b, b.count()), [[v + len(flat) for v in p] for p in ref]
        else:
            other = [0, 1, 2, 3]
            nb = b.join(other, lambda v: v % 4).map(lambda t: t[0] * 10 + t[1])
            nr = [[y * 10 + x for x in p for y in other if y % 4 == x % 4] for p in ref]
        if op not in ("zip", "map2", "mp2", "product", "concat", "selfjoin"):
            log.append((op, i))
        pool.append((nb, nr))
    idx = [rng.randrange(len(pool)) for _ in range(rng.randint(1, 3))]
    try:
        res = dask.compute(*[pool[k][0] for k in idx], scheduler="sync")
        for k, r in zip(idx, res):
            want = [v for p in pool[k][1] for v in p]
            if list(r) != want:
                ctx.fail("a bag of the program computed together with others differs from the plain-Python interpreter",
                         observed=[log, k, list(r)], expected=want)
        k = idx[0]
        alone = parts_of(pool[k][0])
        if alone != pool[k][1]:
            ctx.fail("a bag of the program computed alone differs partition by partition", observed=[log, k, alone],
                     expected=pool[k][1])
        tot = pool[k][0].sum().compute(scheduler="sync")
        if tot != sum(v for p in pool[k][1] for v in p):
            ctx.fail("sum of a bag of the program differs", observed=[log, k, tot])
    except Exception as e:
        ctx.fail(f"program raised {type(e).__name__}: {e}", observed=[log, repr(e)[:200]])
    for o in {x[0] for x in log}:
        ctx.branch("program:" + o)
    if any(len(x) == 3 and x[1] == x[2] for x in log):
        ctx.branch("program:binary-op-on-the-same-bag")
    if len(idx) > 1:
        ctx.branch("program:joint-compute")



# ----------------------------------------------------------------------------------------------
# bag optimize: lazify_task on task-spec terms (function level, vs Model/BagLazify.lean)
# ----------------------------------------------------------------------------------------------

def _lz_build(term, key=None):
    """A term of the Lean model (`Node`) as a real task-spec object."""
    import operator as _op
    import dask.bag.core as bc
    from dask._expr import ProhibitReuse
    from dask._task_spec import Alias, DataNode, List, Task, TaskRef, _execute_subgraph
    t = term[0]
    if t == "ref":
        return TaskRef(("k", term[1]))
    if t == "data":
        return DataNode(key, 7)
    if t == "alias":
        return Alias(key if key is not None else ("anon", term[1]), ("k", term[1]))
    if t == "lst":
        return List(*[_lz_build(a) for a in term[1:]])
    if t == "call":
        head, args = term[1], [_lz_build(a) for a in term[2:]]
        func = {"reify": bc.reify if len(args) % 2 else list, "ident": ProhibitReuse._identity,
                "lazy": bc.map_chunk if len(args) % 2 else filter, "other": zip if len(args) > 1 else _op.neg}[head]
        return Task(key, func, *args)
    out, deps, entries = term[1], term[2], term[3:]
    inner = {("k", k): _lz_build(n, key=("k", k)) for k, n in entries}
    return Task(key, _execute_subgraph, inner, ("k", out), tuple(("k", d) for d in deps), *[TaskRef(("k", d)) for d in deps])


def _lz_unbuild(obj):
    import dask.bag.core as bc
    from dask._expr import ProhibitReuse
    from dask._task_spec import Alias, DataNode, List, Task, TaskRef, _execute_subgraph
    if isinstance(obj, TaskRef):
        return ["ref", obj.key[1]]
    if isinstance(obj, Alias):
        return ["alias", obj.target[1]]
    if isinstance(obj, DataNode):
        return ["data"]
    if isinstance(obj, List) or (isinstance(obj, Task) and getattr(obj.func, "__name__", "") == "to_container"):
        return ["lst"] + [_lz_unbuild(a) for a in obj.args]
    if isinstance(obj, Task):
        if obj.func is _execute_subgraph:
            inner, outkey, inkeys = obj.args[0], obj.args[1], obj.args[2]
            return ["sub", outkey[1], [d[1] for d in inkeys]] + [[k[1], _lz_unbuild(v)] for k, v in inner.items()]
        head = ("reify" if obj.func in (list, bc.reify) else "ident" if obj.func is ProhibitReuse._identity
                else "lazy" if obj.func in (bc.map_chunk, filter) else "other")
        return ["call", head] + [_lz_unbuild(a) for a in obj.args]
    raise TypeError(f"unexpected object in a lazified task: {obj!r}")


def _lz_sym(term):
    """nested lists with bare symbols for the s-expression protocol"""
    if isinstance(term, list):
        return [Sym(x) if isinstance(x, str) else _lz_sym(x) for x in term]
    return term


def _lz_head_is_list(term):
    while term[0] == "call" and term[1] == "ident" and len(term) == 3:
        term = term[2]
    return term[0] == "call" and term[1] == "reify"


def case_lazify(ctx, inp):
    """dask.bag.core.lazify_task(task, start) on a task-spec term vs the Lean model (structure of the result), plus the
    safety clause directly: in a fused task every inner key that is the output, is read more than once, or is the
    alias target of such a key, and whose value was a list, still has a list."""
    import dask.bag.core as bc
    term, start = inp["term"], inp["start"]
    task = _lz_build(term, key=("k", 99))
    got = _lz_unbuild(bc.lazify_task(task, start))
    ctx.eq("lazify_task", ctx.lean(Sym("lazify"), start, _lz_sym(term)), _lz_sym(got))
    if start and _lz_head_is_list(term) and not _lz_head_is_list(got):
        ctx.fail("lazify_task(start=True) removed the list/reify at the head of a key's task: the key now holds a one-shot iterator",
                 observed=got, expected=term)

    def walk(before, after):
        if before[0] == "sub" and after[0] == "sub":
            out, entries = before[1], {k: n for k, n in before[3:]}
            after_entries = {k: n for k, n in after[3:]}
            counts = collections.Counter()

            def count(n):
                if n[0] == "ref":
                    counts[n[1]] += 1
                elif n[0] == "alias":
                    counts[n[1]] += 1
                elif n[0] == "sub":
                    for d in n[2]:
                        counts[d] += 1
                    for _, m in n[3:]:
                        count(m)
                elif n[0] in ("lst", "call"):
                    for m in n[(1 if n[0] == "lst" else 2):]:
                        count(m)
            for n in entries.values():
                count(n)
            for k in entries:
                ctx.eq("_count_references", ctx.lean(Sym("lazifyrefs"), k, _lz_sym(before)), counts[k])
            must = {out} | {k for k in entries if counts[k] > 1}
            changed = True
            while changed:
                changed = False
                for k in list(must):
                    n = entries.get(k)
                    while n is not None and n[0] == "call" and n[1] == "ident" and len(n) == 3:
                        n = n[2]
                    if n is not None and n[0] == "alias" and n[1] not in must:
                        must.add(n[1])
                        changed = True
            keep = ctx.lean(Sym("lazifykeep"), out, *[[k, _lz_sym(n)] for k, n in before[3:]])
            ctx.eq("keys that keep their list (keepSet ∩ inner keys)", sorted(set(keep) & set(entries)), sorted(must & set(entries)))
            for k in must & set(entries):
                if _lz_head_is_list(entries[k]) and not _lz_head_is_list(after_entries.get(k, ["data"])):
                    ctx.fail("lazify_task: an inner key of a fused task that can be read more than once (or is the output / "
                             "an alias target of such a key) lost its list", observed=[k, after_entries.get(k)], expected=entries[k])
            if len(must) > 1 + sum(1 for k in entries if counts[k] > 1 and k != out):
                ctx.branch("lazify:kept-through-an-alias")
            if any(counts[k] > 1 for k in entries):
                ctx.branch("lazify:inner-key-read-more-than-once")
    walk(term, got)
    if '"ident"' in repr(term).replace("'", '"'):
        ctx.branch("lazify:identity-wrapper")
    if got != term:
        ctx.branch("lazify:something-stripped")
    ctx.branch("lazify")


def gen_lazify_term(rng, depth=0):
    """A fused task the way bag graphs produce them (a chain whose nodes refer to earlier keys, aliases, identity
    wrappers of copied graphs, keys read twice), or a plain nested task."""
    def lazy_of(r):
        return ["call", "lazy", ["data"], r]

    def node(i, prev):
        r = ["ref", rng.choice(prev)]
        c = rng.random()
        if c < 0.25:
            n = ["call", "reify", lazy_of(r)]
        elif c < 0.35:
            n = lazy_of(r)
        elif c < 0.5:
            n = ["alias", rng.choice(prev)]
        elif c < 0.7:
            a, b = rng.choice(prev), rng.choice(prev + prev[-1:])
            n = ["call", "reify", ["call", "other", ["ref", a], ["ref", b]]]
        elif c < 0.8:
            n = ["call", "reify", ["call", "lazy", ["data"], ["call", "reify", lazy_of(r)]]]      # nested reify: stripped
        elif c < 0.88:
            n = ["call", "other", ["lst", r, ["ref", rng.choice(prev)]]]
        elif c < 0.94 and depth < 1:
            n = gen_lazify_term(rng, depth + 1)
        else:
            n = ["call", "reify", ["lst", r, ["data"]]]
        if rng.random() < 0.25:
            n = ["call", "ident", n]
        return n

    if depth == 0 and rng.random() < 0.15:
        t = ["call", "reify", lazy_of(["ref", 9])]
        for _ in range(rng.randint(0, 3)):
            t = ["call", rng.choice(["ident", "reify", "other", "lazy"]), t]
        return t
    n = rng.randint(1, 6)
    entries, prev = [], [9]
    for i in range(n):
        entries.append([i, node(i, prev)])
        prev.append(i)
    out = n - 1 if rng.random() < 0.85 else rng.randrange(n)
    return ["sub", out, [9]] + entries


def _refcount(obj, counts):
    """Independent count (with multiplicity) of the key references inside a task-spec object."""
    from dask._task_spec import GraphNode, Task, TaskRef
    if isinstance(obj, TaskRef):
        counts[obj.key] += 1
    elif isinstance(obj, Task):
        for a in list(obj.args) + list(obj.kwargs.values()):
            _refcount(a, counts)
    elif isinstance(obj, GraphNode):
        for k in obj.dependencies:
            counts[k] += 1
    elif isinstance(obj, dict):
        for a in obj.values():
            _refcount(a, counts)
    elif isinstance(obj, (list, tuple, set, frozenset)):
        for a in obj:
            _refcount(a, counts)


def lazify_invariant(ctx, bag, what):
    """Function level (bag optimize = cull + fuse + lazify): inside every fused task of the optimised graph, an
    inner key that is read more than once must still produce a list (head `list` / `reify`), never a bare lazy
    iterator (`map_chunk`, `filter`, …) that the second read would find exhausted."""
    import dask.bag.core as bc
    from dask._task_spec import Task
    dsk = bc.optimize(bag.dask, bag.__dask_keys__())
    nfused = 0
    for key, t in dsk.items():
        if isinstance(t, Task) and t.func is bc._execute_subgraph:
            sub, outkey = t.args[0], t.args[1]
            counts = collections.Counter()
            for v in sub.values():
                _refcount(v, counts)
            nfused += 1
            # the output may be an alias (chain) of an inner key: that key IS the output and must be a list
            tgt = outkey
            while type(sub.get(tgt)).__name__ == "Alias" and sub[tgt].target in sub and sub[tgt].target != tgt:
                tgt = sub[tgt].target
            if tgt != outkey:
                ctx.branch("lazify:output-is-an-alias-of-an-inner-key")
                v = sub[tgt]
                if isinstance(v, Task) and getattr(v.func, "__name__", "") in ("map_chunk", "filter", "map", "concat", "starmap_chunk"):
                    ctx.fail(f"{what}: the fused task's output aliases the inner key {str(tgt)[:40]} whose value is a bare lazy "
                             "iterator: the partition is a one-shot iterator", observed=v.func.__name__)
            for k, v in sub.items():
                if k != outkey and counts[k] > 1 and isinstance(v, Task) and v.func not in (list, bc.reify):
                    if getattr(v.func, "__name__", "") in ("map_chunk", "filter", "map", "concat", "starmap_chunk", "random_sample"):
                        ctx.fail(f"{what}: lazify left the inner key {str(k)[:40]} as a lazy iterator although it is read "
                                 f"{counts[k]} times inside one fused task", observed=getattr(v.func, "__name__", repr(v.func)))
                    else:
                        ctx.note("lazify:inner-key-read-twice-with-unknown-head")
                if k != outkey and counts[k] > 1:
                    ctx.branch("lazify:inner-key-read-twice-kept-as-list")
    if nfused:
        ctx.branch("lazify:fused-task-inspected")


def _sync(fn):
    """Bags default to the multiprocessing scheduler: run every case on the synchronous one. The files of a disk
    shuffle (partd) go to a per-case directory under tempfile.gettempdir() that the case removes itself."""
    @functools.wraps(fn)
    def wrapped(ctx, inp):
        import shutil
        import tempfile
        import dask
        uses_disk = inp.get("method") == "disk" or inp.get("disk")
        td = tempfile.mkdtemp(prefix="verif_bag_partd_") if uses_disk else None
        try:
            cfg = {"scheduler": "sync"}
            if td:
                cfg["temporary_directory"] = td
            with dask.config.set(cfg):
                return fn(ctx, inp)
        finally:
            if td:
                shutil.rmtree(td, ignore_errors=True)
    return wrapped


def case_from_sequence(ctx, inp):
    """from_sequence(seq, npartitions= / partition_size=): the sequence in order, cut into equal consecutive
    pieces of the documented size."""
    import dask.bag as db
    n, np_, ps = inp["n"], inp.get("npartitions"), inp.get("partition_size")
    seq = list(range(100, 100 + n))
    kw = {}
    if np_:
        kw["npartitions"] = np_
    if ps:
        kw["partition_size"] = ps
    r = db.from_sequence(seq, **kw)
    got = parts_of(r)
    if [x for p in got for x in p] != seq:
        ctx.fail("from_sequence changed the sequence", observed=got)
    if ps:
        size = ps
    elif np_:
        size = int(math.ceil(n / np_)) if n <= 100 else max(1, n // np_)
    else:
        size = 1 if n <= 100 else max(1, math.ceil(math.sqrt(n) / 10))
    want = ([seq[i:i + size] for i in range(0, n, size)] if n else []) or [[]]
    if got != want:
        ctx.fail("from_sequence partitions are not consecutive pieces of the documented size", observed=got, expected=want)
    if r.npartitions != len(want):
        ctx.fail("from_sequence npartitions attribute differs from the number of partitions", observed=r.npartitions)
    if np_ and n and n <= 100 and len(want) > np_:
        ctx.fail("from_sequence(npartitions=k) produced more than k partitions", observed=len(want))
    ctx.eq("from_sequence partition size and lengths (fromSequenceSize / fromSequenceB)",
           ctx.lean(Sym("fromsequence"), n, ps, np_), [Sym("ok"), size, [len(p) for p in got]])
    ctx.branch("from_sequence:" + ("partition_size" if ps else "npartitions" if np_ else "default"))


def case_tree(ctx, inp):
    """Runtime structure of Bag.reduction (skipped partitions, grouping, tasks per level) — shared with C49."""
    from props.c49 import case_tree as _t
    _t(ctx, inp)


CASES = {"lazify": case_lazify, "program": case_program, "split": case_split, "repartsize": case_repartsize, "stats": case_stats,
         "from_sequence": case_from_sequence, "tree": case_tree, "accumulate": case_accumulate, "take": case_take, "repartition": case_repartition, "reduce": case_reduce,
         "stagesk": case_stagesk, "digits": case_digits, "groupby_tasks": case_groupby_tasks,
         "groupby_api": case_groupby_api, "product_zip": case_product_zip, "api": case_api}
CASES = {k: _sync(v) for k, v in CASES.items()}

# ----------------------------------------------------------------------------------------------
# generators
# ----------------------------------------------------------------------------------------------


def gen_parts(rng, maxparts=9, maxlen=5, lo=-4, hi=9):
    n = rng.choice([1, 1, 2, 3, 4, maxparts, rng.randint(1, maxparts)])
    mode = rng.random()
    parts = []
    for _ in range(n):
        ln = 0 if mode < 0.08 else rng.choice([0, 0, 1, 2, 3, maxlen, rng.randint(0, maxlen)])
        parts.append([rng.randint(lo, hi) for _ in range(ln)])
    return parts


API_OPS = ["map", "starmap", "filter", "map_partitions", "pluck", "flatten", "distinct", "frequencies", "topk", "stats",
           "foldby", "groupby", "join", "accumulate", "take", "repartition", "from_sequence", "fold_set", "reduction",
           "multi_consumer", "pipeline", "pipeline", "pipeline", "foldby_joint", "delayed", "same_bag_twice", "joint_alias", "tasklike"]


def generate(ctx):
    rng = ctx.rng
    th = ctx.thorough()
    # regression inputs of the repaired defects
    yield "reduce", {"parts": [[], []], "se": None, "kind": "fold", "op": "add", "cop": "add", "init": 0}
    yield "accumulate", {"parts": [[], [1, 2]], "op": "add", "init": None}
    yield "repartition", {"parts": [[i] for i in range(15)], "m": 11}
    yield "api", {"op": "same_bag_twice", "kind": "int", "sizes": [3, 0, 2], "seed": 1, "se": None, "k": 0, "m": 1, "mb": None, "nout": None}
    yield "api", {"op": "joint_alias", "kind": "int", "sizes": [3, 3], "seed": 2, "se": None, "k": 0, "m": 1, "mb": None, "nout": None}
    yield "api", {"op": "tasklike", "kind": "int", "sizes": [2, 1], "seed": 3, "se": None, "k": 0, "m": 1, "mb": None, "nout": None}
    ndisk = [0]
    for n, m in ((15, 11), (15, 13), (26, 23), (29, 25), (30, 11)):   # int(i*(n/m)) != i*n//m
        yield "repartition", {"parts": [[i] for i in range(n)], "m": m}
    # the float-sensitive (len, k) pairs of split(): int(len/k*i) + rounding (element 7 of 12 split 9 ways, …)
    for L, k in ((12, 9), (10, 15), (6, 14), (3, 9), (6, 9)):
        yield "split", {"len": L, "k0": k, "k1": k + 1}
        yield "repartition", {"parts": [list(range(L))], "m": k}
        yield "repartition", {"parts": [[], list(range(L))], "m": 2 * k + 1}
    # API level first
    for _ in range(ctx.n(190, 2500)):
        op = rng.choice(API_OPS)
        nparts = rng.randint(1, 7)
        sizes = [rng.choice([0, 0, 1, 2, 3, 4]) for _ in range(nparts)]
        inp = {"op": op, "kind": rng.choice(["int", "str", "tuple", "dict"]), "sizes": sizes, "seed": rng.getrandbits(30),
               "se": rng.choice([None, 2, 3, False]), "k": rng.randint(0, 6), "m": rng.randint(1, 9),
               "mb": rng.choice([None, 2, 3]), "nout": rng.choice([None, 1, 2, 5])}
        if op == "from_sequence":
            inp["kw"] = rng.choice([{}, {"npartitions": rng.randint(1, 6)}, {"partition_size": rng.randint(1, 5)}])
        if op == "groupby":
            ndisk[0] += 1
            inp["disk"] = ndisk[0] <= (4 if not th else 60)     # the disk shuffle fsyncs per partition
            if ndisk[0] == 1:        # once per run with the default blocksize, on a bag of at most two partitions
                inp["disk"] = "default-blocksize"
                inp["sizes"] = sizes[:2]
        yield "api", inp
    for _ in range(ctx.n(220, 4000)):
        yield "program", {"seed": rng.getrandbits(40)}
    # the terms of the four lazify defects, then random fused tasks
    for term in (["sub", 1, [9], [0, ["call", "reify", ["call", "lazy", ["ref", 9]]]], [1, ["call", "reify", ["call", "other", ["ref", 0], ["ref", 0]]]]],
                 ["sub", 1, [9], [0, ["call", "reify", ["call", "lazy", ["ref", 9]]]], [1, ["alias", 0]]],
                 ["sub", 2, [9], [0, ["call", "reify", ["call", "lazy", ["ref", 9]]]], [1, ["alias", 0]],
                  [2, ["call", "reify", ["call", "other", ["ref", 1], ["ref", 1]]]]],
                 ["call", "ident", ["call", "reify", ["call", "lazy", ["ref", 9]]]],
                 ["sub", 1, [9], [0, ["call", "ident", ["call", "reify", ["call", "lazy", ["ref", 9]]]]], [1, ["call", "ident", ["alias", 0]]]]):
        yield "lazify", {"term": term, "start": True}
    for _ in range(ctx.n(400, 6000)):
        yield "lazify", {"term": gen_lazify_term(rng), "start": rng.random() < 0.7}
    for i in range(ctx.n(3, 60)):
        yield "api", {"op": "to_dataframe", "kind": ["dict", "tuple", "int"][i % 3],
                      "sizes": [rng.choice([0, 1, 2, 3]) for _ in range(rng.randint(1, 4))] + [1],
                      "seed": rng.getrandbits(30), "se": None, "k": 0, "m": 1, "mb": None, "nout": None}
    for _ in range(ctx.n(25, 300)):
        parts = gen_parts(rng, lo=0)
        ndisk[0] += 1
        disk = ndisk[0] % 8 == 0 and (th or ndisk[0] < 20)
        if disk:   # few (slow: fsync per partition) but collision-heavy: several keys per output file
            parts = [[rng.randint(0, 30) for _ in range(rng.randint(2, 5))] for _ in range(rng.randint(2, 4))]
        yield "groupby_api", {"parts": parts, "km": rng.randint(4, 7) if disk else rng.randint(1, 6),
                              "method": "disk" if disk else "tasks",
                              "mb": rng.choice([None, 2, 3]), "nout": rng.choice([1, 2]) if disk else rng.choice([None, 1, 3]),
                              "blocksize": rng.choice([2, 3, 50] + ([None] if th and rng.random() < 0.1 else [])) if disk else None}
    # function level
    for _ in range(ctx.n(120, 1500)):
        big = rng.random() < 0.12
        parts = gen_parts(rng, maxparts=45 if big else rng.choice([4, 9, 17, 30]), maxlen=3, lo=0, hi=40)
        if big:   # more than 32 partitions: two stages with the DEFAULT max_branch
            parts = parts + [[rng.randint(0, 40)] for _ in range(max(0, rng.randint(33, 45) - len(parts)))]
        km = rng.randint(1, 8)
        yield "groupby_tasks", {"parts": parts, "km": km, "hashes": [rng.randint(0, rng.choice([5, 50, 10 ** 6])) for _ in range(km)],
                                "mb": None if big else rng.choice([None, 2, 2, 3, 4])}
    for n in range(0, 14 if not th else 40):
        for k in range(1, 8 if not th else 12):
            yield "from_sequence", {"n": n, "npartitions": k}
            yield "from_sequence", {"n": n, "partition_size": k}
        yield "from_sequence", {"n": n}
    for n in (101, 150, 399, 1000):
        for k in (1, 3, 7, 50):
            yield "from_sequence", {"n": n, "npartitions": k}
        yield "from_sequence", {"n": n}
    for n in range(1, 5 if not th else 8):
        for mask in range(2 ** n):
            yield "tree", {"sizes": [(mask >> i) & 1 for i in range(n)], "se": rng.choice([2, 3, None, False])}
    for _ in range(ctx.n(40, 600)):
        yield "tree", {"sizes": [rng.choice([0, 1, 1, 2]) for _ in range(rng.randint(1, 40))], "se": rng.choice([2, 3, 4, 8, None, False])}
    for _ in range(ctx.n(200, 3000)):
        parts = gen_parts(rng)
        yield "accumulate", {"parts": parts, "op": rng.choice(["add", "sub", "max", "lin", "right", "mul"]),
                             "init": rng.choice([None, None, 0, 3])}
    for _ in range(ctx.n(150, 2000)):
        parts = gen_parts(rng)
        yield "take", {"parts": parts, "k": rng.randint(0, 8), "n": rng.choice([None, 1, 2, len(parts), len(parts) + 1, rng.randint(0, len(parts))])}
    for n in range(1, 13 if not th else 41):
        for m in range(1, 15 if not th else 45):
            yield "repartition", {"parts": [[i] * (i % 3) for i in range(n)], "m": m}
    for _ in range(ctx.n(100, 1500)):
        parts = gen_parts(rng, maxparts=rng.choice([5, 12, 33]), maxlen=7)
        yield "repartition", {"parts": parts, "m": rng.randint(1, 2 * len(parts) + 2)}
    # split(seq, k): exhaustive small space (function level; one case = one length, all k)
    lmax, kmax = (200, 60) if th else (120, 60)
    for L in range(0, lmax + 1):
        yield "split", {"len": L, "k0": 1, "k1": kmax}
    for _ in range(ctx.n(60, 800)):    # one long partition split many ways through the public API
        L = rng.randint(0, 40)
        pre = [[rng.randint(0, 9) for _ in range(rng.choice([0, 1, 2]))] for _ in range(rng.choice([0, 0, 1, 2]))]
        parts = pre + [list(range(100, 100 + L))]
        yield "repartition", {"parts": parts, "m": rng.randint(len(parts) + 1, len(parts) * rng.choice([2, 9, 16, 25]) + 3)}
    for _ in range(ctx.n(50, 700)):
        parts = gen_parts(rng, maxparts=rng.choice([2, 5, 9]), maxlen=rng.choice([3, 12, 30]))
        yield "repartsize", {"parts": parts, "size": rng.choice([60, 100, 150, 250, 400, 1000, 10 ** 6])}
    for _ in range(ctx.n(80, 1200)):
        parts = gen_parts(rng, maxparts=rng.choice([1, 3, 9]), maxlen=4, lo=-6, hi=12)
        yield "stats", {"parts": parts, "ddof": rng.choice([0, 0, 1, 1, 2])}
    kinds = ["fold", "fold", "foldnoinit", "sum", "max", "topk", "freq", "foldby", "foldbynoci", "foldbynoinit"]
    for _ in range(ctx.n(520, 7000)):
        parts = gen_parts(rng, maxparts=rng.choice([4, 9, 20]), lo=0 if rng.random() < 0.5 else -4)
        kind = rng.choice(kinds)
        inp = {"parts": parts, "se": rng.choice([None, 2, 2, 3, 4, False]), "kind": kind, "k": rng.randint(0, 5)}
        if kind in ("fold", "foldby", "foldbynoci"):
            if rng.random() < 0.6:
                inp["op"], inp["cop"], inp["init"] = rng.choice(HOM)
            else:
                inp["op"], inp["cop"], inp["init"] = rng.choice(["add", "sub", "lin", "right", "max"]), rng.choice(["add", "sub", "left", "max"]), rng.randint(-2, 3)
            inp["cinit"] = inp["init"]
            inp["km"] = rng.randint(1, 4)
        if kind in ("foldnoinit", "foldbynoinit"):
            inp["op"] = rng.choice(["add", "mul", "max", "sub", "lin"])
            inp["cop"] = inp["op"] if rng.random() < 0.7 else rng.choice(["add", "left"])
            inp["km"] = rng.randint(1, 4)
        if kind in ("freq", "foldby", "foldbynoci", "foldbynoinit"):
            inp["parts"] = [[abs(x) for x in p] for p in parts]
        yield "reduce", inp
    for n in range(1, 400 if not th else 2001):
        for mb in ((2, 3, 32) if not th else (2, 3, 4, 5, 8, 16, 32)):
            yield "stagesk", {"n": n, "mb": mb}
    for _ in range(ctx.n(300, 3000)):
        k = rng.randint(2, 7)
        st = rng.randint(1, 4)
        yield "digits", {"t": rng.randrange(k ** st), "s": rng.randrange(st), "v": rng.randrange(k), "k": k, "stages": st}
    for _ in range(ctx.n(80, 1000)):
        a = gen_parts(rng, maxparts=4, maxlen=3)
        if rng.random() < 0.5:
            b = [[rng.randint(0, 5) for _ in p] for p in a]
        else:
            b = gen_parts(rng, maxparts=4, maxlen=3)
        yield "product_zip", {"a": a, "b": b, "km": rng.randint(1, 4)}


LEVEL_TEXT = (
    "Lean theorems (80+, all for every partitioning incl. empty partitions): invariant principle for Bag.reduction (any split_every >= 2, "
    "and split_every=False: bag_reduction_eq_guard) with fold (with / without initial), sum, count, max, min, any, all, topk, frequencies, "
    "distinct as instances; the exact integer moments behind mean / var / std (bag_mean_eq, bag_var_eq); foldby with combine_initial "
    "(foldby_eq), without it (foldby_noci_eq: merge_with(reduce(combine)), no unit law needed) and without any initial (foldby_noinit_eq); "
    "staged task shuffle: every element ends in partition hash mod k^stages, each stage is a permutation, every key in exactly one "
    "partition, once (groupby_keys_nodup), with EXACTLY its elements as a multiset (groupby_group_perm); disk shuffle placement and "
    "completeness; accumulate = itertools.accumulate for every binop; take; repartition(npartitions) keeps the sequence and yields exactly "
    "the requested number of partitions — fewer: integer boundaries, more: with the REAL binary64 cut points int(len/k*i) of split() "
    "modelled exactly (split_den, repartition_more_ieee); repartition(partition_size) for any memory usages (repartition_size_den); "
    "from_sequence (sizes, count, npartitions bound); product (multiset), zip, concat, join, map/filter/remove/flatten/pluck/starmap; "
    "bag optimize/lazify (Props/C48Lazify): the repaired lazify_task transliterated on task-spec terms, lazify_sub_safe — in a fused task "
    "the output, every key read more than once and every alias target of such a key keeps its list (closure fixpoint proved), "
    "lazify_top_keeps_list also under the identity wrappers of copied graphs; the four earlier states of the code are refuted on the "
    "graphs of the defects found (all repaired in /repo). "
    "Validated only (API-level differential): the final float formula of mean/var/std, to_dataframe, to_delayed/from_delayed, "
    "the iterator semantics behind lazify and fuse_linear_task_spec (random DAG programs with joint compute), partd files of the disk "
    "shuffle, iter_chunks of repartition_size.")
LEVEL_NOTE = (
    "Trusted: Lean kernel + standard axioms; the correspondence harness; toolz kernels on one partition (groupby, reduceby, merge_with, "
    "unique, topk, partition_all) as reference semantics; partd; tokenize as the hash of groupby keys; CPython binary64 arithmetic "
    "(int/int division, float*int: the model's round53 is diffed against CPython on every run); the hypothesis npartitions <= k^stages of "
    "the shuffle theorems is checked on the values the REAL groupby_tasks computes (function prefix and graph), for every npartitions "
    "< 400 (quick) / <= 2000 (thorough) x max_branch; bag optimize/lazify and map/filter/pluck glue are covered by the API-level "
    "differential check only.")
