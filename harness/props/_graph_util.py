"""Helpers shared by the graph group (C06 C07 C08 C09 C16): digraph enumeration, DAG generators,
key interning, reference reachability / cycle detection."""
from __future__ import annotations

import itertools


def all_digraphs(n, self_loops=True):
    """Every digraph on n nodes as adjacency lists (ascending neighbour order)."""
    pairs = [(i, j) for i in range(n) for j in range(n) if self_loops or i != j]
    for mask in range(1 << len(pairs)):
        adj = [[] for _ in range(n)]
        for b, (i, j) in enumerate(pairs):
            if mask >> b & 1:
                adj[i].append(j)
        yield adj


def all_dags(n):
    """Every DAG on n nodes whose edges go from a higher to a lower number (topological numbering)."""
    pairs = [(i, j) for i in range(n) for j in range(i)]
    for mask in range(1 << len(pairs)):
        adj = [[] for _ in range(n)]
        for b, (i, j) in enumerate(pairs):
            if mask >> b & 1:
                adj[i].append(j)
        yield adj


def nonempty_subsets(n):
    for r in range(1, n + 1):
        yield from itertools.combinations(range(n), r)


def random_digraph(rng, n, p, self_loops=True):
    adj = []
    for i in range(n):
        row = [j for j in range(n) if (self_loops or i != j) and rng.random() < p]
        rng.shuffle(row)
        adj.append(row)
    return adj


def random_dag(rng, n, p, shuffle_labels=True):
    """DAG by topological numbering, then relabelled by a random permutation."""
    perm = list(range(n))
    if shuffle_labels:
        rng.shuffle(perm)
    adj = [[] for _ in range(n)]
    for i in range(n):
        row = [perm[j] for j in range(i) if rng.random() < p]
        rng.shuffle(row)
        adj[perm[i]] = row
    return adj


def reachable(adj, starts):
    seen = set()
    stack = list(starts)
    while stack:
        u = stack.pop()
        if u in seen:
            continue
        seen.add(u)
        stack.extend(adj[u])
    return seen


def has_cycle_from(adj, starts):
    """Is there a cycle among the nodes reachable from `starts`? (iterative three-colour DFS)"""
    color = {}
    for s in starts:
        if s in color:
            continue
        stack = [(s, iter(adj[s]))]
        color[s] = 1
        while stack:
            u, it = stack[-1]
            for v in it:
                c = color.get(v)
                if c == 1:
                    return True
                if c is None:
                    color[v] = 1
                    stack.append((v, iter(adj[v])))
                    break
            else:
                color[u] = 2
                stack.pop()
    return False


KEY_KINDS = ("str", "int", "tuple", "mixed")


def mk_key(kind, i):
    """node index -> key; index 0 maps to a *falsy* key (`''`, `0`, `()`): truth value of a key must not matter"""
    if kind == "str":
        return "" if i == 0 else f"k{i}"
    if kind == "int":
        return i
    if kind == "tuple":
        return () if i == 0 else ("x", i)
    return [0, "", ()][i] if i < 3 else [f"k{i}", i + 100, ("x", i), (f"y{i}", 0, 1)][i % 4]


def enc_graph(adj):
    """adjacency lists -> s-expression graph for the Lean driver"""
    return [[i, list(row)] for i, row in enumerate(adj)]
