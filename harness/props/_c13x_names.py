"""C13 extension — names.

Sections (added to c13.py):
  `keysplit`  dask.utils.key_split vs the C18 model reached through the token driver, on the names the collection
              constructors make (prefix-token, str and tuple keys) and on odd strings; oracle: prefix-token with a
              well-named prefix and a token holding a digit splits back to the prefix (theorem key_split_token_stripped),
              an all-letter token does not (all_letter_token_not_stripped)
  `fusedkey2` default_fused_keys_renamer on chains of generated keys vs Model/KeyName.renamer (key_split computed by
              the MODEL, unlike `fusedkey`), plus the predictions of renamer_generated: chains with the same prefixes
              under the same top key share the fused key, chains whose top tokens differ do not
  `ctor`      for from_array / from_sequence / bag.from_delayed / array.from_delayed / delayed leaf / delayed call /
              elemwise / blockwise: `tokenize` is wrapped during the real construction; the captured argument tuple is
              diffed position by position (and keyword by keyword) against the tuple of Model/CtorNames.lean, the
              prefix and the whole name (md5 of the model's pre-image) against the real name, key_split of the name
              against the prefix
  `ctorpair`  two constructions from near-identical inputs: equal names <=> observably equal inputs (real code only)
"""
from __future__ import annotations

import hashlib
import pickle
import re

from sexp import Sym
from props import _token_util as U

HEX = "0123456789abcdef"


# ----------------------------------------------------------------------------------------------
# keysplit
# ----------------------------------------------------------------------------------------------

PREFIXES = ["array", "from_sequence", "bag-from-delayed", "from-value", "add", "lambda", "p_tag", "sum-aggregate", "getitem",
            "x", "f", "map-partitions", "inc", "finalize", "random_sample", "concatenate", "blocks", "A", "Zz9"]
ODD_PREFIXES = ["_p_tag", "__call__", "_", "9lives", "a,b", "(x)", "'q'", "<lambda>", "<module.sub.cls object at 0x1>", "", "-",
                "deadbeef", "abcdefab", "cafe", "a.b", "x y", "<a b>", "<>", "< >", "_'()\"", "a\"b", "0f", "e-f", "f-abcdefab-g"]


def _tok(rng, kind):
    if kind == "hex32":
        return "%032x" % rng.getrandbits(128)
    if kind == "letters32":
        return "".join(rng.choice("abcdef") for _ in range(32))
    if kind == "digits32":
        return "".join(rng.choice("0123456789") for _ in range(32))
    if kind == "hex8":
        return "%08x" % rng.getrandbits(32)
    if kind == "letters8":
        return "".join(rng.choice("abcdef") for _ in range(8))
    if kind == "word":
        return rng.choice(["world", "abcdefgh", "Abcdefab", "zzzzzzzz", "a1", "1", "", "x_y", "fromdelayed"])
    return "%x" % rng.getrandbits(rng.choice([4, 16, 64, 124, 132]))


TOK_KINDS = ["hex32"] * 6 + ["letters32", "digits32", "hex8", "letters8", "word", "other"]


def gen_keysplit(rng):
    pre = rng.choice(PREFIXES) if rng.random() < 0.7 else rng.choice(ODD_PREFIXES)
    kind = rng.choice(TOK_KINDS)
    parts = [pre, _tok(rng, kind)]
    if rng.random() < 0.15:
        parts.append(_tok(rng, rng.choice(TOK_KINDS)))
    if rng.random() < 0.1:
        parts = parts[:1]
    s = "-".join(parts)
    form = rng.choice(["str"] * 5 + ["tuple", "tuplestr", "bytes"])
    return {"s": s, "form": form, "prefix": pre, "tok": kind if len(parts) == 2 else "n/a"}


_WELL = re.compile(r"^[A-Za-z][^-]*(-[A-Za-z]+)*$")


def _well_named(p):
    if not _WELL.match(p) or re.fullmatch(r"[a-f0-9]{32}", p):
        return False
    return not any(len(w) == 8 and w[0] in "abcdef" for w in p.split("-")[1:])


def case_keysplit(ctx, inp):
    from dask.utils import key_split
    s, form = inp["s"], inp["form"]
    if form == "tuple":
        arg, ms = (s, 0, 1), s
    elif form == "tuplestr":
        arg = ms = repr((s, 1))
    elif form == "bytes":
        arg, ms = s.encode(), s
    else:
        arg = ms = s
    real = key_split(arg)
    model = ctx.lean(Sym("keysplit"), ms)
    ctx.eq("key_split", model, real)
    pre, kind = inp["prefix"], inp["tok"]
    if form != "tuplestr" and _well_named(pre) and kind in ("hex32", "digits32", "letters32"):
        tok = s[len(pre) + 1:]
        if any(c.isdigit() for c in tok):
            if real != pre:
                ctx.fail("key_split of prefix-token is not the prefix", observed=real, expected=pre)
            ctx.branch("keysplit:token-stripped" + (":tuple" if form == "tuple" else ""))
        else:
            ctx.eq("an all-letter token stays in the prefix", s, real)
            ctx.branch("keysplit:all-letter-token-kept")
    if real == "Other":
        ctx.branch("keysplit:Other")
    elif real == "data":
        ctx.branch("keysplit:data")
    elif pre[:1] and not pre[0].isalpha():
        ctx.branch("keysplit:cleaned-first-word")
    if form in ("tuplestr", "bytes"):
        ctx.branch("keysplit:" + form)


# ----------------------------------------------------------------------------------------------
# fusedkey2
# ----------------------------------------------------------------------------------------------

STEP_WORDS = ["load", "clean", "score", "from_sequence", "array", "getitem", "x", "normalise_the_incoming_customer_record_fields_and_",
              "compute_the_weighted_moving_average_of_the_sensor_", "convert_the_measured_temperature_from_fahrenheit_t",
              "sum-aggregate", "bag-from-delayed", "a_b", "A", "lambda", "_private", "deadbeef", "f-abcdefab"]


def gen_fusedkey2(rng):
    nsteps = rng.randint(1, 5)
    steps = [rng.choice(STEP_WORDS) for _ in range(nsteps)]
    tuple_keys = rng.random() < 0.5
    chains = []
    for c in range(rng.randint(1, 4)):
        keys = []
        for st in steps:
            tok = _tok(rng, rng.choice(["hex32"] * 8 + ["letters32", "hex8", "word"]))
            name = f"{st}-{tok}" if rng.random() < 0.95 else st
            keys.append(["t", name, c % 2] + ([rng.randrange(3)] if rng.random() < 0.3 else []) if tuple_keys else ["s", name])
        r = rng.random()
        if r < 0.2 and chains:
            keys[:-1] = chains[-1][:-1]                        # same lower keys, another top token
        elif r < 0.4 and chains:
            keys[-1] = chains[-1][-1]                          # same top key, other lower tokens (same prefixes)
        chains.append(keys)
    inp = {"chains": chains}
    r = rng.random()
    if r < 0.25:
        total = len("-".join(sorted(set(steps[:-1]))) + "-" + chains[0][-1][1])
        inp["maxlen"] = max(34, total + 33 + rng.choice([-2, -1, 0, 1, 2]))
    elif r < 0.35:
        inp["maxlen"] = rng.choice([34, 40, 64, 200, 0])
    return inp


def _mk_key(kspec):
    return kspec[1] if kspec[0] == "s" else tuple(kspec[1:])


def case_fusedkey2(ctx, inp):
    from dask.optimization import default_fused_keys_renamer
    from dask.utils import key_split
    maxlen = inp.get("maxlen")
    fused, info = [], []
    for ch in inp["chains"]:
        keys = [_mk_key(k) for k in ch]
        real = default_fused_keys_renamer(keys) if maxlen is None else default_fused_keys_renamer(keys, maxlen)
        ans = ctx.lean(Sym("fusedkey2"), 120 if maxlen is None else maxlen,
                       [[Sym(k[0]), k[1]] + list(k[2:]) for k in ch])
        kept, full, idx = ans
        if full is None or str(full) == "none":
            name = kept
        else:
            name = kept + "-" + hashlib.md5(full.encode(errors="surrogatepass")).hexdigest()
            ctx.branch("fusedkey2:name-cut")
        model = name if (idx is None or str(idx) == "none") else (name,) + tuple(idx)
        ctx.eq("default_fused_keys_renamer (key_split by the model)", [repr(model)], [repr(real)])
        fused.append(real)
        info.append(([key_split(k) for k in keys[:-1]], keys[-1]))
    for i in range(len(fused)):
        for j in range(i):
            (pi, ti), (pj, tj) = info[i], info[j]
            if ti == tj and sorted(set(pi)) == sorted(set(pj)):
                ctx.eq("same prefixes under the same top key: same fused key", repr(fused[i]), repr(fused[j]))
                if inp["chains"][i][:-1] != inp["chains"][j][:-1]:
                    ctx.branch("fusedkey2:lower-tokens-ignored")
            if ti != tj:
                if fused[i] == fused[j]:
                    ctx.fail("two chains with different top keys get the same fused key", sig=None,
                             observed={"fused": repr(fused[i]), "top keys": [repr(ti), repr(tj)]})
                ctx.branch("fusedkey2:top-tokens-differ")
    if any(k[0] == "t" for ch in inp["chains"] for k in ch):
        ctx.branch("fusedkey2:tuple-keys")


# ----------------------------------------------------------------------------------------------
# ctor: the argument tuple each constructor feeds to tokenize
# ----------------------------------------------------------------------------------------------

class ArrLike:
    """an array-like without __array_function__ (from_array then defaults to asarray=True)"""

    def __init__(self, a):
        self.a = a
        self.shape, self.dtype, self.ndim = a.shape, a.dtype, a.ndim

    def __getitem__(self, idx):
        return self.a[idx]

    def __dask_tokenize__(self):
        from dask.tokenize import tokenize
        return "arrlike-" + tokenize(self.a)


def _getter(a, b, asarray=True, lock=None):
    import numpy as np
    c = a[b]
    return np.asarray(c) if asarray else c


def f_double(x):
    return x * 2


def _private_add(x, y=0, *, z=0):
    return x + y + z


def block_sum(x, *ys, **kw):
    return x


def __dunder_block__(x, *ys, **kw):
    return x


def lambda_like(x, y=0, **kw):
    return x


FUNCS = [f_double, _private_add, block_sum, lambda_like]
BW_FUNCS = [block_sum, __dunder_block__, lambda_like]


class Objs:
    """case-local registry of opaque leaves that `normalize_token` hashes through pickle"""

    def __init__(self):
        self.objs = []

    def enc(self, o):
        self.objs.append(o)
        return [Sym("pickled"), "obj", [Sym("int"), len(self.objs) - 1]]


_POBJ = re.compile("\x01Pobj:(\\d+)\x02")


def resolve(pre, table, objs):
    pre = _POBJ.sub(lambda m: U._digest(pickle.dumps(objs.objs[int(m.group(1))], protocol=5)), pre)
    return U.resolve(pre, table)


def md5(s):
    return hashlib.md5(s.encode(), usedforsecurity=False).hexdigest()


def enc_leaf(o, table, objs):
    """what `normalize_token` makes of an argument, as a `Val`: collections by their name / key, dtypes by `.str`,
    functions / ufuncs / type objects through pickle, plain data by U.enc"""
    import numpy as np
    import types
    if hasattr(o, "__dask_tokenize__") and not isinstance(o, type):
        t = o.__dask_tokenize__()
        if not isinstance(t, str):
            raise U.Unsupported("non-str __dask_tokenize__")
        return [Sym("str"), t]
    if isinstance(o, np.dtype):
        if o.kind == "V":
            raise U.Unsupported("structured dtype")
        return [Sym("str"), o.str]
    if isinstance(o, (types.FunctionType, types.BuiltinFunctionType, np.ufunc, type)):
        return objs.enc(o)
    if type(o) is list:
        return [Sym("list")] + [enc_leaf(e, table, objs) for e in o]
    if type(o) is tuple:
        return [Sym("tuple")] + [enc_leaf(e, table, objs) for e in o]
    if type(o) is dict:
        return [Sym("dict")] + [[enc_leaf(k, table, objs), enc_leaf(v, table, objs)] for k, v in o.items()]
    return U.enc(o, table)


class Capture:
    """wraps `tokenize` in the modules the constructors live in and records every call"""

    MODS = [("dask.array.core", "tokenize"), ("dask.bag.core", "tokenize"), ("dask.delayed", "_tokenize"), ("dask.base", "tokenize")]

    def __enter__(self):
        import importlib
        self.calls, self.saved = [], []
        for mod, attr in self.MODS:
            m = importlib.import_module(mod)
            orig = getattr(m, attr)
            self.saved.append((m, attr, orig))

            def wrapper(*args, _orig=orig, **kwargs):
                # tokens of the arguments as they are NOW (elemwise renames its `out` array afterwards)
                from dask.tokenize import tokenize as tk
                try:
                    toks = ([tk(a) for a in args], {k: tk(v) for k, v in kwargs.items() if k != "ensure_deterministic"})
                except Exception:
                    toks = None
                res = _orig(*args, **kwargs)
                self.calls.append((toks, None, res))
                return res
            setattr(m, attr, wrapper)
        return self

    def __exit__(self, *exc):
        for m, attr, orig in self.saved:
            setattr(m, attr, orig)
        return False

    def for_name(self, name):
        hits = [toks for toks, _, res in self.calls if isinstance(res, str) and name.endswith("-" + res) and toks is not None]
        return hits[-1] if hits else None


def _bool(b):
    return Sym("true") if b else Sym("false")


def _opt(v):
    return Sym("none") if v is None else v


def _leaf_delayed(i, v):
    from dask import delayed
    return delayed(v, name=f"leaf-{i}-{md5(repr(v))[:6]}")


def build_ctor(spec, table, objs):
    """spec -> (real collection or None when the constructor raised, layer name, model request)"""
    import numpy as np
    import dask
    import dask.array as da
    import dask.bag as db
    from dask import delayed
    from dask.utils import funcname
    k = spec[0]
    if k == "fromarray":
        _, nd, chunks, lock, asarray, fancy, getitem, inline, wrap = spec
        x = U.build(nd)
        src = ArrLike(x) if wrap else x
        from dask.array.core import normalize_chunks
        nchunks = normalize_chunks(chunks, x.shape, dtype=x.dtype)
        gi = _getter if getitem else None
        d = da.from_array(src, chunks=chunks, lock=lock, asarray=asarray, fancy=fancy, getitem=gi, inline_array=inline)
        req = [Sym("fromarray"), enc_leaf(src, table, objs), [list(c) for c in nchunks], enc_leaf(lock, table, objs),
               _opt(None if asarray is None else _bool(asarray)), _bool(hasattr(src, "__array_function__")), _bool(fancy),
               enc_leaf(gi, table, objs), _bool(inline)]
        return d, d.name, req
    if k == "fromsequence":
        _, seq, np_, ps = spec
        vals = [U.build(s) for s in seq]
        kw = {}
        if np_ is not None:
            kw["npartitions"] = np_
        if ps is not None:
            kw["partition_size"] = ps
        b = db.from_sequence(vals, **kw)
        req = [Sym("fromsequence"), [enc_leaf(v, table, objs) for v in vals], _opt(np_), _opt(ps)]
        return b, b.name, req
    if k == "bagfromdelayed":
        _, parts = spec
        ds = [_leaf_delayed(i, [U.build(s) for s in part]) for i, part in enumerate(parts)]
        b = db.from_delayed(ds)
        return b, b.name, [Sym("bagfromdelayed"), [d.key for d in ds]]
    if k == "arrayfromdelayed":
        _, nd, how = spec
        x = U.build(nd)
        v = _leaf_delayed(0, x)
        if how == "dtype":
            dt, meta = x.dtype, None
        elif how == "str":
            dt, meta = x.dtype.str, None
        else:
            dt, meta = None, np.empty((0,) * x.ndim, dtype=x.dtype)
        d = da.from_delayed(v, shape=x.shape, dtype=dt, meta=meta)
        req = [Sym("arrayfromdelayed"), v.key, list(x.shape), enc_leaf(dt, table, objs), enc_leaf(meta, table, objs)]
        return d, d.name, req
    if k == "delayedleaf":
        _, vs, nout, fidx = spec
        obj = FUNCS[fidx] if fidx is not None else U.build(vs)
        d = delayed(obj, pure=True, nout=nout)
        if type(d).__name__ != "DelayedLeaf":
            raise U.Unsupported("not a leaf")
        dn = getattr(obj, "__name__", None)
        req = [Sym("delayedleaf"), _opt(dn), type(obj).__name__, enc_leaf(obj, table, objs), _opt(nout)]
        return d, d.key, req
    if k == "delayedcall":
        _, fidx, args, kwargs = spec
        fn = delayed(FUNCS[fidx], pure=True)
        mk = lambda i, a: _leaf_delayed(i, U.build(a[1])) if a[0] == "delayed" else U.build(a)   # noqa: E731
        rargs = [mk(i, a) for i, a in enumerate(args)]
        rkw = {key: mk(10 + i, a) for i, (key, a) in enumerate(kwargs)}
        d = fn(*rargs, **rkw)
        req = [Sym("delayedcall"), funcname(FUNCS[fidx]), fn.key, [enc_leaf(a, table, objs) for a in rargs],
               [[key, enc_leaf(v, table, objs)] for key, v in rkw.items()]]
        return d, d.key, req
    if k == "elemwise":
        _, op, operands, dtype, where, out = spec
        ufunc = {"add": np.add, "maximum": np.maximum, "negative": np.negative, "multiply": np.multiply}[op]
        shape = None
        rargs = []
        for o in operands:
            if o[0] == "dask":
                x = U.build(o[1])
                shape = x.shape
                rargs.append(da.from_array(x, chunks=o[2]))
            elif o[0] == "raw":
                rargs.append(U.build(o[1]))
            else:
                rargs.append(U.build(o))
        kw = {}
        if dtype is not None:
            kw["dtype"] = np.dtype(dtype) if dtype.startswith("np:") is False else None
            kw["dtype"] = np.dtype(dtype[3:]) if dtype.startswith("np:") else dtype
        w = True
        if where is not None:
            w = da.from_array(np.array((where * (int(np.prod(shape)) + 1))[:int(np.prod(shape))], dtype=bool).reshape(shape), chunks=-1)
            kw["where"] = w
        o_arr, o_enc = None, [Sym("none")]
        if out:
            o_arr = da.from_array(np.zeros(shape, dtype="f8"), chunks=-1)
            kw["out"] = o_arr
            o_enc = [Sym("str"), o_arr.name]          # `out` is renamed to the result afterwards
        from dask.array.core import elemwise
        res = elemwise(ufunc, *rargs, **kw)
        name = res.name
        dt = kw["dtype"] if dtype is not None else res.dtype
        req = [Sym("elemwise"), funcname(ufunc), enc_leaf(ufunc, table, objs), enc_leaf(dt, table, objs),
               [enc_leaf(a, table, objs) for a in rargs], enc_leaf(w, table, objs), o_enc]
        return res, name, req
    if k == "blockwise":
        _, fidx, outind, operands, token, newaxes, align, concat, dtype, kwargs = spec
        func = BW_FUNCS[fidx]
        rargs, pairs = [], []
        for o in operands:
            if o[0] == "dask":
                a = da.from_array(U.build(o[1]), chunks=tuple(o[2]) if isinstance(o[2], list) else o[2])
                ind = o[3]
                rargs += [a, ind]
                pairs.append([enc_leaf(a, table, objs), enc_leaf(ind, table, objs)])
            else:
                v = U.build(o)
                rargs += [v, None]
                pairs.append([enc_leaf(v, table, objs), [Sym("none")]])
        na = None if newaxes is None else {key: v for key, v in newaxes}
        rkw = {key: U.build(v) for key, v in kwargs}
        kw = dict(dtype=np.dtype(dtype), align_arrays=align, concatenate=concat, new_axes=na, **rkw)
        if token is not None:
            kw["token"] = token
        outind_v = outind if isinstance(outind, str) else tuple(outind)
        d = da.blockwise(func, outind_v, *rargs, **kw)
        req = [Sym("blockwise"), _opt(token), funcname(func), enc_leaf(func, table, objs), enc_leaf(outind_v, table, objs), pairs,
               [Sym("none")], Sym("none") if na is None else [[enc_leaf(key, table, objs), enc_leaf(v, table, objs)] for key, v in na.items()],
               _bool(align), enc_leaf(concat, table, objs), [Sym("none")], enc_leaf(np.dtype(dtype), table, objs),
               [[key, enc_leaf(v, table, objs)] for key, v in rkw.items()]]
        return d, d.name, req
    raise ValueError(spec)


_LAST = None


def case_ctor(ctx, inp):
    global _LAST
    from dask.tokenize import tokenize
    from dask.utils import key_split
    spec = inp["spec"]
    table, objs = U.Table(), Objs()
    try:
        with Capture() as cap:
            _LAST = cap
            try:
                coll, name, req = build_ctor(spec, table, objs)
                raised = None
            except (TypeError, ValueError, ZeroDivisionError) as e:
                if spec[0] != "fromsequence":
                    raise
                raised = type(e).__name__
    except U.Unsupported as e:
        ctx.note("ctor-unsupported:" + str(e)[:40])
        return
    if raised is not None:
        # from_sequence with a partition size that stays None / is not positive
        vals = [U.build(s) for s in spec[1]]
        ans = ctx.lean(Sym("partsize"), len(vals), _opt(spec[2]), _opt(spec[3]))
        if not (ans is None or str(ans) == "none" or ans == 0):
            ctx.disagree("from_sequence raised where the model has a partition size", ans, raised)
        ctx.branch("ctor:fromsequence:raises")
        return
    ans = ctx.lean(Sym("ctor"), *req)
    if ans == [Sym("raised")] or (isinstance(ans, list) and len(ans) == 1):
        ctx.disagree("the model says the constructor raises", ans, name)
        return
    prefix, argpres, kwpres, pre = ans
    mname = f"{prefix}-{md5(resolve(str(pre), table, objs))}"
    ctx.eq(f"layer name of {spec[0]}", mname, name)
    hit = cap.for_name(name)
    if hit is None:
        ctx.disagree("no tokenize call produced the token of the name", mname, [c[2] for c in cap.calls][-3:])
        return
    args, kwargs = hit
    # the argument tuple, position by position: what tokenize makes of the captured argument vs of the model's argument
    ctx.eq(f"number of positional arguments {spec[0]} hands to tokenize", len(argpres), len(args))
    for i, (mp, a) in enumerate(zip(argpres, args)):
        ctx.eq(f"argument {i} of the tokenize call of {spec[0]}", md5(resolve(str(mp), table, objs)), a)
    ctx.eq(f"keyword arguments {spec[0]} hands to tokenize", sorted(k for k, _ in kwpres), sorted(kwargs))
    for k, mp in kwpres:
        if k in kwargs:
            ctx.eq(f"keyword argument {k} of the tokenize call of {spec[0]}", md5(resolve(str(mp), table, objs)), kwargs[k])
    # (a) meets (b): the name splits back to its prefix (model's key_split vs the real one vs the prefix)
    ks = key_split(name)
    if all(ord(c) < 128 for c in name):
        ctx.eq("key_split of the constructor's name", ctx.lean(Sym("keysplit"), name), ks)
    if _well_named(prefix) and any(c.isdigit() for c in name[-32:]):
        if ks != prefix:
            ctx.fail("key_split of a constructor's layer name is not its prefix", observed=ks, expected=prefix)
        ctx.branch("ctor:name-splits-to-prefix")
    ctx.branch("ctor:" + spec[0])
    if kwpres:
        ctx.branch("ctor:" + spec[0] + ":kwargs")
    for tag in inp.get("tags", []):
        ctx.branch("ctor:" + tag)


def _nd_num(rng, min_ndim=0):
    import numpy as np
    while True:
        s = U.gen_nd(rng)
        if s[1][1] in "iuf" and s[1] != "|b1":
            x = U.build(s)
            if x.size and x.ndim >= min_ndim:
                return s


def gen_ctor(rng):
    k = rng.choice(["fromarray"] * 3 + ["fromsequence"] * 3 + ["bagfromdelayed", "arrayfromdelayed", "delayedleaf", "delayedleaf",
                   "delayedcall", "elemwise", "elemwise", "blockwise", "blockwise"])
    tags = []
    if k == "fromarray":
        nd = _nd_num(rng, 1)
        wrap = rng.random() < 0.25
        asarray = rng.choice([None, None, True, False])
        if wrap:
            tags.append("fromarray:no-array-function")
        if asarray is None:
            tags.append("fromarray:asarray-default")
        return {"spec": ["fromarray", nd, rng.choice([1, 2, 3, -1, "auto"]), rng.random() < 0.2, asarray, rng.random() < 0.7,
                         rng.random() < 0.3, rng.random() < 0.3, wrap], "tags": tags}
    if k == "fromsequence":
        r = rng.random()
        n = rng.randint(0, 12) if r < 0.6 else (rng.randint(95, 105) if r < 0.8 else rng.randint(101, 420))
        if n <= 12:
            seq = [U.gen_value(rng, 1, arrays=False) for _ in range(n)]
        else:
            seq = [["int", rng.randint(0, 5)] for _ in range(n)]
            tags.append("fromsequence:long")
        mode = rng.choice(["np", "ps", "none", "both", "np0", "ps0"] if n else ["np", "none", "ps"])
        np_ = rng.randint(1, 7) if mode in ("np", "both") else (0 if mode == "np0" else None)
        ps = rng.randint(1, 5) if mode in ("ps", "both") else None
        if mode == "ps0":
            np_, ps = rng.randint(1, 4), 0
        tags.append("fromsequence:" + mode)
        return {"spec": ["fromsequence", seq, np_, ps], "tags": tags}
    if k == "bagfromdelayed":
        return {"spec": ["bagfromdelayed", [[["int", rng.randint(0, 3)] for _ in range(rng.randint(1, 3))] for _ in range(rng.randint(1, 3))]]}
    if k == "arrayfromdelayed":
        how = rng.choice(["dtype", "str", "meta"])
        return {"spec": ["arrayfromdelayed", _nd_num(rng, 0), how], "tags": ["arrayfromdelayed:" + how]}
    if k == "delayedleaf":
        if rng.random() < 0.3:
            return {"spec": ["delayedleaf", None, rng.choice([None, None, 0, 2]), rng.randrange(len(FUNCS))], "tags": ["delayedleaf:function"]}
        return {"spec": ["delayedleaf", U.gen_value(rng, 1), rng.choice([None, None, 0, 2]), None]}
    if k == "delayedcall":
        def arg():
            v = U.gen_value(rng, 1, arrays=rng.random() < 0.3)
            return ["delayed", v] if rng.random() < 0.3 else v
        kwargs = [[key, arg()] for key in rng.sample(["y", "z", "a", "k"], rng.choice([0, 0, 1, 2]))]
        return {"spec": ["delayedcall", rng.randrange(len(FUNCS)), [arg() for _ in range(rng.randint(0, 3))], kwargs]}
    if k == "elemwise":
        n = rng.randint(2, 5)
        base = ["nd", rng.choice(["<i8", "<f8", "<i4"]), [rng.randint(0, 5) for _ in range(n)], [["reshape", [n]]]]
        op = rng.choice(["add", "maximum", "multiply", "negative"])
        operands = [["dask", base, rng.choice([-1, 2])]]
        if op != "negative":
            r = rng.random()
            if r < 0.4:
                other = ["nd", rng.choice(["<i8", "<f8"]), [rng.randint(0, 5) for _ in range(n)], [["reshape", [n]]]]
                operands.append(["dask", other, rng.choice([-1, 2])])
            elif r < 0.7:
                operands.append(["raw", ["nd", "<i8", [rng.randint(0, 5) for _ in range(n)], [["reshape", [n]]]]])
                tags.append("elemwise:raw-numpy-operand")
            else:
                operands.append(rng.choice([["int", rng.randint(0, 3)], ["float", "1.5"]]))
                tags.append("elemwise:scalar-operand")
            if rng.random() < 0.5:
                operands.reverse()
        dtype = rng.choice([None, None, "f8", "np:f8"])
        where = [rng.random() < 0.5 for _ in range(n)] if rng.random() < 0.35 else None
        out = where is not None or rng.random() < 0.15
        if where is not None:
            tags.append("elemwise:where-out")
        elif out:
            tags.append("elemwise:out-only")
        if dtype is not None:
            tags.append("elemwise:explicit-dtype")
        return {"spec": ["elemwise", op, operands, dtype, where, out], "tags": tags}
    n, m = rng.randint(2, 4), rng.randint(2, 3)
    a = ["nd", "<i8", [rng.randint(0, 5) for _ in range(n * m)], [["reshape", [n, m]]]]
    operands = [["dask", a, rng.choice([-1, [2, -1], [1, -1]]), "ij"]]      # chunked along i only: unify_chunks keeps the names
    r = rng.random()
    if r < 0.4:
        b = ["nd", "<i8", [rng.randint(0, 5) for _ in range(m)], [["reshape", [m]]]]
        operands.append(["dask", b, -1, "j"])
    elif r < 0.7:
        operands.append(["int", rng.randint(0, 4)])
        tags.append("blockwise:literal-operand")
    token = rng.choice([None, None, "mytoken", ""])
    newaxes = [["k", rng.randint(1, 3)]] if rng.random() < 0.3 else (None if rng.random() < 0.7 else [])
    outind = "ijk" if newaxes else rng.choice(["ij", "ji"])
    if rng.random() < 0.3:
        outind = list(outind)
    kwargs = [[key, rng.choice([["int", rng.randint(1, 3)], ["str", "q"], ["list", [["int", 1]]]])]
              for key in rng.sample(["scale", "extra", "mode"], rng.choice([0, 0, 1, 2]))]
    if token is not None:
        tags.append("blockwise:token-given" if token else "blockwise:token-empty")
    if newaxes:
        tags.append("blockwise:new-axes")
    return {"spec": ["blockwise", rng.choice([0, 1, 2]), outind, operands, token, newaxes, rng.random() < 0.8,
                     rng.choice([None, True]), "<i8", kwargs], "tags": tags}


# ----------------------------------------------------------------------------------------------
# ctorpair: equal names <=> observably equal inputs (real code)
# ----------------------------------------------------------------------------------------------

def case_ctorpair(ctx, inp):
    import dask.array as da
    import dask.bag as db
    from dask import delayed
    kind, a, b = inp["kind"], U.build(inp["a"]), U.build(inp["b"])
    pa, pb = inp.get("pa"), inp.get("pb")
    if kind == "fromarray":
        if a.ndim == 0 or b.ndim == 0:
            return
        na, nb = da.from_array(a, chunks=pa).name, da.from_array(b, chunks=pb).name
        from dask.array.core import normalize_chunks
        same = U.obs_eq(a, b) and normalize_chunks(pa, a.shape, dtype=a.dtype) == normalize_chunks(pb, b.shape, dtype=b.dtype)
    elif kind == "fromsequence":
        na, nb = db.from_sequence(a, **pa).name, db.from_sequence(b, **pb).name
        sa = ctx.lean(Sym("partsize"), len(a), _opt(pa.get("npartitions")), _opt(pa.get("partition_size")))
        sb = ctx.lean(Sym("partsize"), len(b), _opt(pb.get("npartitions")), _opt(pb.get("partition_size")))
        same = U.obs_eq(list(a), list(b)) and sa == sb
    else:
        na, nb = delayed(a, pure=True, nout=pa).key, delayed(b, pure=True, nout=pb).key
        same = U.obs_eq(a, b) and pa == pb and type(a) is type(b)
    if same and na != nb:
        ctx.fail(f"{kind}: observably equal inputs get different names", observed=[na, nb])
    if not same and na == nb:
        ctx.fail(f"{kind}: observably different inputs get the same name", observed=na)
    ctx.branch(f"ctorpair:{kind}:" + ("same" if same else "differ"))
    if same and inp.get("label", "").startswith("same") is False and kind == "fromsequence" and pa != pb:
        ctx.branch("ctorpair:fromsequence:same-partition-size-other-arguments")


def gen_ctorpair(rng):
    kind = rng.choice(["fromarray", "fromsequence", "fromsequence", "delayedleaf"])
    if kind == "fromarray":
        a = _nd_num(rng, 1)
        b, lab = U.mutate_nd(rng, a)
        if b[0] != "nd":
            b, lab = a, "same:identity"
        pa = rng.choice([1, 2, -1])
        pb = pa if rng.random() < 0.7 else rng.choice([1, 2, -1])
        return {"kind": kind, "a": a, "b": b, "pa": pa, "pb": pb, "label": lab}
    if kind == "fromsequence":
        n = rng.randint(1, 8)
        a = ["list", [U.gen_value(rng, 1, arrays=False) for _ in range(n)]]
        if rng.random() < 0.5:
            b, lab = a, "same:identity"
        else:
            b, lab = U.mutate(rng, a)
            if b[0] != "list":
                b, lab = a, "same:identity"
        def par():
            r = rng.random()
            if r < 0.4:
                return {"npartitions": rng.randint(1, 4)}
            if r < 0.8:
                return {"partition_size": rng.randint(1, 4)}
            return {}
        return {"kind": kind, "a": a, "b": b, "pa": par(), "pb": par(), "label": lab}
    a = U.gen_value(rng, 1)
    b, lab = U.mutate(rng, a)
    pa = rng.choice([None, None, 2])
    return {"kind": kind, "a": a, "b": b, "pa": pa, "pb": pa if rng.random() < 0.8 else rng.choice([None, 0]), "label": lab}


CASES = {"keysplit": case_keysplit, "fusedkey2": case_fusedkey2, "ctor": case_ctor, "ctorpair": case_ctorpair}


def generate(ctx):
    rng = ctx.rng
    for s, form, pre, tok in [("x-abcdefabcdefabcdefabcdefabcdefab", "str", "x", "letters32"),
                              ("from_sequence-ae05086432ca935f6eba409a8ecd4896", "tuple", "from_sequence", "hex32"),
                              ("_p_tag-ae05086432ca935f6eba409a8ecd4896", "str", "_p_tag", "hex32"),
                              ("ae05086432ca935f6eba409a8ecd4896", "str", "ae05086432ca935f6eba409a8ecd4896", "n/a"),
                              ("", "str", "", "n/a")]:
        yield "keysplit", {"s": s, "form": form, "prefix": pre, "tok": tok}
    for _ in range(ctx.n(400, 4000)):
        yield "keysplit", gen_keysplit(rng)
    for _ in range(ctx.n(150, 1500)):
        yield "fusedkey2", gen_fusedkey2(rng)
    for _ in range(ctx.n(260, 2600)):
        yield "ctor", gen_ctor(rng)
    for _ in range(ctx.n(120, 1200)):
        yield "ctorpair", gen_ctorpair(rng)
