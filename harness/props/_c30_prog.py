"""Pipeline programs for C30, interpreted identically by NumPy, the classic dask.array engine (parent process)
and the array expression engine (child process with array.query-planning=True). Pure functions, no harness imports.

A program is a JSON tree:
  {"op": "from_array", "data": [...], "shape": [...], "dtype": "int64"|"float64", "chunks": [[...], ...]}
  {"op": "arange", "n": 7, "chunks": [[3, 4]]} | {"op": "ones"|"zeros", "shape": [...], "chunks": [[...]]} | {"op": "full", "value": 3, ...}
  {"op": "unary", "fn": "negative"|"abs"|"square", "a": P}
  {"op": "binary", "fn": "add"|"subtract"|"multiply"|"maximum", "a": P, "b": P | {"scalar": 3}}
  {"op": "getitem", "index": [[start, stop, step] | int | "newaxis", ...], "a": P}
  {"op": "reduce", "fn": "sum"|"prod"|"min"|"max"|"mean"|"any"|"all", "axis": null|int|[...], "keepdims": bool, "split_every": null|int, "a": P}
  {"op": "rechunk", "chunks": [[...], ...], "a": P}
  {"op": "concatenate"|"stack", "axis": 0, "args": [P, ...]}
  {"op": "map_blocks", "fn": "double"|"addone", "a": P}
  {"op": "astype", "dtype": "float64", "a": P}
  {"op": "transpose", "axes": [1, 0], "a": P}
"""
import numpy as np


def _double(b):
    return b * 2


def _addone(b):
    return b + 1


MB = {"double": _double, "addone": _addone}


def _index(ix):
    out = []
    for i in ix:
        if isinstance(i, list):
            out.append(slice(i[0], i[1], i[2]))
        elif i == "newaxis":
            out.append(None)
        else:
            out.append(int(i))
    return tuple(out)


def build(p, xp, lazy):
    """Evaluate program `p`. `xp` is numpy or a dask.array module; `lazy` tells which."""
    op = p["op"]
    if op == "from_array":
        a = np.array(p["data"], dtype=p["dtype"]).reshape(p["shape"])
        return xp.from_array(a, chunks=tuple(tuple(c) for c in p["chunks"])) if lazy else a
    if op == "arange":
        return xp.arange(p["n"], chunks=tuple(tuple(c) for c in p["chunks"])) if lazy else np.arange(p["n"])
    if op in ("ones", "zeros"):
        f = getattr(xp, op)
        return f(tuple(p["shape"]), chunks=tuple(tuple(c) for c in p["chunks"]), dtype="int64") if lazy else f(tuple(p["shape"]), dtype="int64")
    if op == "full":
        if lazy:
            return xp.full(tuple(p["shape"]), p["value"], chunks=tuple(tuple(c) for c in p["chunks"]), dtype="int64")
        return np.full(tuple(p["shape"]), p["value"], dtype="int64")
    if op == "unary":
        return getattr(xp, p["fn"])(build(p["a"], xp, lazy))
    if op == "binary":
        a = build(p["a"], xp, lazy)
        b = p["b"]["scalar"] if "scalar" in p["b"] else build(p["b"], xp, lazy)
        return getattr(xp, p["fn"])(a, b)
    if op == "getitem":
        return build(p["a"], xp, lazy)[_index(p["index"])]
    if op == "reduce":
        a = build(p["a"], xp, lazy)
        axis = p["axis"]
        axis = tuple(axis) if isinstance(axis, list) else axis
        kw = {"axis": axis, "keepdims": p["keepdims"]}
        if lazy and p.get("split_every"):
            kw["split_every"] = p["split_every"]
        return getattr(xp, p["fn"])(a, **kw)
    if op == "rechunk":
        a = build(p["a"], xp, lazy)
        return a.rechunk(tuple(tuple(c) for c in p["chunks"])) if lazy else a
    if op in ("concatenate", "stack"):
        args = [build(q, xp, lazy) for q in p["args"]]
        return getattr(xp, op)(args, axis=p["axis"])
    if op == "map_blocks":
        a = build(p["a"], xp, lazy)
        return a.map_blocks(MB[p["fn"]], dtype=a.dtype) if lazy else MB[p["fn"]](a)
    if op == "astype":
        return build(p["a"], xp, lazy).astype(p["dtype"])
    if op == "transpose":
        return build(p["a"], xp, lazy).transpose(tuple(p["axes"]))
    raise ValueError("unknown op " + op)


def enc_value(v):
    v = np.asarray(v)
    data = []
    for x in v.ravel().tolist():
        if isinstance(x, float) and x != x:
            data.append("nan")
        elif isinstance(x, float) and x in (float("inf"), float("-inf")):
            data.append(str(x))
        else:
            data.append(x)
    return {"data": data, "shape": list(v.shape), "dtype": str(v.dtype)}


def dec_value(d):
    return np.array([float(x) if isinstance(x, str) else x for x in d["data"]], dtype=d["dtype"]).reshape(d["shape"])
