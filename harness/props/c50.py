"""C50 — block-wise text reading reproduces the file exactly.

Model:    lean/DaskModel/Model/TextBlocks.lean (read_bytes offset planning with exact double arithmetic,
          fsspec seek_delimiter/read_block, read_block_from_file, str.split, decode, file_to_blocks)
Theorems: lean/DaskModel/Props/C50.lean
Tie:      function level: offsets/lengths (real read_bytes on a size-only filesystem), int/int true division
          vs `round53`, fsspec seek_delimiter (small read sizes) and read_block on BytesIO, decode,
          file_to_blocks; API level: read_bytes and read_text on in-memory and real temp files.
"""
from __future__ import annotations

import io
import itertools
from fractions import Fraction

from sexp import Sym

from props import _bag_util as U

PROP = "C50"
READY = True
DRIVER = "dm_bag"
LEAN_MODULES = ["DaskModel.Props.C50"]
CASE_TIMEOUT_S = 20
LEVEL_TEXT = "set below"
LEVEL_NOTE = "set below"
TECHNIQUE = "Lean 4 proof (induction over the offset loop / the byte list) + differential correspondence with dask and fsspec"
ASSUMPTIONS = [
    "IEEE-754 binary64 round-to-nearest-even for int/int true division, float +, - (CPython floats); modelled exactly as fixed point in units of 2^-52 (file size < 2^971)",
    "file objects behave like a byte array with a position (seek/tell/read), as io.BytesIO and local files do",
    "the file is valid UTF-8 and read with encoding='utf-8' (self-synchronisation is PROVED for the Lean encoder `encode`, which is diffed against str.encode on every run); other encodings are validated only",
]
TRUSTED = ["fsspec.utils.seek_delimiter/read_block re-implemented in Lean and diffed against fsspec on every run",
           "CPython str.split / bytes.index / io.StringIO(newline=None) as reference semantics"]

SIG_BORDER = "read_text:self-overlapping-delimiter:lines-depend-on-blocksize"
SIG_WIDE = "read_text:utf-16/utf-32-encoding:blocksize:block-boundary-inside-a-code-unit"
WIDE = ("utf-16", "utf-16-le", "utf-16-be", "utf-32", "utf-32-le", "utf-32-be")


def _b(xs):
    return bytes(xs)


def _ok(lines):
    return [Sym("ok"), [list(x) for x in lines]]


# ----------------------------------------------------------------------------------------------
# function level
# ----------------------------------------------------------------------------------------------

def plan_oracle(size, offs, lens):
    """`offsets_cover`, evaluated on a concrete plan."""
    if size == 0:
        return None if (offs == [] and lens == []) else "empty file must have no blocks"
    if not offs or offs[0] != 0:
        return "offsets do not start at 0"
    if any(a >= b for a, b in zip(offs, offs[1:])):
        return "offsets not strictly increasing"
    if len(lens) != len(offs):
        return "len(lengths) != len(offsets)"
    if any(l <= 0 for l in lens):
        return "non-positive block length"
    if sum(lens) != size:
        return "lengths do not sum to the file size"
    if any(o + l != o2 for o, l, o2 in zip(offs, lens, offs[1:])):
        return "offset + length != next offset"
    return None


def case_plan(ctx, inp):
    size, bs = inp["size"], inp["bs"]
    try:
        offs, lens = U.real_plan(size, bs)
        impl = [Sym("ok"), offs, lens]
    except ZeroDivisionError:
        impl = [Sym("raised")]
    model = ctx.lean(Sym("plan"), size, bs)
    ctx.eq("read_bytes offsets/lengths", model, impl)
    if impl[0] == "ok":
        why = plan_oracle(size, impl[1], impl[2])
        if why:
            ctx.fail("read_bytes plan: " + why, observed=impl[1:])
        if size and bs and size % bs and size > bs:
            ctx.branch("float-blocksize")
            q = size // bs
            if [int(Fraction(j * size, q)) for j in range(len(offs))] != offs:
                ctx.branch("float-differs-from-rational")
        elif len(offs) > 1:
            ctx.branch("int-blocksize-multiblock")
    elif size and bs:
        ctx.fail("read_bytes raised for a positive blocksize", observed=impl)


def case_round53(ctx, inp):
    """CPython int/int true division (correctly rounded) and float addition vs the fixed-point model."""
    p, q = inp["p"], inp["q"]
    f = p / q                     # a double
    impl = int(Fraction(f) * 2 ** 52) if Fraction(f) * 2 ** 52 == int(Fraction(f) * 2 ** 52) else None
    model = ctx.lean(Sym("round53"), p * 2 ** 52, q)
    ctx.eq("int/int true division", model, impl)
    if (p * 2 ** 52) % q:
        ctx.branch("division-inexact")
    if "x" in inp:
        # float addition / subtraction of two doubles that are multiples of 2^-52
        x, y = Fraction(inp["x"], 2 ** 52), Fraction(inp["y"], 2 ** 52)
        fx, fy = float(x), float(y)
        if Fraction(fx) == x and Fraction(fy) == y:
            s = Fraction(fx + fy) * 2 ** 52
            ctx.eq("float addition", ctx.lean(Sym("round53"), inp["x"] + inp["y"], 1), int(s) if s == int(s) else None)
            if Fraction(fx + fy) != x + y:
                ctx.branch("addition-inexact")


def case_seek(ctx, inp):
    from fsspec.utils import seek_delimiter
    d, data, pos, bsz = inp["d"], inp["data"], inp["pos"], inp["bsz"]
    f = io.BytesIO(_b(data))
    f.seek(pos)
    found = seek_delimiter(f, _b(d), bsz)
    impl = [f.tell(), bool(found)]
    ctx.eq("seek_delimiter (chunked)", ctx.lean(Sym("seek"), bsz, d, data, pos), impl)
    if bsz >= len(d) or True:
        # the one-shot characterisation the theorems use must agree too
        ctx.eq("seek_delimiter (simple)", ctx.lean(Sym("seeksimple"), d, data, pos), impl)
    if found:
        ctx.branch("found")
        if bsz < len(data) - pos:
            ctx.branch("found-after-several-reads")
    elif pos:
        ctx.branch("eof-without-delimiter")


def case_readblock(ctx, inp):
    from fsspec.utils import read_block
    d, data, off, ln = inp["d"], inp["data"], inp["off"], inp["len"]
    impl = list(read_block(io.BytesIO(_b(data)), off, ln, _b(d) if d else None))
    ctx.eq("read_block", ctx.lean(Sym("readblock"), d, data, off, ln), impl)
    ctx.eq("read_block (chunked seek)", ctx.lean(Sym("readblockchunked"), 65536, d, data, off, ln), impl)
    if d and off and impl and off + (ln or 0) < len(data):
        ctx.branch("interior-block")
    if d and not impl:
        ctx.branch("empty-block")


def case_decode(ctx, inp):
    from dask.bag.text import decode
    text, delim = "".join(map(chr, inp["text"])), "".join(map(chr, inp["delim"]))
    impl = decode(text.encode("utf-8"), "utf-8", "strict", delim)
    ctx.eq("decode", ctx.lean(Sym("decode"), inp["delim"], inp["text"]), _ok([list(map(ord, x)) for x in impl]))
    ref = U.ref_lines(text, delim)
    if impl != ref:
        ctx.fail("decode differs from the text split after each delimiter", observed=impl, expected=ref)
    if text.endswith(delim):
        ctx.branch("ends-with-delimiter")
    if U.has_border(inp["delim"]):
        ctx.branch("bordered-delimiter")


class _Lazy:
    def __init__(self, text, path="P"):
        self.text, self.path = text, path

    def __enter__(self):
        return io.StringIO(self.text, newline="")

    def __exit__(self, *a):
        return False


def case_ftb(ctx, inp):
    from dask.bag.text import file_to_blocks
    text, delim = "".join(map(chr, inp["text"])), "".join(map(chr, inp["delim"]))
    impl = list(file_to_blocks(False, _Lazy(text), delimiter=delim))
    ctx.eq("file_to_blocks", ctx.lean(Sym("ftb"), inp["delim"], inp["text"]), _ok([list(map(ord, x)) for x in impl]))
    ref = U.ref_lines(text, delim)
    if impl != ref:
        ctx.fail("file_to_blocks differs from the text split after each delimiter (trailing element?)",
                 observed=impl, expected=ref)
    withp = list(file_to_blocks(True, _Lazy(text, "Q"), delimiter=delim))
    if withp != [(l, "Q") for l in impl]:
        ctx.fail("file_to_blocks(include_path=True) is not the lines paired with the path", observed=withp)
    if text.endswith(delim):
        ctx.branch("ends-with-delimiter")


# ----------------------------------------------------------------------------------------------
# API level
# ----------------------------------------------------------------------------------------------

def case_blocks(ctx, inp):
    """read_bytes(delimiter, blocksize): blocks concatenate to the file, boundaries just after a delimiter."""
    import dask
    from dask.bytes import read_bytes
    d, data, bs = inp["d"], inp["data"], inp["bs"]
    with U.files(inp.get("fs", "mem"), [data]) as paths:
        arg = f"{bs}B" if (bs is not None and inp.get("strbs")) else bs      # the string form of the same size
        _, out = read_bytes(paths[0], delimiter=_b(d) if d else None, blocksize=arg, sample=False)
        blocks = [list(b) for b in dask.compute(*out[0], scheduler="sync")]
    ctx.eq("read_bytes blocks", ctx.lean(Sym("fileblocks"), d, data, bs), _ok(blocks))
    flat = [x for b in blocks for x in b]
    if flat != data:
        ctx.fail("blocks of read_bytes do not concatenate to the file", observed=blocks)
    pos = 0
    for b in blocks[:-1]:
        pos += len(b)
        if d and 0 < pos < len(data) and data[pos - len(d):pos] != d:
            ctx.fail("a block boundary does not fall just after a delimiter", observed=[blocks, pos])
    if len(blocks) > 1:
        ctx.branch("multi-block")
        if d and bs is not None:
            offs, _ = U.real_plan(len(data), bs)
            occ = [p for p in range(len(data)) if data[p:p + len(d)] == d]
            if any(any(p < o < p + len(d) for p in occ) for o in offs):
                ctx.branch("offset-cuts-a-delimiter")
            if any(p + len(d) == o for p in occ for o in offs[1:]):
                ctx.branch("delimiter-ends-exactly-at-an-offset")
            if any(p == o for p in occ for o in offs[1:]):
                ctx.branch("delimiter-starts-exactly-at-an-offset")
        if any(not b for b in blocks):
            ctx.branch("empty-block")
    if d and U.has_border(d):
        ctx.branch("bordered-delimiter")


def case_blocksnz(ctx, inp):
    """read_bytes(..., not_zero=True): the blocks concatenate to the file WITHOUT its header (everything after the
    first delimiter that starts at or after byte 1)."""
    import dask
    from dask.bytes import read_bytes
    d, data, bs = inp["d"], inp["data"], inp["bs"]
    with U.files(inp.get("fs", "mem"), [data]) as paths:
        _, out = read_bytes(paths[0], delimiter=_b(d), blocksize=bs, sample=False, not_zero=True)
        blocks = [list(b) for b in dask.compute(*out[0], scheduler="sync")]
    ctx.eq("read_bytes(not_zero=True) blocks", ctx.lean(Sym("fileblocksnz"), d, data, bs), _ok(blocks))
    idx = _b(data).find(_b(d), 1)
    want = data[idx + len(d):] if idx >= 0 else []
    if [x for b in blocks for x in b] != want:
        ctx.fail("read_bytes(not_zero=True): blocks do not concatenate to the file minus its header", observed=blocks,
                 expected=want)
    if idx >= 0 and want:
        ctx.branch("not_zero:header-dropped")
    if idx < 0:
        ctx.branch("not_zero:no-delimiter-everything-dropped")
    if blocks and not blocks[0] and want:
        ctx.branch("not_zero:empty-first-block")


def case_sample(ctx, inp):
    """read_bytes(..., sample=n): the header sample is a prefix of the file that is the whole file or ends with the
    delimiter; include_path returns one path per file, aligned with the blocks."""
    import dask
    from dask.bytes import read_bytes
    d, files, n = inp["d"], inp["files"], inp["n"]
    with U.files(inp.get("fs", "mem"), files) as paths:
        sample, out, rpaths = read_bytes(paths, delimiter=_b(d) if d else None, blocksize=inp.get("bs"),
                                         sample=f"{n} B" if inp.get("strn") else n, include_path=True)
        blocks = [[list(b) for b in dask.compute(*o, scheduler="sync")] for o in out]
        stripped = [p.split("://", 1)[-1].lstrip("/") for p in paths]
    data = files[0]
    if d:
        ctx.eq("read_bytes sample", ctx.lean(Sym("sample"), n, d, data), list(sample))
        if not (list(sample) == data or list(sample[-len(d):]) == d):
            ctx.fail("read_bytes sample is neither the whole file nor ends with the delimiter", observed=list(sample))
        if list(sample) != data and len(sample) > n:
            ctx.branch("sample:extended-to-next-delimiter")
    elif list(sample) != data[:n]:
        ctx.fail("read_bytes sample without delimiter is not the first n bytes", observed=list(sample))
    if data[:len(sample)] != list(sample):
        ctx.fail("read_bytes sample is not a prefix of the first file", observed=list(sample))
    if len(sample) < min(n, len(data)):
        ctx.fail("read_bytes sample is shorter than requested although the file has more bytes", observed=list(sample))
    if [p.lstrip("/") for p in rpaths] != stripped or len(blocks) != len(files):
        ctx.fail("read_bytes(include_path=True): paths are not the files in order", observed=list(rpaths), expected=stripped)
    for f, bl in zip(files, blocks):
        if [x for b in bl for x in b] != f:
            ctx.fail("read_bytes(include_path=True): blocks of a file do not concatenate to that file", observed=bl, expected=f)
    if len(files) > 1:
        ctx.branch("sample:several-files")
    ctx.branch("sample")


def case_encode(ctx, inp):
    """The Lean UTF-8 encoder (`encode`, used by utf8_split_commutes / read_text_utf8) vs str.encode."""
    cps = inp["cps"]
    ctx.eq("str.encode('utf-8')", ctx.lean(Sym("encode"), cps), list("".join(map(chr, cps)).encode("utf-8")))
    d = inp.get("delim")
    if d:
        text, delim = "".join(map(chr, cps)), "".join(map(chr, d))
        if [list(p.encode()) for p in text.split(delim)] != [list(p) for p in text.encode().split(delim.encode())]:
            ctx.fail("splitting the UTF-8 bytes at the encoded delimiter differs from splitting the text", observed=[cps, d])
        model = ctx.lean(Sym("pysplit"), list(delim.encode()), list(text.encode()))
        ctx.eq("bytes.split at the encoded delimiter", model, _ok([list(p.encode()) for p in text.split(delim)]))
    if any(c > 0xFFFF for c in cps):
        ctx.branch("encode:4-byte")
    if any(0x7FF < c <= 0xFFFF for c in cps):
        ctx.branch("encode:3-byte")
    if any(0x7F < c <= 0x7FF for c in cps):
        ctx.branch("encode:2-byte")


def case_encoding(ctx, inp):
    """read_text(encoding=…): ASCII-transparent encodings (latin-1, cp1252, utf-8-sig, ascii) must give the same
    lines for every blocksize; fixed-width multi-byte encodings (utf-16/32) cannot (known finding)."""
    from dask.bag.text import read_text
    enc, text, delim = inp["enc"], inp["text"], inp["delim"]
    data = list(text.encode(enc))
    ref = U.ref_univ(text) if delim is None else U.ref_lines(text, delim)
    with U.files(inp.get("fs", "mem"), [data]) as paths:
        for bs in [None] + list(inp["bss"]):
            try:
                lines = list(read_text(paths[0], encoding=enc, blocksize=bs, linedelimiter=delim).compute(scheduler="sync"))
            except UnicodeDecodeError as e:
                if enc in WIDE and bs is not None:
                    ctx.fail("read_text with a utf-16/utf-32 file and a blocksize raises UnicodeDecodeError (blocks are cut "
                             "after the first byte of the delimiter's code unit)", sig=SIG_WIDE, observed=[enc, bs, str(e)[:80]], expected=ref)
                    ctx.branch("encoding:wide+blocksize")
                    continue
                ctx.fail(f"read_text(encoding={enc}) raised UnicodeDecodeError", observed=[bs, str(e)[:120]])
                continue
            except Exception as e:
                ctx.fail(f"read_text(encoding={enc}) raised {type(e).__name__}: {e}", observed=[bs])
                continue
            if lines != ref:
                if enc in WIDE and bs is not None:
                    ctx.fail("read_text with a utf-16/utf-32 file and a blocksize returns other lines than blocksize=None",
                             sig=SIG_WIDE, observed=[enc, bs, lines], expected=ref)
                    ctx.branch("encoding:wide+blocksize")
                else:
                    ctx.fail(f"read_text(encoding={enc}): lines differ from the decoded file split after each delimiter",
                             observed=[bs, lines], expected=ref)
    ctx.branch("encoding:" + enc)
    if any(ord(c) > 127 for c in text):
        ctx.branch("encoding:non-ascii-content")
    if delim and any(ord(c) > 127 for c in delim):
        ctx.branch("encoding:non-ascii-delimiter")


def _keys_of(collection):
    """all keys of the graph of a dask collection / a list of delayed values"""
    import dask
    from dask.base import collections_to_expr
    out = set()
    for c in (collection if isinstance(collection, (list, tuple)) else [collection]):
        out |= set(dict(c.__dask_graph__()))
    return out


def case_joint(ctx, inp):
    """Several readings of the SAME unchanged file(s) with different parameters (blocksize, delimiter,
    files_per_partition, include_path) evaluated in ONE graph (dask.compute of all, db.concat): every reading must
    give what it gives on its own — and what the file says. Readings with different parameters must not share a key
    for tasks that do different things (a shared key makes the graph merge keep one task for both)."""
    import dask
    import dask.bag as db
    from dask.bag.text import read_text
    from dask.bytes import read_bytes
    files, d = inp["files"], inp["delim"]
    delim = _b(d).decode("utf-8")
    texts = [_b(f).decode("utf-8") for f in files]
    with U.files(inp.get("fs", "mem"), files) as paths:
        # ---- read_bytes: the same first file at several blocksizes ----
        rb = []
        for bs in inp["bss"]:
            _, out = read_bytes(paths[0], delimiter=_b(d), blocksize=bs, sample=False)
            rb.append(out[0])
        solo = [[bytes(x) for x in dask.compute(*o, scheduler="sync")] for o in rb]
        flat = [x for o in rb for x in o]
        together = [bytes(x) for x in dask.compute(*flat, scheduler="sync")]
        pos = 0
        for bs, o, s_ in zip(inp["bss"], rb, solo):
            got = together[pos:pos + len(o)]
            pos += len(o)
            if b"".join(s_) != _b(files[0]):
                ctx.fail("read_bytes blocks (computed alone) do not concatenate to the file", observed=[bs, [list(x) for x in s_]])
            if got != s_:
                ctx.fail("read_bytes: the blocks of one reading change when another reading of the same file with a different "
                         "blocksize is computed in the same graph", observed=[bs, [list(x) for x in got]], expected=[list(x) for x in s_])
        # tasks with the same key must produce the same block (the graph merge keeps one task per key)
        seen = {}
        for bs, o, s_ in zip(inp["bss"], rb, solo):
            for blk, content in zip(o, s_):
                prev = seen.setdefault(blk.key, (bs, content))
                if prev[1] != content:
                    ctx.fail("read_bytes: two readings of the same file give DIFFERENT blocks the same key",
                             observed=[blk.key, [prev[0], list(prev[1])], [bs, list(content)]])
                    ctx.branch("joint:key-collision")
                elif prev[0] != bs:
                    ctx.branch("joint:shared-key-same-block")
        # ---- read_text: the same files with different parameters ----
        variants = []
        for bs in inp["bss"]:
            variants.append(("blocksize=%r" % (bs,), dict(blocksize=bs)))
        if len(files) > 1:
            variants.append(("files_per_partition=2", dict(files_per_partition=2)))
        variants.append(("include_path", dict(include_path=True, blocksize=inp["bss"][0])))
        bags = [read_text(paths, encoding="utf-8", linedelimiter=delim, **kw) for _, kw in variants]
        solo = [list(b.compute(scheduler="sync")) for b in bags]
        joint = [list(x) for x in dask.compute(*bags, scheduler="sync")]
        want = [l for t in texts for l in U.ref_lines(t, delim)]
        bordered = U.has_border(d)
        for (name, kw), s_, j_ in zip(variants, solo, joint):
            lines = [x[0] if kw.get("include_path") else x for x in s_]
            if lines != want and not (bordered and "".join(lines) == "".join(texts)):
                ctx.fail("read_text (computed alone) differs from the files split after each delimiter", observed=[name, lines], expected=want)
            if j_ != s_:
                ctx.fail("read_text: a reading changes when other readings of the same files (different blocksize / "
                         "files_per_partition / include_path) are computed in the same graph", observed=[name, j_], expected=s_)
        plain = [b for (name, kw), b in zip(variants, bags) if not kw.get("include_path")]
        cat = list(db.concat(plain).compute(scheduler="sync"))
        want_cat = [x for (name, kw), s_ in zip(variants, solo) if not kw.get("include_path") for x in s_]
        if cat != want_cat:
            ctx.fail("db.concat of readings of the same files with different parameters is not the concatenation of the readings",
                     observed=cat, expected=want_cat)
    if len(set(inp["bss"])) > 1:
        ctx.branch("joint:different-blocksizes")
    if len(files) > 1:
        ctx.branch("joint:several-files")
    ctx.branch("joint")


def _read_text(paths, **kw):
    from dask.bag.text import read_text
    return list(read_text(paths, encoding="utf-8", **kw).compute(scheduler="sync"))


def case_readtext(ctx, inp):
    """read_text: same lines for every blocksize (including None) = the file split after each delimiter."""
    data, d = inp["data"], inp["delim"]          # bytes (utf-8); d = None: default (universal newlines)
    text = _b(data).decode("utf-8")
    delim = None if d is None else _b(d).decode("utf-8")
    ref = U.ref_univ(text) if d is None else U.ref_lines(text, delim)
    bordered = d is not None and U.has_border(d)
    results = {}
    with U.files(inp.get("fs", "mem"), [data]) as paths:
        for bs in [None] + list(inp["bss"]):
            try:
                # every other integer blocksize is also given in its string form ("7B")
                arg = f"{bs}B" if (bs is not None and inp.get("strbs") and bs % 2) else bs
                results[bs] = _read_text(paths[0], blocksize=arg, linedelimiter=delim)
            except Exception as e:  # the statement allows no exception for any content / blocksize
                ctx.fail(f"read_text raised {type(e).__name__}: {e}", observed=[bs])
                return
    for bs, lines in results.items():
        enc = [list(x.encode("utf-8")) for x in lines]
        if d is None:
            model = ctx.lean(Sym("readtextuniv"), data, bs)
        else:
            model = ctx.lean(Sym("readtext"), d, data, bs)
        ctx.eq(f"read_text lines (blocksize={bs})", model, _ok(enc))
        if lines != ref:
            if bordered and bs is not None and "".join(lines) == text and results[None] == ref:
                ctx.fail("read_text lines depend on the blocksize for a self-overlapping delimiter",
                         sig=SIG_BORDER, observed=[bs, lines], expected=ref)
            else:
                ctx.fail("read_text lines differ from the file split after each delimiter",
                         observed=[bs, lines], expected=ref)
    if len(set(map(tuple, results.values()))) == 1 and len(ref) > 1:
        ctx.branch("several-lines-all-blocksizes-agree")
    if not data:
        ctx.branch("empty-file")
    elif d is not None and _b(data).endswith(_b(d)):
        ctx.branch("trailing-delimiter")
    if bordered:
        ctx.branch("bordered-delimiter")
    if any(x > 127 for x in data):
        ctx.branch("unicode")
    if d is None and 13 in data:
        ctx.branch("carriage-returns")
    if d is not None and d not in ([10], [13], [13, 10]) and (13 in data or 10 in data):
        ctx.branch("custom-delimiter-with-cr-or-lf-in-content")
        if 13 in d:
            ctx.branch("custom-delimiter-containing-cr")


def case_multifile(ctx, inp):
    """Several files, files_per_partition / include_path / blocksize: lines are the per-file lines in order."""
    from dask.bag.text import read_text
    files, d = inp["files"], inp["delim"]
    delim = _b(d).decode("utf-8")
    texts = [_b(f).decode("utf-8") for f in files]
    with U.files(inp.get("fs", "mem"), files) as paths:
        kw = {}
        if inp.get("fpp"):
            kw["files_per_partition"] = inp["fpp"]
        if inp.get("bs"):
            kw["blocksize"] = inp["bs"]
        b = read_text(paths, encoding="utf-8", linedelimiter=delim, include_path=inp["include_path"], **kw)
        got_parts = [list(p) for p in b.map_partitions(lambda p: [list(p)]).compute(scheduler="sync")]
        got = [x for p in got_parts for x in p]
        nparts = b.npartitions
        stripped = [p.split("://", 1)[-1] for p in paths]
    want = []
    for t, p in zip(texts, stripped):
        ls = U.ref_lines(t, delim)
        want += [(l, p) for l in ls] if inp["include_path"] else ls
    if inp["include_path"]:
        got = [(l, "/" + p.lstrip("/") if inp.get("fs", "mem") == "mem" else p) for l, p in got]
        want = [(l, "/" + p.lstrip("/") if inp.get("fs", "mem") == "mem" else p) for l, p in want]
    bordered = U.has_border(d)
    if got != want:
        if bordered and inp.get("bs") and "".join(x[0] if inp["include_path"] else x for x in got) == "".join(texts):
            ctx.fail("read_text lines depend on the blocksize for a self-overlapping delimiter", sig=SIG_BORDER,
                     observed=got, expected=want)
        else:
            ctx.fail("read_text over several files is not the concatenation of the per-file lines",
                     observed=got, expected=want)
    # partition structure (files_per_partition groups / one partition per block) vs the Lean model
    mparts = ctx.lean(Sym("readtextfiles"), d, files, inp.get("fpp"), inp.get("bs"))
    if inp["include_path"]:
        idx = {p: i for i, p in enumerate(stripped)}
        idx.update({"/" + p.lstrip("/"): i for i, p in enumerate(stripped)})
        real_parts = [[[idx[pp], list(l.encode("utf-8"))] for l, pp in part] for part in got_parts]
        ctx.eq("read_text partitions (include_path)", mparts, _ok(real_parts))
    else:
        ctx.eq("read_text partitions", [[il[1] for il in part] for part in mparts[1]],
               [[list(l.encode("utf-8")) for l in part] for part in got_parts])
    models = [ctx.lean(Sym("readtext"), d, f, inp.get("bs")) for f in files]
    flat = [l for m in models for l in m[1]]
    ctx.eq("multi-file read_text lines", flat, [list((x[0] if inp["include_path"] else x).encode("utf-8")) for x in got])
    if inp.get("fpp"):
        ctx.eq("files_per_partition npartitions", -(-len(files) // inp["fpp"]), nparts)
        ctx.branch("files_per_partition")
    if inp["include_path"]:
        ctx.branch("include_path")
    if any(not f for f in files):
        ctx.branch("an-empty-file")
    if any(13 in f or 10 in f for f in files) and d not in ([10], [13], [13, 10]):
        ctx.branch("custom-delimiter-with-cr-or-lf-in-content")


def case_gzip(ctx, inp):
    """Compressed files can only be read with blocksize=None: the lines are the split of the DECOMPRESSED
    content; asking for a blocksize must be refused (ValueError), never silently cut compressed bytes."""
    import gzip
    import fsspec
    from dask.bag.text import read_text
    data, d = inp["data"], inp["delim"]
    text = _b(data).decode("utf-8")
    delim = None if d is None else _b(d).decode("utf-8")
    ref = U.ref_univ(text) if d is None else U.ref_lines(text, delim)
    m = fsspec.filesystem("memory")
    U._COUNTER[0] += 1
    path = f"/verif_bag_gz_{U._COUNTER[0]}/f.txt.gz"
    try:
        m.pipe(path, gzip.compress(_b(data)))
        got = list(read_text("memory:/" + path, encoding="utf-8", linedelimiter=delim).compute(scheduler="sync"))
        if got != ref:
            ctx.fail("read_text of a gzip file differs from the split of the decompressed content", observed=got, expected=ref)
        try:
            r = list(read_text("memory:/" + path, encoding="utf-8", linedelimiter=delim, blocksize=3).compute(scheduler="sync"))
            ctx.fail("read_text(blocksize=3) on a gzip file did not raise", observed=r)
        except ValueError:
            ctx.branch("gzip-blocksize-refused")
    finally:
        try:
            m.rm(path.rsplit("/", 1)[0], recursive=True)
        except Exception:
            pass
    ctx.branch("gzip")


CASES = {"joint": case_joint, "blocksnz": case_blocksnz, "sample": case_sample, "encode": case_encode, "encoding": case_encoding,
         "gzip": case_gzip, "plan": case_plan, "round53": case_round53, "seek": case_seek, "readblock": case_readblock,
         "decode": case_decode, "ftb": case_ftb, "blocks": case_blocks, "readtext": case_readtext,
         "multifile": case_multifile}

# ----------------------------------------------------------------------------------------------
# generators
# ----------------------------------------------------------------------------------------------

DELIMS = [b"\n", b"|", b"||", b"ab", b"\r\n", b"abc", b"a\n", "é".encode(), "€|".encode(),
          b"aa", b"aba", b"abab", "€€".encode(), b"|||", b"\r", b"\r|", b"|\r\n", b";\r", b"\n\r"]


def gen_data(rng, d, maxlen=40):
    """Delimiter-dense bytes: pieces are the delimiter, prefixes/suffixes of it, and a few letters."""
    d = bytes(d)
    pieces = [d, d, d[:1], d[-1:], b"a", b"b", b"x"]
    if len(d) > 1:
        pieces += [d[:-1], d[1:]]
    try:
        d.decode("utf-8")
        uni = any(c > 127 for c in d)
    except UnicodeDecodeError:
        uni = True
    if rng.random() < 0.5:
        # carriage returns / newlines inside the content: no path may translate them
        pieces += [b"\r", b"\n", b"\r\n", b"\r", b"\n\r"]
    if uni or rng.random() < 0.15:
        pieces = [p for p in pieces if _valid_utf8(p)] + ["é".encode(), "€".encode(), "\U0001d11e".encode()]
    out = b""
    n = rng.choice([0, 1, 2, 3, 5, 8, 13, maxlen])
    for _ in range(rng.randint(0, n)):
        out += rng.choice(pieces)
    r = rng.random()
    if r < 0.25 and out:
        out += d
    return list(out)


def _valid_utf8(b):
    try:
        b.decode("utf-8")
        return True
    except UnicodeDecodeError:
        return False


def gen_blocksizes(rng, n, k=3):
    cands = [1, 2, 3, max(1, n - 1), n, n + 1, max(1, n // 2), max(1, n // 3), 2 * n + 1]
    return sorted({rng.choice(cands) if rng.random() < 0.6 else rng.randint(1, max(1, n + 2)) for _ in range(k)})


def generate(ctx):
    rng = ctx.rng
    th = ctx.thorough()
    # API level first: if the machine is loaded and the deadline cuts the run, these have run
    # ---- exhaustive small blocks space -------------------------------------------------------------
    ln_max = 7 if th else 5
    for d in ([97], [97, 98], [97, 97], [97, 98, 97]):
        for ln in range(0, ln_max + 1):
            for tup in itertools.product([97, 98], repeat=ln):
                for bs in range(1, ln + 2):
                    if th or rng.random() < 0.12:
                        yield "blocks", {"d": d, "data": list(tup), "bs": bs}
    for _ in range(ctx.n(150, 2500)):
        d = list(rng.choice(DELIMS)) if rng.random() < 0.92 else []
        data = gen_data(rng, d or b"\n")
        bs = rng.choice(gen_blocksizes(rng, len(data))) if rng.random() < 0.93 else None
        yield "blocks", {"d": d, "data": data, "bs": bs, "fs": "tmp" if rng.random() < 0.2 else "mem",
                         "strbs": rng.random() < 0.3}
    # ---- several readings of the same file in one graph ---------------------------------------------
    yield "joint", {"files": [list(b"ab|cd|ef|gh|")], "delim": [124], "bss": [None, 3, 5]}
    for _ in range(ctx.n(70, 1000)):
        d = list(rng.choice([x for x in DELIMS if not U.has_border(list(x))]))
        files = []
        for _ in range(rng.choice([1, 1, 2, 3])):
            f = gen_data(rng, d, 24)
            files.append(f if _valid_utf8(bytes(f)) else list(d))
        if not files[0]:
            files[0] = list(d) + [120] + list(d)
        n0 = len(files[0])
        bss = rng.sample([None, 1, 2, 3, max(1, n0 // 2), max(1, n0 // 3), n0, n0 + 3], rng.choice([2, 3]))
        yield "joint", {"files": files, "delim": d, "bss": bss, "fs": "tmp" if rng.random() < 0.1 else "mem"}
    # ---- delimiters placed exactly at / across the planned offsets ------------------------------------
    for _ in range(ctx.n(60, 900)):
        d = list(rng.choice(DELIMS[:8] + [b"\r\n", b"|||"]))
        size = rng.randint(len(d) + 2, 40)
        bs = rng.randint(1, max(1, size // 2))
        offs, _ = U.real_plan(size, bs)
        data = [rng.choice([97, 98, 120]) for _ in range(size)]
        for o in offs[1:]:
            mode = rng.choice(["ends", "starts", "straddles", "none", "ends"])
            p = {"ends": o - len(d), "starts": o, "straddles": o - rng.randint(0, len(d)), "none": None}[mode]
            if p is not None and 0 <= p and p + len(d) <= size:
                data[p:p + len(d)] = d
        yield "blocks", {"d": d, "data": data, "bs": bs}
    # ---- not_zero, sample, include_path ---------------------------------------------------------------
    yield "blocksnz", {"d": [10], "data": list(b"h\na\nb\nc"), "bs": 2}
    for _ in range(ctx.n(80, 1200)):
        d = list(rng.choice(DELIMS))
        data = gen_data(rng, d, 30) or list(d)
        yield "blocksnz", {"d": d, "data": data, "bs": rng.choice(gen_blocksizes(rng, len(data))),
                           "fs": "tmp" if rng.random() < 0.1 else "mem"}
    for _ in range(ctx.n(80, 1200)):
        d = list(rng.choice(DELIMS)) if rng.random() < 0.85 else []
        files = [gen_data(rng, d or b"\n", 30) for _ in range(rng.choice([1, 1, 2, 3]))]
        if not files[0]:
            files[0] = list(d or b"x")
        yield "sample", {"d": d, "files": files, "n": rng.choice([1, 2, 3, 5, 8, 100]),
                         "bs": rng.choice([None, None, 3, 7]), "strn": rng.random() < 0.2}
    # ---- encodings ------------------------------------------------------------------------------------
    yield "encoding", {"enc": "utf-16", "text": "a\nb\nc", "delim": None, "bss": [3]}
    for _ in range(ctx.n(40, 600)):
        enc = rng.choice(["latin-1", "cp1252", "utf-8-sig", "ascii", "latin-1", "utf-8"] + (list(WIDE) if rng.random() < 0.12 else []))
        alpha = "ab\nxy|;" + ("" if enc == "ascii" else "é\xfc\xa3") + ("€" if enc in ("cp1252", "utf-8-sig", "utf-8") + WIDE else "")
        delim = rng.choice([None, "\n", "|", ";", "||", "ab"] + ([] if enc == "ascii" else ["é", "é|"]))
        text = "".join(rng.choice(alpha) if rng.random() < 0.7 else (delim or "\n") for _ in range(rng.randint(0, 25)))
        if delim and U.has_border(list(delim)):
            continue
        if delim is None:
            text = text.replace("\r", "")
        yield "encoding", {"enc": enc, "text": text, "delim": delim, "bss": gen_blocksizes(rng, len(text.encode(enc)), 2)}
    for cps in ([0x7F, 0x80, 0x7FF, 0x800, 0xFFFF, 0x10000, 0x10FFFF], [0xD7FF, 0xE000, 0], []):
        yield "encode", {"cps": cps}
    for _ in range(ctx.n(150, 2000)):
        pool = [97, 98, 10, 0xE9, 0x20AC, 0x1D11E, 0x7FF, 0x800, 0xFFFF, 0x10000, rng.randint(0, 0xD7FF), rng.randint(0xE000, 0x10FFFF)]
        dl = [rng.choice(pool) for _ in range(rng.randint(1, 3))]
        cps = []
        for _ in range(rng.randint(0, 14)):
            cps += dl if rng.random() < 0.3 else [rng.choice(pool)]
        yield "encode", {"cps": cps, "delim": dl}
    # ---- read_text --------------------------------------------------------------------------------
    yield "readtext", {"data": [97, 124, 124, 98, 124, 124], "delim": [124, 124], "bss": [1, 2, 3]}
    yield "readtext", {"data": [], "delim": [10], "bss": [1, 2]}
    yield "readtext", {"data": [], "delim": None, "bss": [3]}
    yield "readtext", {"data": list(b"a\r\nb||c\rd||e\nf"), "delim": [124, 124], "bss": [2, 5]}
    yield "readtext", {"data": list(b"a\r\nb\r|c\rd\r|\n"), "delim": [13, 124], "bss": [1, 4], "fs": "tmp"}
    for ip in (False, True):
        yield "multifile", {"files": [list(b"a\r\nb||c\rd"), list(b"\r||\n")], "delim": [124, 124],
                            "include_path": ip, "fpp": 2, "bs": None}
        yield "multifile", {"files": [list(b"x\ry;\r\n\r"), list(b"\r\n;\rz")], "delim": [59, 13],
                            "include_path": ip, "fpp": None, "bs": None, "fs": "tmp"}
    for _ in range(ctx.n(130, 2000)):
        r = rng.random()
        if r < 0.2:
            d = None
            data = [rng.choice([97, 98, 10, 10, 13]) for _ in range(rng.randint(0, 25))]
        else:
            d = list(rng.choice(DELIMS))
            data = gen_data(rng, d)
            if not _valid_utf8(bytes(data)):
                continue
        yield "readtext", {"data": data, "delim": d, "bss": gen_blocksizes(rng, len(data)),
                           "fs": "tmp" if rng.random() < 0.25 else "mem", "strbs": rng.random() < 0.3}
    for _ in range(ctx.n(12, 150)):
        d = rng.choice([None, list(rng.choice(DELIMS))])
        data = gen_data(rng, d or b"\n")
        if _valid_utf8(bytes(data)):
            yield "gzip", {"data": data, "delim": d}
    for _ in range(ctx.n(50, 700)):
        d = list(rng.choice(DELIMS))
        files = []
        for _ in range(rng.randint(1, 5)):
            f = gen_data(rng, d, 13)
            files.append(f if _valid_utf8(bytes(f)) else [])
        mode = rng.choice(["fpp", "bs", "none"])
        yield "multifile", {"files": files, "delim": d, "include_path": rng.random() < 0.5,
                            "fpp": rng.randint(1, 4) if mode == "fpp" else None,
                            "bs": rng.randint(1, 9) if mode == "bs" else None,
                            "fs": "tmp" if rng.random() < 0.2 else "mem"}
    # ---- offsets/lengths: exhaustive small space + large sizes -------------------------------
    yield "plan", {"size": 0, "bs": 0}
    yield "plan", {"size": 5, "bs": 0}
    yield "plan", {"size": 0, "bs": 7}
    smax, bmax = (400, 80) if th else (90, 30)
    for size in range(1, smax + 1):
        for bs in range(1, bmax + 1):
            yield "plan", {"size": size, "bs": bs}
    for _ in range(ctx.n(400, 6000)):
        e = rng.choice([10, 14, 20, 31, 40, 52, 53, 60])
        size = rng.randint(1, 2 ** e)
        nblocks = rng.randint(1, 300)
        bs = max(1, size // nblocks + rng.choice([-1, 0, 0, 1, 2, rng.randint(0, 50)]))
        if size // bs > 600:
            bs = size // 600 + 1
        yield "plan", {"size": size, "bs": bs}
    # ---- the rounding primitive ---------------------------------------------------------------
    for _ in range(ctx.n(400, 4000)):
        q = rng.randint(1, 2 ** rng.choice([3, 10, 30, 55]))
        p = q * rng.randint(1, 2 ** rng.choice([1, 8, 30])) + rng.randint(0, q - 1)
        inp = {"p": p, "q": q}
        if rng.random() < 0.7:
            ex = rng.choice([52, 53, 54, 60, 80])
            inp["x"] = rng.randint(2 ** 52, 2 ** ex) if rng.random() < 0.5 else (rng.randint(2 ** 52, 2 ** 53) << rng.randint(0, 12))
            inp["y"] = rng.randint(2 ** 52, 2 ** 53) << rng.randint(0, 3)
        yield "round53", inp
    # ---- seek_delimiter / read_block ------------------------------------------------------------
    for _ in range(ctx.n(700, 8000)):
        d = list(rng.choice(DELIMS))
        data = gen_data(rng, d, 30)
        pos = rng.randint(0, len(data) + 1)
        yield "seek", {"d": d, "data": data, "pos": pos, "bsz": rng.choice([1, 2, 3, 4, 5, 7, 64])}
    for _ in range(ctx.n(700, 8000)):
        d = list(rng.choice(DELIMS)) if rng.random() < 0.9 else []
        data = gen_data(rng, d or b"\n", 30)
        off = rng.randint(0, len(data))
        ln = rng.choice([None, 0, 1, 2]) if rng.random() < 0.3 else rng.randint(0, len(data) - off + 1)
        if ln is None and not d:
            ln = 1
        yield "readblock", {"d": d, "data": data, "off": off, "len": ln}
    # ---- decode / file_to_blocks -----------------------------------------------------------------
    for sec in ("decode", "ftb"):
        yield sec, {"text": [97, 97, 97], "delim": [97, 97]}
        yield sec, {"text": [97, 124, 124, 98, 124, 124], "delim": [124, 124]}
        yield sec, {"text": [], "delim": [124]}
        for _ in range(ctx.n(300, 4000)):
            d = rng.choice(DELIMS)
            data = gen_data(rng, d, 20)
            try:
                t = bytes(data).decode("utf-8")
            except UnicodeDecodeError:
                continue
            yield sec, {"text": [ord(c) for c in t], "delim": [ord(c) for c in d.decode("utf-8")]}


LEVEL_TEXT = (
    "Lean theorems over a transliteration of read_bytes' offset loop with IEEE double arithmetic modelled exactly (offsets_cover; "
    "the arithmetic assumptions are themselves proved for the model: ieee_good), fsspec seek_delimiter/read_block, str.split, decode, "
    "file_to_blocks: blocks_concat_file, boundary_after_delimiter, lines_blocksize_independent (all blocksizes incl. none, for "
    "border-free delimiters; refuted with a witness for self-overlapping ones = known finding), decode = split-after-delimiter without "
    "empty trailing element, universal-newline default, files_per_partition/include_path, fsspec's chunked read loop = one-shot search. "
    "UTF-8 self-synchronisation is PROVED (utf8_split_commutes, read_text_utf8: the byte lines computed block-wise are the encodings "
    "of the text-level reference lines; borderFree_encode); not_zero (blocks_not_zero) and the header sample (sample_prefix, sample_ends). "
    "Validated only: other encodings (ASCII-transparent ones pass; utf-16/32 with a blocksize = known finding), compression. File sizes < 2^53.")
LEVEL_NOTE = (
    "Trusted: Lean kernel + standard axioms; the correspondence harness (function-level diffs against dask and fsspec, "
    "API-level read_bytes/read_text on in-memory and temp files); CPython float/str semantics (str.split, str.encode, StringIO); "
    "compression, encodings other than UTF-8 (validated at API level: ASCII-transparent ones pass, utf-16/32 with a blocksize is a known "
    "finding) and remote filesystems are not modelled.")
