"""C17 — configuration changes are scoped, atomic and spelling-insensitive.

Model:    lean/DaskModel/Model/Config.lean (dask/config.py: canonical_name, set.__init__/_assign/__exit__, get,
          update, merge, collect_env, check_deprecations over the extracted table)
Theorems: lean/DaskModel/Props/C17.lean
Tie:      function level — real `dask.config.set(arg, config=<fresh dict>, **kwargs)` (config after the call, the
          `_record` list, the exception), `__exit__`, `get`, `update`, `merge`, `collect_env` against the model on the
          same inputs, compared in an order-preserving encoding;
          API level — programs of nested/sequenced real `with dask.config.set(...)` blocks (trace of the configuration
          seen by every body, final configuration, propagating exception) against `exec`;
          property oracles on the real outputs (exact restoration incl. key order, atomicity of a raising call,
          get under either spelling, precedence of update/merge, collect_env naming, serialize round trip).
The global `dask.config.config` is never touched: every call passes `config=`.
"""
from __future__ import annotations

import ast
import re

from sexp import Sym

from props._stores_util import (Interner, SEGMENTS, deep, from_json_cfg, gen_cfg, gen_key, gen_leaf_plain,
                                gen_value, ordered)

PROP = "C17"
READY = True
DRIVER = "dm_stores"
LEAN_MODULES = ["DaskModel.Props.C17", "DaskModel.Props.C17b", "DaskModel.Props.C17c", "DaskModel.Props.C17x"]
TABLES = ["ConfigTables"]
CASE_TIMEOUT_S = 10
LEVEL_TEXT = (
    "PROVED for all inputs (Lean 4, over a transliteration of dask/config.py with insertion-ordered dictionaries): "
    "exit_restores (every successful set(...) — any keys, duplicate/both spellings, paths descending into values set "
    "earlier in the call — is undone exactly, key order included, and __exit__ never raises); set_failure_atomic + "
    "set_rollback_never_raises (a raising set call leaves the configuration exactly unchanged; true only after fix: "
    "61ccdd1 — the pre-fix code is kept as setInitNoRollback with the refutation "
    "set_failure_not_atomic_without_rollback); nested_exit_restores / nested_never_stuck (induction over arbitrary "
    "programs of nested and sequenced with-blocks, including raising inner calls unwinding outer blocks); "
    "get_after_assign, get_either_spelling(_path) (any depth, every segment independently respelled; hypotheses = "
    "exactly what the code needs: no mapping on the path already holds both spellings, altName involutive on the "
    "segment — proved for every name that does not mix '-' and '_'; a witness shows 'a_b-c' is not symmetric). "
    "Precedence: update_new_last_wins / merge_last_wins (last scalar item wins), update_new_nested_wins / "
    "merge_last_nested_wins (priority 'new' and merge, ANY DEPTH: every scalar of new / of the last dictionary is what "
    "get returns, for clean key sets), update_old_keeps_old (priority 'old', scalar new values, top level) and "
    "update_old_nested_keeps (priority 'old', ANY DEPTH: a scalar of old stays unless new holds a mapping exactly "
    "where its path ends — a mapping replaces a scalar under every priority), "
    "updateGo_frame (update writes only under the canonical names of new's keys), collect_env_single / "
    "collect_env_ignores_foreign. Aliasing (Props/C17b over Model/ConfigAlias, where every mapping carries the "
    "identity of its dict object): update_refines_value_model / merge_refines_value_model (identities forgotten, the "
    "identity model IS the value model), update_keeps_or_creates / update_never_shares / merge_result_fresh (every "
    "dict object of a result is an object of the target or new — never one of `new`), hstep_sound / hrun_sound "
    "(any history of merge / update / set / update_defaults / refresh calls over separated named configurations: "
    "in-place mutation seen through every reference = the value-level history; separation preserved; only the "
    "target of a call changes — inputs_never_mutated), refresh_after_sets_restores (update_defaults, any sets, "
    "refresh: the registered defaults come back with the values they had), share_shortcut_leaks (the same model "
    "with `old[k] = v` leaks across calls — the theorems are about the code). "
    "Extension round (Props/C17x): update_new_defaults_spec (priority 'new-defaults', ANY DEPTH, any defaults: for every "
    "scalar of new, get on the result returns ndExpect = the documented rule at the position old/defaults are really "
    "looked at — canonPath, get_reads_canonPath) with the corollaries new_defaults_replaces_default (value still equals "
    "the default -> new value), new_defaults_keeps_user_value (changed, or no default registered -> kept), "
    "new_defaults_adds_new_key; cleanDB_sound (the hypothesis is checked per case by the driver). interpret_value on the "
    "documented literal grammar (Model/ConfigInterp: ints, float texts kept opaque, True/False/None, quoted strings without "
    "escapes, lists/dicts of these, blanks and trailing commas): interpret_value_roundtrip (interpret_value(repr(v)) = v, "
    "any nesting; parseItem_repr + fuel bound size_le_length), interpret_value_identity(_on_words) (a text starting with "
    "a letter/_ is returned unchanged unless it is True/False/None or a hard-coded word), "
    "interpret_value_words_any_case (true/false/none/null in every letter case). set_get_through_serialize: under the "
    "ASSUMED round trip deserialize(serialize(c)) = c, set on the deserialised copy = set on the original (get returns "
    "the value, exit restores the original). "
    "VALIDATED ONLY (differential correspondence + oracles on every run): collect_env with several overlapping variables; "
    "interpret_value outside the modelled grammar (Python's full literal syntax: exponents, hex, underscores, tuples, sets, "
    "bytes, escapes, … — documented-rule oracle; the model says `out of scope` there); serialize/deserialize themselves "
    "(round-trip oracle incl. key order: json, base64 are not modelled); collect_yaml / "
    "collect / refresh on real files (order, extension filter, malformed files, precedence vs the model's reverse "
    "fold); expand_environment_variables; check_deprecations with random tables (modelled and diffed); get(default, "
    "override_with), pop. The identity model is tied to the real object graph (id() of every dict before and after "
    "each call) in sections `alias` and `hist`.")
LEVEL_NOTE = ("Trusted: Lean kernel + standard axioms; the correspondence harness; CPython dict/str semantics "
              "(insertion order, `in`, setdefault, pop, object identity) as mirrored by the association-list and "
              "identity models; PyYAML; the thread lock around set is outside the model (single-threaded histories). "
              "Model precondition for histories: a configuration that is itself registered in `defaults` is not the "
              "target of refresh/update_defaults (self-update through the list), and update(old, new) is called with two different objects.")
TECHNIQUE = ("Lean 4 proof (structural induction over key paths, record lists, with-block programs, nested mappings; "
             "refinement identity-model -> value-model; separation invariant over histories) + extractor-regenerated "
             "deprecations table + differential correspondence with dask.config on fresh dicts, object graphs and files")
ASSUMPTIONS = [
    "every non-dict value behaves as an opaque scalar (int, None, str, list are exercised; a list stored in two "
    "configurations IS shared by reference — lists are values for set/get/update, which never mutate them)",
    "keys are ASCII strings",
    "named configurations start separated (no dict object reachable from two of them); proved to stay so (hrun_sound)",
    "deserialize(serialize(c)) == c for JSON-representable configurations (hypothesis of set_get_through_serialize; oracle in glue/env/serset)",
    "interpret_value: the model claims agreement only where inScope holds (printable ASCII; a modelled literal whose dict "
    "keys are pairwise different strings/ints, or a plain word); an unhashable dict key makes the real function raise TypeError (recorded, outside the statement)",
]
TRUSTED = ["ast.literal_eval outside the modelled literal grammar; json / base64 (serialize, deserialize: round trip assumed by "
           "set_get_through_serialize, checked by oracle); float(text) for float literals (the model keeps the text)",
           "PyYAML safe_load/safe_dump (files section)", "os.path.expandvars (expand section reference)"]


def _alt(k):
    return k.replace("_", "-") if "_" in k else k.replace("-", "_")


def _pure(k):
    return not ("_" in k and "-" in k)


def _split_items(items):
    arg = {k: from_json_cfg(v) for k, v, kw in items if not kw}
    kwargs = {k: from_json_cfg(v) for k, v, kw in items if kw}
    return (arg if any(not kw for _, _, kw in items) else None), kwargs


def _wire_items(it, items):
    return [[k, it.enc(from_json_cfg(v)), bool(kw)] for k, v, kw in items]


def _enc_record(it, record):
    out = []
    for op, path, old in record:
        out.append([Sym("replace"), list(path), it.enc(old)] if op == "replace" else [Sym("insert"), list(path)])
    return out


def _deprecated(key):
    import dask.config as dc
    return key.replace("_", "-") in dc.deprecations


def _both_spellings_on_path(cfg, parts):
    """does some mapping along the (canonical) path hold both spellings of the segment, or is a segment mixed?"""
    import dask.config as dc
    cur = cfg
    for p in parts:
        if not _pure(p):
            return True
        if not isinstance(cur, dict):
            return True
        if p in cur and _alt(p) in cur and _alt(p) != p:
            return True
        k = dc.canonical_name(p, cur)
        if k not in cur:
            return True
        cur = cur[k]
    return False


def case_set(ctx, inp):
    import dask.config as dc
    it = Interner()
    items = inp["items"]
    cfg = from_json_cfg(inp["cfg"])
    orig = deep(cfg)
    arg, kwargs = _split_items(items)
    model = ctx.lean(Sym("cfg-set"), _wire_items(it, items), it.enc(orig))
    s = None
    try:
        s = dc.set(arg, config=cfg, **kwargs)
        impl = [Sym("ok"), it.enc(cfg), _enc_record(it, s._record)]
    except (TypeError, ValueError) as e:
        impl = [Sym("raised"), it.enc(cfg)]
        exc = f"{type(e).__name__}: {e}"
    ctx.eq("set.__init__ (config after the call, _record)", model, impl)
    if any(kw for _, _, kw in items):
        ctx.branch("kwargs")
    if any(_deprecated(k.replace("__", ".") if kw else k) for k, _, kw in items):
        ctx.branch("deprecated-key")
    if s is None:
        ctx.branch("set-raises" + ("-after-earlier-items" if len(items) > 1 and model[0] == "raised" and
                                   ctx.lean(Sym("cfg-set-norollback"), _wire_items(it, items), it.enc(orig))[1] != it.enc(orig)
                                   else ""))
        if ordered(cfg) != ordered(orig):
            ctx.fail("a set call that raises left the configuration changed", observed=[exc, cfg], expected=orig)
        return
    # --- successful call: get under both spellings, then exit restores exactly
    rec_ops = [r[0] for r in s._record]
    if "replace" in rec_ops:
        ctx.branch("record-replace")
    if any(r[0] == "insert" and len(r[1]) > 1 for r in s._record):
        ctx.branch("record-insert-nested")
    key, val, kw = items[-1]
    key = key.replace("__", ".") if kw else key
    if not _deprecated(key):
        want = from_json_cfg(val)
        try:
            got = dc.get(key, config=cfg)
            if got != want:
                ctx.fail("get does not return the value just set", observed=got, expected=want)
        except (KeyError, TypeError) as e:
            ctx.fail("get raises for the key just set", observed=f"{type(e).__name__}: {e}")
        parts = key.split(".")
        if not _both_spellings_on_path(cfg, parts):
            other = ".".join(_alt(p) for p in parts)
            if other != key:
                ctx.branch("get-other-spelling")
                try:
                    got = dc.get(other, config=cfg)
                    if got != want:
                        ctx.fail("get under the other spelling returns a different value", observed=got, expected=want)
                except (KeyError, TypeError) as e:
                    ctx.fail("get under the other spelling raises", observed=f"{type(e).__name__}: {e}")
    after = it.enc(cfg)
    wire_rec = _enc_record(it, s._record)
    try:
        s.__exit__(None, None, None)
        impl_exit = [Sym("ok"), it.enc(cfg)]
    except Exception as e:
        impl_exit = [Sym("raised")]
        ctx.fail("__exit__ raised", observed=f"{type(e).__name__}: {e}")
    ctx.eq("set.__exit__", ctx.lean(Sym("cfg-exit"), wire_rec, after), impl_exit)
    if ordered(cfg) != ordered(orig):
        ctx.fail("leaving the context did not restore the configuration exactly", observed=cfg, expected=orig)


def _run_prog(p, cfg, trace, it, problems, dc):
    if p[0] == "skip":
        return
    if p[0] == "seq":
        _run_prog(p[1], cfg, trace, it, problems, dc)
        _run_prog(p[2], cfg, trace, it, problems, dc)
        return
    arg, kwargs = _split_items(p[1])
    before = ordered(cfg)
    try:
        with dc.set(arg, config=cfg, **kwargs):
            trace.append(it.enc(cfg))
            _run_prog(p[2], cfg, trace, it, problems, dc)
    finally:
        if ordered(cfg) != before:
            problems.append([p[1], deep(cfg)])


def _wire_prog(it, p):
    if p[0] == "skip":
        return [Sym("skip")]
    if p[0] == "seq":
        return [Sym("seq"), _wire_prog(it, p[1]), _wire_prog(it, p[2])]
    return [Sym("with"), _wire_items(it, p[1]), _wire_prog(it, p[2])]


def _depth(p):
    if p[0] == "skip":
        return 0
    if p[0] == "seq":
        return max(_depth(p[1]), _depth(p[2]))
    return 1 + _depth(p[2])


def case_prog(ctx, inp):
    """API level: nested / sequenced real `with dask.config.set(...)` blocks."""
    import dask.config as dc
    it = Interner()
    cfg = from_json_cfg(inp["cfg"])
    orig = deep(cfg)
    prog = inp["prog"]
    model = ctx.lean(Sym("cfg-prog"), _wire_prog(it, prog), it.enc(orig))
    trace, problems = [], []
    try:
        _run_prog(prog, cfg, trace, it, problems, dc)
        kind = "normal"
    except (TypeError, ValueError):
        kind = "exc"
    ctx.eq("nested with-blocks (outcome, final config, config seen by each body)", model, [Sym(kind), it.enc(cfg), trace])
    if _depth(prog) >= 2:
        ctx.branch(f"nesting-depth-{min(_depth(prog), 4)}")
    if kind == "exc":
        ctx.branch("exception-unwinds" + ("-outer-blocks" if trace else ""))
    for items, c in problems:
        ctx.fail("a with-block did not restore the configuration it was entered with", observed=[items, c])
    if ordered(cfg) != ordered(orig):
        ctx.fail("configuration after all contexts were left differs from the initial one", observed=cfg, expected=orig)


def case_get(ctx, inp):
    import dask.config as dc
    it = Interner()
    cfg = from_json_cfg(inp["cfg"])
    try:
        impl = [Sym("ok"), it.enc(dc.get(inp["key"], config=cfg))]
    except KeyError:
        impl = [Sym("KeyError")]
    except TypeError:
        impl = [Sym("TypeError")]
    ctx.eq("get", ctx.lean(Sym("cfg-get"), inp["key"], it.enc(cfg)), impl)
    ctx.branch("get-" + str(impl[0]))
    ctx.eq("canonical_name", ctx.lean(Sym("cfg-canon"), inp["key"].split(".")[0], it.enc(cfg)),
           dc.canonical_name(inp["key"].split(".")[0], cfg))
    # documented behaviour of the optional arguments: `default` replaces the exception, `override_with` wins
    sentinel = object()
    try:
        got = dc.get(inp["key"], default=sentinel, config=cfg)
    except (KeyError, TypeError, IndexError) as e:
        ctx.fail("get(key, default=…) raised instead of returning the default", observed=f"{type(e).__name__}: {e}")
        return
    if impl[0] == "ok":
        if it.enc(got) != impl[1]:
            ctx.fail("get(key, default=…) differs from get(key) for an existing key", observed=repr(got))
    elif got is not sentinel:
        ctx.fail("get(key, default=…) does not return the default for a missing key", observed=repr(got))
    if dc.get(inp["key"], config=cfg, override_with=17) != 17 or dc.get(inp["key"], default=sentinel, config=cfg,
                                                                        override_with=None) is not got:
        ctx.fail("get(override_with=…) is not 'the override if not None, else the normal result'")
    # pop = get + removal (same canonical walk), on a copy
    c2 = deep(cfg)
    try:
        popped = [Sym("ok"), it.enc(dc.pop(inp["key"], config=c2))]
    except KeyError:
        popped = [Sym("KeyError")]
    except (TypeError, AttributeError):      # popping from a scalar: `'int' object has no attribute 'pop'`
        popped = [Sym("TypeError")]
    if popped != impl:
        ctx.fail("pop(key) does not return / raise what get(key) does", observed=popped, expected=impl)
    elif impl[0] == "ok" and not _has_both(cfg) and dc.get(inp["key"], default=sentinel, config=c2) is not sentinel:
        ctx.fail("pop(key) did not remove the key", observed=c2)


def case_glue(ctx, inp):
    """API level: refresh / update_defaults / serialize, expressed through the verified primitives"""
    import dask.config as dc
    it = Interner()
    defaults = [from_json_cfg(d) for d in inp["defaults"]]
    env = {k: v for k, v in inp["env"]}
    # --- refresh(config, defaults, paths=[], env): clear; defaults with priority "old"; then the environment on top
    cfg = from_json_cfg(inp["cfg"])
    try:
        envcfg = dc.collect_env(env)
    except (TypeError, ValueError):
        return
    if any(k.replace("_", "-") in dc.deprecations for k in envcfg):
        return
    dc.refresh(config=cfg, defaults=deep(defaults), paths=[], env=env)
    want = {}
    for d in defaults:
        dc.update(want, deep(d), priority="old")
    dc.update(want, deep(envcfg))
    if ordered(cfg) != ordered(want):
        ctx.fail("refresh is not 'defaults (first wins) then environment on top'", observed=cfg, expected=want)
    # the same through the model: old-priority updates, then a new-priority update
    m = [Sym("ok"), []]
    for d in defaults:
        m = ctx.lean(Sym("cfg-update"), Sym("old"), m[1], it.enc(d), None)
        if m[0] != "ok":
            break
    if m[0] == "ok":
        m = ctx.lean(Sym("cfg-update"), Sym("new"), m[1], it.enc(envcfg), None)
        ctx.eq("refresh vs model (update old … then update new)", m, [Sym("ok"), it.enc(cfg)])
    # --- update_defaults(new, config, defaults): new default appended; config follows unless the user changed the value
    cfg2 = from_json_cfg(inp["cfg"])
    dl = deep(defaults)
    new = from_json_cfg(inp["new"])
    cur = dc.merge(*dl)
    want2 = deep(cfg2)
    try:
        dc.update(want2, deep(new), priority="new-defaults", defaults=cur)
        dc.update_defaults(deep(new), config=cfg2, defaults=dl)
    except (TypeError, AttributeError):
        return
    if ordered(cfg2) != ordered(want2) or len(dl) != len(defaults) + 1 or ordered(dl[-1]) != ordered(new):
        ctx.fail("update_defaults is not update(priority='new-defaults', defaults=merge(*defaults)) + append",
                 observed=[cfg2, len(dl)], expected=want2)
    # --- serialize / deserialize round trip on JSON-able data
    for obj in (inp["cfg"], inp["defaults"], {"s": "héllo ☃", "n": [1, 2.5, None, True, {"a-b": "x_y"}]}):
        if dc.deserialize(dc.serialize(obj)) != obj:
            ctx.fail("deserialize(serialize(x)) != x", observed=dc.deserialize(dc.serialize(obj)), expected=obj)
    ctx.branch("glue")


def _leaf_paths(d, pre=()):
    for k, v in d.items():
        if isinstance(v, dict):
            yield from _leaf_paths(v, pre + (k,))
        else:
            yield pre + (k,), v


def _has_both(d):
    if not isinstance(d, dict):
        return False
    ks = set(d)
    return any((_alt(k) != k and _alt(k) in ks) or not _pure(k) for k in ks) or any(_has_both(v) for v in d.values())


def _raw(d, path):
    for p in path:
        if not isinstance(d, dict) or p not in d:
            return KeyError
        d = d[p]
    return d


def case_update(ctx, inp):
    import dask.config as dc
    it = Interner()
    old = from_json_cfg(inp["old"])
    new = from_json_cfg(inp["new"])
    dflt = None if inp.get("defaults") is None else from_json_cfg(inp["defaults"])
    prio = inp["priority"]
    old0, new0 = deep(old), deep(new)
    model = ctx.lean(Sym("cfg-update"), Sym(prio), it.enc(old0), it.enc(new0), None if dflt is None else it.enc(dflt))
    try:
        res = dc.update(old, new, priority=prio, defaults=dflt)
        impl = [Sym("ok"), it.enc(res)]
    except (TypeError, AttributeError):
        impl = [Sym("raised")]
        res = None
    ctx.eq("update", model, impl)
    ctx.branch("update-" + prio + ("-raised" if res is None else ""))
    if res is None:
        return
    if res is not old:
        ctx.fail("update did not operate in place")
    if ordered(new) != ordered(new0):
        ctx.fail("update modified `new`", observed=new, expected=new0)
    if prio == "new" and not _has_both(new0) and not _has_both(old0):
        for path, v in _leaf_paths(new0):
            try:
                got = dc.get(".".join(path), config=res)
            except (KeyError, TypeError) as e:
                got = e
            if not (isinstance(got, type(v)) and got == v):
                ctx.fail("update(priority='new'): a value of `new` is not readable from the result",
                         observed=[path, repr(got)], expected=v)
    if prio == "new-defaults" and isinstance(dflt, dict) and not _has_both(new0) and not _has_both(old0):
        # documented: "Only if a value in old matches the current default, it will be updated with new" (top level)
        for k, v in new0.items():
            if isinstance(v, dict):
                continue
            kk = dc.canonical_name(k, old0)
            if kk not in old0:
                want = v
            elif isinstance(old0[kk], dict):
                continue
            elif dflt and kk in dflt and dflt[kk] == old0[kk]:
                want = v
            else:
                want = old0[kk]
            later = [k2 for k2 in list(new0)[list(new0).index(k) + 1:] if dc.canonical_name(k2, old0) == kk or k2 == kk]
            if later:
                continue
            got = res.get(kk, KeyError)
            if not (type(got) is type(want) and got == want):
                ctx.fail("update(priority='new-defaults'): value neither kept nor replaced as documented",
                         observed=[k, repr(got)], expected=repr(want))
        ctx.branch("update-new-defaults-oracle")
    if prio == "old" and not _has_both(new0) and not _has_both(old0):
        for path, v in _leaf_paths(old0):
            shadow = _raw(new0, path[:1])  # a mapping in `new` may legitimately replace a scalar of `old`
            cur = _raw(res, path)
            if cur is KeyError or cur != v:
                # allowed only if `new` holds a mapping somewhere along the path where `old` had this leaf
                n = new0
                replaced = False
                for i, p in enumerate(path):
                    k = dc.canonical_name(p, n) if isinstance(n, dict) else p
                    if not isinstance(n, dict) or k not in n:
                        break
                    n = n[k]
                    if i == len(path) - 1 and isinstance(n, dict):
                        replaced = True
                if not replaced:
                    ctx.fail("update(priority='old') changed an existing value of `old`",
                             observed=[path, repr(cur)], expected=v)


def case_merge(ctx, inp):
    import dask.config as dc
    it = Interner()
    ds = [from_json_cfg(d) for d in inp["dicts"]]
    ds0 = deep(ds)
    res = dc.merge(*ds)
    ctx.eq("merge", ctx.lean(Sym("cfg-merge"), [it.enc(d) for d in ds0]), [Sym("ok"), it.enc(res)])
    if [ordered(d) for d in ds] != [ordered(d) for d in ds0]:
        ctx.fail("merge modified one of its arguments", observed=ds, expected=ds0)
    if ds0 and not any(_has_both(d) for d in ds0):
        ctx.branch("merge-precedence")
        for path, v in _leaf_paths(ds0[-1]):
            try:
                got = dc.get(".".join(path), config=res)
            except (KeyError, TypeError) as e:
                got = e
            if not (isinstance(got, type(v)) and got == v):
                ctx.fail("merge: a value of the last dict is not the one in the result", observed=[path, repr(got)], expected=v)


def _interpret_reference(value):
    """the documented rule of interpret_value"""
    try:
        return ast.literal_eval(value)
    except (SyntaxError, ValueError):
        pass
    return {"none": None, "null": None, "false": False, "true": True}.get(value.lower(), value)


def case_env(ctx, inp):
    import dask.config as dc
    it = Interner()
    env = {}
    inherit = inp.get("inherit")
    pairs = [list(p) for p in inp["env"]]
    if inherit is not None:
        ser = dc.serialize(inherit)
        if dc.deserialize(ser) != inherit:
            ctx.fail("deserialize(serialize(x)) != x", observed=dc.deserialize(ser), expected=inherit)
        pairs.insert(min(inp.get("inherit_pos", 0), len(pairs)), ["DASK_INTERNAL_INHERIT_CONFIG", ser])
        ctx.branch("env-inherit")
    for k, v in pairs:
        env[k] = v
    vals = []
    for k, v in env.items():
        iv = dc.interpret_value(v)
        ref = _interpret_reference(v)
        if type(iv) is not type(ref) or iv != ref:
            ctx.fail("interpret_value does not follow its documented rule", observed=[v, repr(iv)], expected=repr(ref))
        vals.append([k, it.enc(iv)])
    model = ctx.lean(Sym("cfg-env"), it.enc(inherit if inherit is not None else {}), vals)
    try:
        res = dc.collect_env(env)
        impl = [Sym("ok"), it.enc(res)]
    except (TypeError, ValueError):
        impl = [Sym("raised"), []]
        res = None
    ctx.eq("collect_env", model[:2], impl)
    if res is None:
        ctx.branch("env-conflict-raises")
        return
    # documented naming rule, checked directly: DASK_FOO__BAR_BAZ=123 -> {"foo": {"bar_baz": 123}} (readable as bar-baz)
    names = [k for k in env if k.startswith("DASK_")]
    if len(names) != len(env):
        ctx.branch("env-non-dask-vars")
    for k in names:
        dotted = k[5:].lower().replace("__", ".")
        # only variables whose dotted name neither extends nor is extended by (nor equals) another variable's name:
        # overlapping names interact through the intermediate dict of collect_env (a later duplicate overwrites the
        # earlier one *in place*), which the model covers but this simple oracle does not
        dn = lambda x: x[5:].lower().replace("__", ".")  # noqa: E731
        overlap = [k2 for k2 in names if k2 != k and ((dn(k2) + ".").startswith(dotted + ".")
                                                      or (dotted + ".").startswith(dn(k2) + "."))]
        if overlap or (inherit is not None):
            continue
        if any(_alt(a) == b and a != b for k2 in names for a, b in zip(k2[5:].lower().replace("__", ".").split("."),
                                                                     dotted.split(".")) if k2 != k):
            continue
        try:
            got = dc.get(dotted, config=res)
            want = dc.interpret_value(env[k])
            if type(got) is not type(want) or got != want:
                ctx.fail("collect_env: variable not readable under its dotted lower-cased name", observed=[k, repr(got)], expected=repr(want))
        except (KeyError, TypeError) as e:
            ctx.fail("collect_env: variable missing from the result", observed=[k, dotted, repr(e)])
        if "_" in dotted.replace("__", ""):
            ctx.branch("env-underscore-name")


# ------------------------------------------------------------------------------------------------------------
# identities of dict objects (lean/DaskModel/Model/ConfigAlias.lean): a nested merge must never store a dict object of
# one configuration inside another one by reference — invisible in one call, visible in a later one
# ------------------------------------------------------------------------------------------------------------
class _Ids:
    """which Python dict object is which model identity (objects are kept alive so that id() stays unique)"""

    def __init__(self):
        self.by_obj = {}
        self.keep = []
        self.nx = 1

    def label(self, v):
        """give every dict object of a freshly built input tree the next identities, preorder"""
        if isinstance(v, dict):
            self.by_obj[id(v)] = self.nx
            self.keep.append(v)
            self.nx += 1
            for x in v.values():
                self.label(x)

    def enc(self, it, v):
        if isinstance(v, dict):
            return [Sym("n"), self.by_obj[id(v)], [[str(k), self.enc(it, x)] for k, x in v.items()]]
        return it.leaf(v)

    def enc_real(self, it, v, m, fresh_from):
        """encode the real object graph next to the model's answer `m`: a known object carries its identity; an unknown
        (new) object adopts the identity the model has at this position if that one is fresh and still unclaimed,
        otherwise -1 (which cannot compare equal)"""
        if not isinstance(v, dict):
            return it.leaf(v)
        is_node = isinstance(m, list) and len(m) == 3 and m[0] == "n"
        oid = self.by_obj.get(id(v))
        if oid is None:
            mid = m[1] if is_node else None
            if isinstance(mid, int) and mid >= fresh_from and mid not in self.by_obj.values():
                oid = mid
                self.by_obj[id(v)] = oid
                self.keep.append(v)
            else:
                oid = -1
        sub = {kv[0]: kv[1] for kv in m[2]} if is_node else {}
        return [Sym("n"), oid, [[str(k), self.enc_real(it, x, sub.get(str(k)), fresh_from)] for k, x in v.items()]]


def _dict_objs(v, out=None):
    """id() of every dict object reachable from v"""
    out = {} if out is None else out
    if isinstance(v, dict) and id(v) not in out:
        out[id(v)] = v
        for x in v.values():
            _dict_objs(x, out)
    return out


def _count_nodes(w, pred):
    if isinstance(w, list) and len(w) == 3 and w[0] == "n":
        return (1 if pred(w[1]) else 0) + sum(_count_nodes(kv[1], pred) for kv in w[2])
    return 0


def case_alias(ctx, inp):
    """function level, identities included: which dict objects does update / merge reuse, create, or (never) borrow"""
    import dask.config as dc
    it = Interner()
    ids = _Ids()
    if inp["op"] == "merge":
        ds = [from_json_cfg(d) for d in inp["dicts"]]
        for d in ds:
            ids.label(d)
        nx = ids.nx
        model = ctx.lean(Sym("cfg-hmerge"), [ids.enc(it, d) for d in ds], nx)
        ds0 = deep(ds)
        inputs = {}
        for d in ds:
            _dict_objs(d, inputs)
        res = dc.merge(*ds)
        impl = [Sym("ok"), ids.enc_real(it, res, model[1] if model[0] == "ok" else None, nx)]
        ctx.eq("merge, with the identity of every dict object", model[:2], impl)
        borrowed = [k for k in _dict_objs(res) if k in inputs]
        if borrowed:
            ctx.fail("merge returned a configuration that shares a dict object with one of its arguments "
                     "(a later change of the result would change the argument)", observed=[res, len(borrowed)])
        if [ordered(d) for d in ds] != [ordered(d) for d in ds0]:
            ctx.fail("merge modified one of its arguments", observed=ds, expected=ds0)
        if len(_dict_objs(res)) > 1:
            ctx.branch("alias-merge-nested")
        return
    old, new = from_json_cfg(inp["old"]), from_json_cfg(inp["new"])
    dflt = None if inp.get("defaults") is None else from_json_cfg(inp["defaults"])
    prio = inp["priority"]
    ids.label(old)
    ids.label(new)
    nx = ids.nx
    model = ctx.lean(Sym("cfg-hupdate"), False, Sym(prio), ids.enc(it, old), ids.enc(it, new),
                     None if dflt is None else it.enc(dflt), nx)
    new0, dflt0 = deep(new), deep(dflt)
    foreign = _dict_objs(new)
    if dflt is not None:
        _dict_objs(dflt, foreign)
    try:
        res = dc.update(old, new, priority=prio, defaults=dflt)
    except (TypeError, AttributeError):
        ctx.eq("update (identities)", model, [Sym("raised")])
        ctx.branch("alias-update-raised")
        return
    impl = [Sym("ok"), ids.enc_real(it, res, model[1] if model[0] == "ok" else None, nx)]
    ctx.eq("update, with the identity of every dict object", model[:2], impl)
    borrowed = [k for k in _dict_objs(res) if k in foreign]
    if borrowed:
        ctx.fail("update stored a dict object of `new`/`defaults` inside `old` by reference "
                 "(a later change of `old` would change `new`)", observed=[res, len(borrowed)])
    if ordered(new) != ordered(new0) or ordered(dflt) != ordered(dflt0):
        ctx.fail("update modified `new` or `defaults`", observed=[new, dflt], expected=[new0, dflt0])
    if model[0] == "ok":
        if _count_nodes(model[1], lambda i: i >= nx):
            ctx.branch("alias-new-dict-created")
        if _count_nodes(model[1], lambda i: 1 < i < nx):
            ctx.branch("alias-existing-dict-updated-in-place")
        if ctx.lean(Sym("cfg-hupdate"), True, Sym(prio), ids.enc(it, old), ids.enc(it, new),
                    None if dflt is None else it.enc(dflt), nx) != model:
            ctx.branch("alias-sharing-shortcut-would-differ")


def _wire_hop(op):
    k = op[0]
    if k == "merge":
        return [Sym("merge"), list(op[1])]
    if k == "update":
        return [Sym("update"), Sym(op[1]), op[2], op[3], op[4]]
    if k == "set":
        return [Sym("set"), op[1], op[2], op[3]]
    if k == "updefaults":
        return [Sym("updefaults"), op[1], op[2]]
    return [Sym("refresh"), op[1]]


def case_hist(ctx, inp):
    """API level: a history of merge / update / set / update_defaults / refresh calls over several named configurations.
    After EVERY call: all configurations (values and object identities) against the model, and the statement's own
    reading — a call changes only its target; no two configurations ever share a dict object."""
    import dask.config as dc
    it = Interner()
    ids = _Ids()
    vs = [from_json_cfg(v) for v in inp["vars"]]
    for v in vs:
        ids.label(v)
    ops = inp["ops"]
    states = ctx.lean(Sym("cfg-hist"), False, [ids.enc(it, v) for v in vs], ids.nx, [_wire_hop(op) for op in ops])
    dl = []            # the `defaults` list handed to update_defaults / refresh (holds the variables themselves)
    dl_idx = []
    fresh_from = ids.nx
    seen = []
    for step, op in enumerate(ops):
        st = states[step] if step < len(states) else [Sym("missing")]
        before = [ordered(v) for v in vs]
        kind = op[0]
        target = None
        try:
            if kind == "merge":
                vs.append(dc.merge(*[vs[i] for i in op[1]]))
                target = len(vs) - 1
            elif kind == "update":
                target = op[2]
                r = dc.update(vs[op[2]], vs[op[3]], priority=op[1], defaults=None if op[4] is None else vs[op[4]])
                if r is not vs[op[2]]:
                    ctx.fail("update did not operate in place")
            elif kind == "set":
                target = op[1]
                dc.set({op[2]: op[3]}, config=vs[op[1]])
            elif kind == "updefaults":
                target = op[2]
                dc.update_defaults(vs[op[1]], config=vs[op[2]], defaults=dl)
                dl_idx.append(op[1])
                if not (dl and dl[-1] is vs[op[1]]):
                    ctx.fail("update_defaults did not register the new defaults", observed=len(dl))
            else:
                target = op[1]
                dc.refresh(config=vs[op[1]], defaults=dl, paths=[], env={})
        except (TypeError, AttributeError, ValueError) as e:
            ctx.eq(f"history step {step} ({kind}) raises", st[:1], [Sym("raised")])
            ctx.branch("hist-call-raised")
            if kind == "set" and [ordered(v) for v in vs] != before:
                ctx.fail("a set call that raises left a configuration changed", observed=[op, repr(e)])
            return
        seen.append(kind)
        if st[0] != "ok":
            ctx.disagree(f"history step {step} ({kind})", st, [Sym("ok")])
            return
        if st[4] is not True:
            ctx.disagree(f"history step {step}: identity model and value model differ (hstep/vstep)", st, None)
        impl_vars = [ids.enc_real(it, v, st[1][j] if j < len(st[1]) else None, fresh_from) for j, v in enumerate(vs)]
        fresh_from = st[3]
        if not ctx.eq(f"history step {step} ({kind}): every configuration, with dict identities", [st[1], st[2]],
                      [impl_vars, dl_idx]):
            # keep going with the oracles below, but the identities are no longer in step with the model
            pass
        for j, b in enumerate(before):
            if j != target and ordered(vs[j]) != b:
                ctx.fail(f"{kind} modified a configuration that was only an input / not involved "
                         "(dict object shared by reference with an earlier result)",
                         observed=[step, op, j, vs[j]], expected=b)
        owners = {}
        for j, v in enumerate(vs):
            for k in _dict_objs(v):
                if k in owners and owners[k] != j:
                    ctx.fail("two configurations share a dict object (a later change of one would change the other)",
                             observed=[step, op, owners[k], j])
                owners.setdefault(k, j)
        if kind == "refresh" and "updefaults" in seen:
            # documented: refresh = defaults (first registered wins) + files/environment (none here)
            want = {}
            for i in dl_idx:
                dc.update(want, deep(inp_var_now(vs, i)), priority="old")
            if ordered(vs[target]) != ordered(want):
                ctx.fail("refresh did not restore the registered defaults", observed=vs[target], expected=want)
    if "set" in seen and "merge" in seen and seen.index("merge") < len(seen) - 1 - seen[::-1].index("set"):
        ctx.branch("hist-set-after-merge")
    if "refresh" in seen and "updefaults" in seen and "set" in seen:
        ctx.branch("hist-updefaults-set-refresh")
    if len(seen) >= 4:
        ctx.branch("hist-4+-calls")


def inp_var_now(vs, i):
    return vs[i]


def case_depr(ctx, inp):
    """check_deprecations(key, deprecations=table) against the model, and its documented contract"""
    import warnings
    import dask.config as dc
    table = {k: v for k, v in inp["table"]}
    key = inp["key"]
    with warnings.catch_warnings(record=True) as w:
        warnings.simplefilter("always")
        try:
            impl = [Sym("ok"), dc.check_deprecations(key, deprecations=table)]
        except ValueError:
            impl = [Sym("removed")]
    ctx.eq("check_deprecations", ctx.lean(Sym("cfg-depr"), [[k, v] for k, v in inp["table"]], key), impl)
    old = key.replace("_", "-")
    if old not in table:
        if impl != [Sym("ok"), key] or w:
            ctx.fail("check_deprecations changed / warned about a key that is not deprecated", observed=[key, impl, len(w)])
        ctx.branch("depr-not-listed")
    elif table[old]:
        if impl != [Sym("ok"), table[old]] or not any(issubclass(x.category, FutureWarning) for x in w):
            ctx.fail("check_deprecations: renamed key not replaced with a FutureWarning", observed=[key, impl, len(w)])
        ctx.branch("depr-renamed" + ("-underscore-spelling" if old != key else ""))
    else:
        if impl != [Sym("removed")]:
            ctx.fail("check_deprecations: removed key did not raise ValueError", observed=[key, impl])
        ctx.branch("depr-removed")


def case_files(ctx, inp):
    """API level with real files: collect_yaml / collect / refresh over a temporary directory tree + an environment.
    Documented precedence: later paths over earlier ones, the environment over files, defaults below everything."""
    import json
    import os
    import shutil
    import tempfile
    import warnings
    import yaml
    import dask.config as dc
    it = Interner()
    root = tempfile.mkdtemp(prefix="c17-")
    try:
        paths, expected_order = [], []
        for di, d in enumerate(inp["dirs"]):
            dpath = os.path.join(root, f"d{di}")
            if d.get("single_file"):
                # a path may be a file itself
                fname, cfg = d["files"][0]
                os.makedirs(dpath)
                fpath = os.path.join(dpath, fname)
                with open(fpath, "w") as f:
                    f.write(json.dumps(cfg) if fname.endswith(".json") else yaml.safe_dump(cfg, sort_keys=False))
                paths.append(fpath)
                expected_order.append(cfg)
                continue
            os.makedirs(dpath)
            for fname, cfg in d["files"]:
                with open(os.path.join(dpath, fname), "w") as f:
                    if cfg == "EMPTY":
                        f.write("")
                    else:
                        f.write(json.dumps(cfg) if fname.lower().endswith(".json") else yaml.safe_dump(cfg, sort_keys=False))
            paths.append(dpath)
            for fname, cfg in sorted(d["files"], key=lambda fc: os.path.join(dpath, fc[0])):
                if os.path.splitext(fname)[1].lower() in (".json", ".yaml", ".yml") and cfg != "EMPTY":
                    expected_order.append(cfg)
        if inp.get("missing_path"):
            paths.insert(inp["missing_path"] % (len(paths) + 1), os.path.join(root, "does-not-exist"))
        got = list(dc.collect_yaml(paths=paths))
        if got != expected_order:
            ctx.fail("collect_yaml: files are not read in path order / sorted by name / filtered by extension",
                     observed=got, expected=expected_order)
        with_paths = list(dc.collect_yaml(paths=paths, return_paths=True))
        if [c for _, c in with_paths] != expected_order or not all(os.path.isfile(p) for p, _ in with_paths):
            ctx.fail("collect_yaml(return_paths=True) does not pair every config with its file", observed=repr(with_paths)[:300])
        env = {k: v for k, v in inp["env"]}
        with warnings.catch_warnings():
            warnings.simplefilter("ignore")
            try:
                envcfg = dc.collect_env(env)
            except (TypeError, ValueError):
                return
            res = dc.collect(paths=paths, env=env)
        sources = [from_json_cfg(c) for c in expected_order] + [envcfg]
        # the model: going from the highest priority down, `update(result, source, priority="old")`
        m = [Sym("ok"), []]
        for src in reversed(sources):
            m = ctx.lean(Sym("cfg-update"), Sym("old"), m[1], it.enc(src), None)
            if m[0] != "ok":
                break
        ctx.eq("collect(paths, env) vs model (reverse fold of update priority='old')", m, [Sym("ok"), it.enc(res)])
        # the statement's reading: every scalar of a source survives unless a LATER source says something at/above/below it
        for si, src in enumerate(sources):
            later = sources[si + 1:]
            if _has_both(src) or any(_has_both(x) for x in later):
                continue
            for path, v in _leaf_paths(src):
                if any(_touches(x, path) for x in later):
                    continue
                # a MAPPING in a lower-priority source replaces a scalar (None = an empty YAML section, and any other
                # non-mapping) whatever the priority: that is `update`'s rule for mapping-valued items, not a loss
                if any(_maps_at(x, path) for x in sources[:si]) or any(_has_both(x) for x in sources[:si]):
                    continue
                try:
                    g = dc.get(".".join(path), config=res)
                except (KeyError, TypeError) as e:
                    g = e
                if not (type(g) is type(v) and g == v):
                    ctx.fail("collect: a value of a source that no higher-priority source overrides is lost",
                             observed=[si, path, repr(g)], expected=v)
        if len(sources) >= 3:
            ctx.branch("files-3+-sources")
        if env:
            ctx.branch("files-with-env")
        # refresh = defaults below everything
        defaults = [from_json_cfg(d) for d in inp.get("defaults", [])]
        cfg = {"stale": 1}
        with warnings.catch_warnings():
            warnings.simplefilter("ignore")
            dc.refresh(config=cfg, defaults=defaults, paths=paths, env=env)
        want = {}
        for d in defaults:
            dc.update(want, deep(d), priority="old")
        dc.update(want, deep(res))
        if ordered(cfg) != ordered(want):
            ctx.fail("refresh is not 'clear, defaults (first wins), then collect() on top'", observed=cfg, expected=want)
        # a malformed / non-mapping file is an error that names the file
        bad = os.path.join(root, "bad.yaml")
        with open(bad, "w") as f:
            f.write(inp.get("bad", "- a\n- b\n"))
        try:
            list(dc.collect_yaml(paths=[bad]))
            ctx.fail("collect_yaml accepted a file whose top level is not a mapping", observed=inp.get("bad"))
        except ValueError as e:
            if "bad.yaml" not in str(e):
                ctx.fail("collect_yaml: the error does not name the malformed file", observed=str(e)[:200])
    finally:
        shutil.rmtree(root, ignore_errors=True)


def _touches(cfg, path):
    """does `cfg` say anything at, above or below `path` (under either spelling of each segment)?"""
    cur = cfg
    for p in path:
        if not isinstance(cur, dict):
            return True
        ks = [k for k in cur if k == p or _alt(k) == p or k == _alt(p)]
        if not ks:
            return False
        cur = cur[ks[0]]
    return True


def _maps_at(cfg, path):
    """does `cfg` hold a mapping at `path` or at a proper prefix position where the walk needs one?"""
    cur = cfg
    for p in path:
        if not isinstance(cur, dict):
            return False
        ks = [k for k in cur if k == p or _alt(k) == p or k == _alt(p)]
        if not ks:
            return False
        cur = cur[ks[0]]
    return isinstance(cur, dict)


def case_expand(ctx, inp):
    """expand_environment_variables: same structure and container types, strings through os.path.expandvars"""
    import os
    import dask.config as dc

    def build(j):
        if isinstance(j, dict):
            return {k: build(v) for k, v in j.items()}
        if isinstance(j, list):
            kind, items = j[0], j[1]
            vals = [build(x) for x in items]
            return vals if kind == "list" else tuple(vals) if kind == "tuple" else set(vals)
        return j

    def ref(x):
        if isinstance(x, dict):
            return {k: ref(v) for k, v in x.items()}
        if isinstance(x, str):
            return os.path.expandvars(x)
        if isinstance(x, (list, tuple, set)):
            return type(x)(ref(v) for v in x)
        return x
    saved = {k: os.environ.get(k) for k, _ in inp["vars"]}
    try:
        for k, v in inp["vars"]:
            os.environ[k] = v
        x = build(inp["value"])
        x0 = deep(x)
        got = dc.expand_environment_variables(x)
        want = ref(x0)
        if got != want or repr(type(got)) != repr(type(want)):
            ctx.fail("expand_environment_variables differs from 'expandvars on every string, same containers'",
                     observed=repr(got)[:300], expected=repr(want)[:300])
        if x != x0:
            ctx.fail("expand_environment_variables modified its argument", observed=repr(x)[:300])
        if got != x0:
            ctx.branch("expand-changed-something")
    finally:
        for k, v in saved.items():
            if v is None:
                os.environ.pop(k, None)
            else:
                os.environ[k] = v


# ------------------------------------------------------------------------------------------------------------
# extension round: update(priority="new-defaults") against the specification `ndExpect` (Props/C17x.lean)
# ------------------------------------------------------------------------------------------------------------
def _raw_at(d, path):
    """literal walk; KeyError (the class) when the walk leaves the tree"""
    for p in path:
        if not isinstance(d, dict) or p not in d:
            return KeyError
        d = d[p]
    return d


def _canon_path(dc, old, path):
    """the position update()/get() look at in `old`: every segment through canonical_name at its level"""
    out, cur = [], old
    for p in path:
        k = dc.canonical_name(p, cur) if isinstance(cur, dict) else p
        out.append(k)
        cur = cur[k] if isinstance(cur, dict) and isinstance(cur.get(k), dict) else {}
    return out


def case_ndspec(ctx, inp):
    """function level: update(old, new, priority='new-defaults', defaults=d) vs the model AND vs the specification
    `ndExpect` at every scalar path of `new` (what update_new_defaults_spec proves of the model), plus the documented
    rule evaluated directly in Python (value still the default -> replaced; changed / no default -> kept; new -> added)"""
    import dask.config as dc
    it = Interner()
    old = from_json_cfg(inp["old"])
    new = from_json_cfg(inp["new"])
    dflt = None if inp.get("defaults") is None else from_json_cfg(inp["defaults"])
    old0, new0, dflt0 = deep(old), deep(new), deep(dflt)
    leaves = [(list(path), v) for path, v in _leaf_paths(new0)]
    model = ctx.lean(Sym("cfg-nd-expect"), it.enc(old0), it.enc(new0), None if dflt is None else it.enc(dflt),
                     [[path, it.leaf(v)] for path, v in leaves])
    clean, mres, mexp = model[0], model[1], model[2]
    try:
        res = dc.update(old, new, priority="new-defaults", defaults=dflt)
        impl = [Sym("ok"), it.enc(res)]
    except (TypeError, AttributeError):
        impl = [Sym("raised")]
        res = None
    except Exception as e:  # noqa: BLE001 - nothing else is a documented way out of update()
        ctx.fail("update(priority='new-defaults') raised an unexpected exception", observed=repr(e))
        return
    ctx.eq("update new-defaults", mres, impl)
    if res is None:
        ctx.branch("nd-raised")
        return
    if ordered(new) != ordered(new0) or (dflt0 is not None and ordered(dflt) != ordered(dflt0)):
        ctx.fail("update(priority='new-defaults') modified `new` or `defaults`", observed=[new, dflt], expected=[new0, dflt0])
    if clean is not True:
        ctx.branch("nd-unclean-new-skipped")     # outside the theorem's hypothesis (both spellings inside one mapping of new)
        return
    for (path, v), (mcanon, mwant) in zip(leaves, mexp):
        try:
            got = dc.get(".".join(path), config=res)
        except (KeyError, TypeError) as e:
            ctx.fail("update(priority='new-defaults'): a key of `new` cannot be read from the result",
                     observed=[path, repr(e)])
            continue
        cpath = _canon_path(dc, old0, path)
        ctx.eq("canonical path (model vs canonical_name walk)", mcanon, cpath)
        # (1) the theorem's statement, on the real code
        ctx.eq("new-defaults specification ndExpect vs get(update(...))", mwant, it.enc(got))
        # (2) the documented rule, straight from the arguments
        ov = _raw_at(old0, cpath)
        dv = _raw_at(dflt0, cpath) if isinstance(dflt0, dict) else KeyError
        if ov is KeyError:
            want, br = v, "nd-new-key-added"
        elif dv is not KeyError and dv == ov:
            want, br = v, "nd-default-replaced"
        else:
            want, br = ov, ("nd-user-value-kept" if dv is not KeyError else "nd-no-default-kept")
        if ordered(got) != ordered(want):
            ctx.fail("update(priority='new-defaults'): " + br + " violated", observed=[path, repr(got)], expected=repr(want))
        ctx.branch(br)
        if len(path) >= 3:
            ctx.branch("nd-depth-3+")
        if cpath != path:
            ctx.branch("nd-other-spelling-in-old")
        if isinstance(ov, dict):
            ctx.branch("nd-scalar-meets-mapping")


# ------------------------------------------------------------------------------------------------------------
# extension round: interpret_value / repr on the modelled literal grammar (lean/DaskModel/Model/ConfigInterp.lean)
# ------------------------------------------------------------------------------------------------------------
def _lit_from_json(j):
    """case input (JSON) -> Python literal value: ["i",n] ["f",x] ["b",x] ["n"] ["s",text] ["l",[…]] ["d",[[k,v],…]]"""
    t = j[0]
    if t in ("i", "f", "b", "s"):
        return j[1]
    if t == "n":
        return None
    if t == "l":
        return [_lit_from_json(x) for x in j[1]]
    if t == "d":
        return {_lit_from_json(k): _lit_from_json(v) for k, v in j[1]}
    raise ValueError(j)


def _lit_wire(v):
    """Python value -> the model's wire form; None if the value is outside the modelled class"""
    if v is None:
        return [Sym("n")]
    if isinstance(v, bool):
        return [Sym("b"), v]
    if isinstance(v, int):
        return [Sym("i"), v]
    if isinstance(v, float):
        m = re.fullmatch(r"(-?)([0-9]+)\.([0-9]+)", repr(v))
        return [Sym("f"), bool(m.group(1)), m.group(2), m.group(3)] if m else None
    if isinstance(v, str):
        ok = all(32 <= ord(c) < 127 and c != "\\" for c in v) and not ("'" in v and '"' in v)
        return [Sym("s"), v] if ok else None
    if isinstance(v, list):
        ws = [_lit_wire(x) for x in v]
        return None if any(w is None for w in ws) else [Sym("l"), ws]
    if isinstance(v, dict):
        ws = [[_lit_wire(k), _lit_wire(x)] for k, x in v.items()]
        return None if any(a is None or b is None for a, b in ws) else [Sym("d"), ws]
    return None


def _lit_matches(w, real):
    """does the model's literal `w` (wire) denote the Python object `real`? types compared strictly; a float literal is
    the model's TEXT, its value is Python's float(text)"""
    t = str(w[0])
    if t == "n":
        return real is None
    if t == "b":
        return real is w[1]
    if t == "i":
        return type(real) is int and real == w[1]
    if t == "f":
        return type(real) is float and repr(float(("-" if w[1] is True else "") + w[2] + "." + w[3])) == repr(real)
    if t == "s":
        return type(real) is str and real == w[1]
    if t == "l":
        return type(real) is list and len(real) == len(w[1]) and all(_lit_matches(a, b) for a, b in zip(w[1], real))
    if t == "d":
        return type(real) is dict and len(real) == len(w[1]) and \
            all(_lit_matches(k, rk) and _lit_matches(x, rv) for (k, x), (rk, rv) in zip(w[1], real.items()))
    return False


def _same_value(a, b):
    """type-strict deep equality of Python literal values"""
    if type(a) is not type(b):
        return False
    if isinstance(a, (list, tuple)):
        return len(a) == len(b) and all(_same_value(x, y) for x, y in zip(a, b))
    if isinstance(a, dict):
        return len(a) == len(b) and all(_same_value(k1, k2) and _same_value(v1, v2)
                                        for (k1, v1), (k2, v2) in zip(a.items(), b.items()))
    if isinstance(a, float):
        return repr(a) == repr(b)
    return a == b


def case_interp(ctx, inp):
    """function level: interpret_value(text) vs the model wherever the model claims to apply (`inScope`), and repr(v) vs
    `reprLit`; oracles: the documented rule (literal_eval, then the hard-coded words, else the string itself) on every
    text, and interpret_value(repr(v)) == v for generated literal values"""
    import warnings
    import dask.config as dc
    if "value" in inp:
        v = _lit_from_json(inp["value"])
        text = repr(v)
        w = _lit_wire(v)
        if w is None:
            raise AssertionError(("generator produced a value outside the modelled class", inp))
        ctx.eq("repr(v) vs reprLit", ctx.lean(Sym("iv-repr"), w), text)
        with warnings.catch_warnings():
            warnings.simplefilter("ignore")
            back = dc.interpret_value(text)
        if not _same_value(back, v):
            ctx.fail("interpret_value(repr(v)) != v", observed=repr(back), expected=text)
        nested = isinstance(v, (list, dict)) and any(isinstance(x, (list, dict)) for x in (v if isinstance(v, list) else v.values()))
        ctx.branch("iv-roundtrip" + ("-nested" if nested else ""))
    else:
        text = inp["text"]
    try:
        with warnings.catch_warnings():
            warnings.simplefilter("ignore")          # "invalid decimal literal" SyntaxWarning on texts like `1if`
            real = dc.interpret_value(text)
    except TypeError as e:
        # literal_eval builds the dict/set itself: an unhashable key ("{[1]: 2}") escapes interpret_value as TypeError.
        # Outside the statement (and outside the model's scope: keys are strings / ints); recorded, not judged.
        ctx.branch("iv-unhashable-key-TypeError-escapes")
        if all(32 <= ord(c) < 127 or c == "\t" for c in text):
            scope, _m = ctx.lean(Sym("iv-interp"), text)
            if scope is True:
                ctx.disagree("interpret_value raised TypeError on a text the model claims", "in scope", repr(e))
        return
    with warnings.catch_warnings():
        warnings.simplefilter("ignore")
        ref = _interpret_reference(text)
    if not _same_value(real, ref) and not (type(real) is type(ref) and isinstance(real, (set, frozenset, complex, bytes, type(...)))
                                           and real == ref):
        ctx.fail("interpret_value does not follow its documented rule", observed=[text, repr(real)], expected=repr(ref))
    if not all(32 <= ord(c) < 127 or c == "\t" for c in text):
        ctx.branch("iv-non-ascii-or-control-oracle-only")
        return
    scope, m = ctx.lean(Sym("iv-interp"), text)
    if scope is not True:
        ctx.branch("iv-unmodelled-oracle-only")
        return
    if str(m[0]) == "raw":
        ok = type(real) is str and real == text and m[1] == text
        ctx.branch("iv-identity")
    else:
        ok = _lit_matches(m[1], real)
        ctx.branch("iv-literal-" + str(m[1][0]))
        if text.lower() in ("true", "false", "none", "null") and text not in ("True", "False", "None"):
            ctx.branch("iv-hardcoded-word-any-case")
        if text != text.strip() or text != repr(real):
            ctx.branch("iv-literal-not-in-repr-form")
    if not ok:
        ctx.disagree("interpret_value", m, repr(real))


def case_serset(ctx, inp):
    """API level for set_get_through_serialize: the ASSUMED round trip deserialize(serialize(c)) == c (key order and value
    types included) checked on the real functions, and a real `with set(...)` block on the deserialised copy against the
    model run on the ORIGINAL configuration: same contents inside, value readable under the key, original restored after."""
    import dask.config as dc
    it = Interner()
    cfg = from_json_cfg(inp["cfg"])
    cfg0 = deep(cfg)
    text = dc.serialize(cfg)
    copy_ = dc.deserialize(text)
    if ordered(copy_) != ordered(cfg0) or ordered(cfg) != ordered(cfg0):
        ctx.fail("deserialize(serialize(c)) != c", observed=copy_, expected=cfg0)
        return
    if not isinstance(text, str) or not all(c.isalnum() or c in "-_=" for c in text):
        ctx.fail("serialize(c) is not URL-safe base64 text", observed=text)
    key, val = inp["key"], from_json_cfg(inp["value"])
    model = ctx.lean(Sym("cfg-set"), [[key, it.enc(val), False]], it.enc(cfg0))
    try:
        with dc.set({key: val}, config=copy_):
            inside = deep(copy_)
            try:
                got = dc.get(key, config=copy_)
            except (KeyError, TypeError) as e:
                got = e
        impl = [Sym("ok"), it.enc(inside)]
    except (TypeError, ValueError):
        impl = [Sym("raised"), it.enc(copy_)]
        got = None
    ctx.eq("set on deserialize(serialize(c)) vs model set on c", model[:2], impl)
    if str(impl[0]) == "ok":
        if ordered(got) != ordered(val):
            ctx.fail("get after set on a deserialised configuration does not return the value set", observed=repr(got), expected=repr(val))
        ctx.branch("ser-set-get" + ("-nested-key" if "." in key else ""))
    else:
        ctx.branch("ser-set-raises")
    if ordered(copy_) != ordered(cfg0):
        ctx.fail("leaving set(...) on a deserialised configuration does not restore the original", observed=copy_, expected=cfg0)


CASES = {"set": case_set, "prog": case_prog, "get": case_get, "update": case_update, "merge": case_merge,
         "env": case_env, "glue": case_glue, "alias": case_alias, "hist": case_hist, "depr": case_depr,
         "files": case_files, "expand": case_expand, "ndspec": case_ndspec, "interp": case_interp, "serset": case_serset}

# ------------------------------------------------------------------------------------------------------------
# generators
# ------------------------------------------------------------------------------------------------------------
UNIVERSE = ["a", "a.b", "a-b", "a_b", "a.b.c", "x", "x.y", "q.r", "a_b.c", "a-b.c"]
SEG_UPD = SEGMENTS[:8] + ["a_b_c", "a-b-c"]       # no mixed names: the precedence oracles skip those
UNIVERSE_WIDE = UNIVERSE +["a_b_c", "a-b-c", "a_b-c", "a_b_c.a-b-c", "x.a_b_c", "a-b-c.x", "q.r.s.t"]
KW_UNIVERSE = ["a", "a__b", "a_b", "x", "x__y", "q__r", "a_b__c", "a__b__c", "a___b", "a____b", "_a", "a_", "__a", "a__",
               "a-b", "a.b", "x__y__z__w"]
DEPRECATED = ["fuse_ave_width", "fuse-ave-width", "shuffle", "array.rechunk-threshold", "ucx.tcp"]


def _gen_items(rng, cfg, nmax=3, universe=None):
    n = rng.randint(1, nmax)
    items, seen_arg, seen_kw = [], set(), set()
    nkw = rng.choice([0, 0, 0, 1, 2]) if n > 1 else rng.choice([0, 0, 1])
    for i in range(n):
        kw = i >= n - nkw
        r = rng.random()
        if kw:
            k = rng.choice(KW_UNIVERSE)
        elif r < 0.45:
            k = rng.choice(universe or UNIVERSE_WIDE)
        elif r < 0.97:
            k = gen_key(rng, cfg)
        else:
            k = rng.choice(DEPRECATED)
        if k in (seen_kw if kw else seen_arg):
            continue
        (seen_kw if kw else seen_arg).add(k)
        items.append([k, gen_value(rng), kw])
    if not items:
        items.append(["a", 1, False])
    return items


def _gen_prog(rng, cfg, depth):
    r = rng.random()
    if depth == 0 or r < 0.15:
        return ["skip"]
    if r < 0.4:
        return ["seq", _gen_prog(rng, cfg, depth - 1), _gen_prog(rng, cfg, depth - 1)]
    return ["with", _gen_items(rng, cfg), _gen_prog(rng, cfg, depth - 1)]


def _overlay(dflt, old, rng):
    """make `defaults` agree with `old` in places, so that the 'value is still the default' branch is reached"""
    for k, v in old.items():
        if isinstance(v, dict):
            if isinstance(dflt.get(k), dict) or (k not in dflt and rng.random() < 0.5):
                dflt.setdefault(k, {})
                _overlay(dflt[k], v, rng)
        elif (v is None or isinstance(v, int)) and rng.random() < 0.6:
            dflt[k] = v


def _small_cfgs():
    yield {}
    yield {"x": 1}
    yield {"x": 1, "a": {"b": 2}}
    yield {"a_b": {"c": 1}, "x": {"y": 2}}
    yield {"a-b": 3, "q": {"r": None}}
    yield {"a": 5, "x": ["s", "hello"]}


HIST_SEGS = ["a", "b", "x", "a-b", "a_b"]


def _hist_cfg(rng, depth=3):
    """small nested configs over few names, so that histories collide on the same nested keys (int / None leaves)"""
    return gen_cfg(rng, depth=depth, width=3, segs=HIST_SEGS, leaf=gen_leaf_plain)


def _gen_hist(rng):
    nvars = rng.randint(2, 4)
    vs = [_hist_cfg(rng) for _ in range(nvars)]
    if rng.random() < 0.5:
        vs[rng.randrange(nvars)] = {}
    ops = []
    n = nvars
    registered = set()     # the model's precondition: a configuration that is itself registered as defaults is never
    #                        the target of refresh / update_defaults (that would be a self-update through the list)
    for _ in range(rng.randint(2, 7)):
        r = rng.random()
        if r < 0.22:
            k = rng.randint(1, min(3, n))
            ops.append(["merge", rng.sample(range(n), k)])
            n += 1
        elif r < 0.45:
            dst, src = rng.sample(range(n), 2)
            prio = rng.choice(["new", "old", "new-defaults"])
            dflt = rng.choice([j for j in range(n) if j != dst]) if prio == "new-defaults" or rng.random() < 0.1 else None
            ops.append(["update", prio, dst, src, dflt])
        elif r < 0.75:
            ops.append(["set", rng.randrange(n), gen_key(rng, rng.choice(vs), segs=HIST_SEGS), rng.randint(10, 19)])
        elif r < 0.9:
            new, cfg = rng.sample(range(n), 2)
            if cfg not in registered:
                ops.append(["updefaults", new, cfg])
                registered.add(new)
        else:
            cands = [j for j in range(n) if j not in registered]
            if cands:
                ops.append(["refresh", rng.choice(cands)])
    return {"vars": vs, "ops": ops}


def _directed_histories():
    base = {"a": {"x": 1, "b": {"y": 2}}, "q": 3}
    over = {"a": {"z": 4}, "c": {"w": 5}}
    # merge, then change the result: the arguments must not follow
    yield "hist", {"vars": [base, over], "ops": [["merge", [0, 1]], ["set", 2, "a.b.y", 10], ["set", 2, "c.w", 11],
                                                 ["set", 2, "a.new", 12]]}
    yield "hist", {"vars": [base, over, {"a": {"b": {"t": 7}}, "c": {"v": 8}}],
                   "ops": [["merge", [0, 1]], ["update", "new", 3, 2, None], ["update", "old", 3, 1, None]]}
    yield "hist", {"vars": [base, {}], "ops": [["update", "new", 1, 0, None], ["set", 1, "a.b.y", 10], ["set", 1, "a.x", 11]]}
    # update_defaults, user sets a value, refresh must bring the registered default back
    yield "hist", {"vars": [{"a": {"b": 1, "c": {"d": 2}}}, {}],
                   "ops": [["updefaults", 0, 1], ["set", 1, "a.b", 10], ["set", 1, "a.c.d", 11], ["refresh", 1]]}
    yield "hist", {"vars": [{"a": {"b": 1}}, {"a": {"c": {"d": 2}}}, {"x": 0}],
                   "ops": [["updefaults", 0, 2], ["updefaults", 1, 2], ["set", 2, "a.c.d", 10], ["set", 2, "a-b", 5],
                           ["refresh", 2], ["set", 2, "a.b", 11], ["refresh", 2]]}
    yield "hist", {"vars": [{"a": {"b": 1}}, {"a": {"b": 1, "k": 0}}, {"a": {"b": 2, "c": {"d": 3}}}],
                   "ops": [["update", "new-defaults", 1, 2, 0], ["set", 1, "a.c.d", 10], ["merge", [1, 2]],
                           ["set", 3, "a.c.e", 11]]}


def _exhaustive_histories():
    """every history of <= 3 calls over a small alphabet on three fixed configurations"""
    import itertools
    vs = [{"a": {"b": 1}}, {"a": {"c": {"d": 2}}, "x": 0}, {}]
    alphabet = [["merge", [0, 1]], ["merge", [1, 0]], ["update", "new", 2, 0, None], ["update", "new", 2, 1, None],
                ["update", "old", 2, 1, None], ["update", "new", 0, 1, None], ["update", "new-defaults", 2, 1, 0],
                ["set", 2, "a.c.d", 10], ["set", 2, "a.b", 11], ["set", 0, "a.c.e", 12], ["set", 3, "a.c.d", 13],
                ["updefaults", 0, 2], ["updefaults", 1, 2], ["refresh", 2], ["update", "new", 2, 3, None]]
    for k in (1, 2, 3):
        for ops in itertools.product(alphabet, repeat=k):
            nv = 3
            ok = True
            for op in ops:
                used = [op[1]] if op[0] in ("set", "refresh") else \
                    list(op[1]) if op[0] == "merge" else [op[1], op[2]] if op[0] == "updefaults" else [op[2], op[3]]
                if any(u >= nv for u in used):
                    ok = False
                    break
                if op[0] == "merge":
                    nv += 1
            if ok:
                yield "hist", {"vars": vs, "ops": [list(op) for op in ops]}


SEG_ND = ["a", "b", "c", "x", "a-b", "a_b", "b-c", "b_c", "a_b_c", "a-b-c"]


def _nd_edit(rng, d, depth, kind):
    """a copy of the defaults tree `d` after edits: kind 'user' = what a user did to the configuration,
    kind 'new' = the next version of the defaults"""
    out = {}
    for k, v in d.items():
        r = rng.random()
        if r < 0.08:
            continue                                              # entry dropped
        kk = _alt(k) if rng.random() < 0.15 else k                # same name, other spelling
        if kk in out or _alt(kk) in out:
            kk = k
            if kk in out or _alt(kk) in out:
                continue
        if isinstance(v, dict):
            if r < 0.14:
                out[kk] = gen_leaf_plain(rng)                     # mapping became a scalar
            else:
                out[kk] = _nd_edit(rng, v, depth - 1, kind)
        elif r < 0.14 and depth > 1:
            out[kk] = gen_cfg(rng, depth=depth - 1, width=2, segs=SEG_ND, both_spellings=0.0, leaf=gen_leaf_plain)
        elif r < (0.45 if kind == "user" else 0.6):
            out[kk] = rng.choice([gen_leaf_plain(rng), v + 10 if isinstance(v, int) else 3])   # value changed
        else:
            out[kk] = v
    for _ in range(rng.choice([0, 0, 1, 2])):                     # entries only this side has
        k = rng.choice(SEG_ND)
        if k in out or _alt(k) in out:
            continue
        out[k] = gen_cfg(rng, depth=depth - 1, width=2, segs=SEG_ND, both_spellings=0.0, leaf=gen_leaf_plain) \
            if depth > 1 and rng.random() < 0.4 else gen_leaf_plain(rng)
    return out


def _gen_nd(rng):
    depth = rng.choice([2, 3, 3, 4, 5])
    base = gen_cfg(rng, depth=depth, width=3, segs=SEG_ND, both_spellings=0.0, leaf=gen_leaf_plain)
    old = _nd_edit(rng, base, depth, "user")
    new = _nd_edit(rng, base, depth, "new")
    r = rng.random()
    if r < 0.7:
        dflt = base
    elif r < 0.8:
        dflt = _nd_edit(rng, base, depth, "user")                 # partial / respelled / differently shaped defaults
    elif r < 0.86:
        dflt = {}
    elif r < 0.92:
        dflt = None
    else:
        dflt = gen_cfg(rng, depth=2, width=3, segs=SEG_ND, leaf=gen_leaf_plain)
    if rng.random() < 0.04 and new:
        k = rng.choice(list(new))
        if _alt(k) != k:
            new[_alt(k)] = 1                                      # both spellings inside `new`: outside the hypothesis
    return {"old": old, "new": new, "defaults": dflt}


def _directed_nd():
    d = {"a-b": {"x": 1, "y": 2}, "q": 0}
    yield "ndspec", {"old": {"a-b": {"x": 1, "y": 7}, "q": 0},
                     "new": {"a_b": {"x": 10, "y": 20, "z": 30}, "q": 5, "r": 6}, "defaults": d}
    yield "ndspec", {"old": {"a-b": {"x": 1}}, "new": {"a-b": {"x": 10}}, "defaults": {"a_b": {"x": 1}}}
    yield "ndspec", {"old": {"x": 1, "y": {"a": 2}}, "new": {"x": 2, "y": {"a": 3, "b": 3}}, "defaults": {"x": 0, "y": {"a": 2}}}
    yield "ndspec", {"old": {"a": {"b": {"c": {"x": 1, "b": 2}}}}, "new": {"a": {"b": {"c": {"x": 5, "b": 6, "a": 7}}}},
                     "defaults": {"a": {"b": {"c": {"x": 1, "b": 3}}}}}
    yield "ndspec", {"old": {"a": 1, "b": {"c": 1}}, "new": {"a": {"x": 2}, "b": 3}, "defaults": {"a": 1, "b": {"c": 1}}}
    yield "ndspec", {"old": {"a": None, "b": {}}, "new": {"a": {"x": 2}, "b": {"c": {"x": 1}}}, "defaults": {"a": None}}
    yield "ndspec", {"old": {"a": {"x": 1}}, "new": {"a": {"x": 2}}, "defaults": {"a": 5}}      # defaults.get on an int: raises
    yield "ndspec", {"old": {"a": {"x": 1}}, "new": {"a": {"x": 2}}, "defaults": {"a": 0}}      # falsy scalar: no defaults below


IV_CHARS = "abcxyzABZ019 _-./:,;[]{}()#=+*<>!?@$%^&~|`"


def _gen_lit(rng, depth):
    r = rng.random()
    if depth > 0 and r < 0.3:
        return ["l", [_gen_lit(rng, depth - 1) for _ in range(rng.choice([0, 1, 1, 2, 3, 4]))]]
    if depth > 0 and r < 0.5:
        pairs, seen = [], set()
        for _ in range(rng.choice([0, 1, 2, 3])):
            k = ["s", "".join(rng.choice("abk-_ .") for _ in range(rng.randint(0, 3)))] if rng.random() < 0.7 \
                else ["i", rng.randint(-3, 12)]
            if (k[0], k[1]) in seen:
                continue
            seen.add((k[0], k[1]))
            pairs.append([k, _gen_lit(rng, depth - 1)])
        return ["d", pairs]
    if r < 0.62:
        return ["i", rng.choice([0, 1, -1, 7, 10, 100, -250, 4096, 10 ** 20 + 7, -(10 ** 18), rng.randint(-10 ** 6, 10 ** 6)])]
    if r < 0.72:
        x = rng.choice([0.0, -0.0, 0.5, 1.25, -3.0, 100.125, 0.1, 2.75, -0.001, 1234567.875,
                        round(rng.uniform(-1000, 1000), rng.randint(1, 4))])
        return ["f", x] if re.fullmatch(r"-?[0-9]+\.[0-9]+", repr(x)) else ["f", 0.5]
    if r < 0.8:
        return ["b", rng.random() < 0.5]
    if r < 0.86:
        return ["n"]
    t = "".join(rng.choice(IV_CHARS + "'\"") for _ in range(rng.choice([0, 1, 2, 3, 5, 8])))
    if "'" in t and '"' in t:
        t = t.replace('"', "q")
    return ["s", t]


def _respace(rng, text):
    """the same literal with blanks / tabs / trailing commas where Python allows them (never inside quotes)"""
    out, q = [], None
    for i, c in enumerate(text):
        if q:
            out.append(c)
            if c == q:
                q = None
            continue
        if c in "'\"":
            q = c
            out.append(c)
        elif c in "[{" and rng.random() < 0.3:
            out.append(c + rng.choice([" ", "  ", "\t"]))
        elif c in "]}" and rng.random() < 0.3:
            prev = text[i - 1]
            out.append((", " if prev not in "[{" and rng.random() < 0.4 else rng.choice([" ", ""])) + c)
        elif c == ":" and rng.random() < 0.4:
            out.append(rng.choice([" :", ":", " : "]))
        elif c == "," and rng.random() < 0.4:
            out.append(rng.choice([" ,", ",", " , "]))
        elif c == " " and rng.random() < 0.3:
            out.append(rng.choice(["", "  ", "\t"]))
        else:
            out.append(c)
    t = "".join(out)
    if rng.random() < 0.3:
        t = rng.choice([" ", "  ", "\t"]) + t
    if rng.random() < 0.3:
        t = t + rng.choice([" ", "  ", "\t"])
    return t


IV_TEXTS = ["123", "1.5", "true", "False", "None", "null", "hello", "[1, 2]", "{'a': 1}", "'quoted'", "", "a b", "TRUE", "1e3",
            "(1, 2)", "foo.bar", "NONE", "nUlL", "FALSE", "none ", " none", "0", "-1", "1_000", "0x10", "tRuE", "007", "00", "-0",
            "- 1", "--1", "+1", "1.", ".5", "1.50", "-0.0", "1j", "...", "set()", "{1, 2}", "b'x'", "r'x'", "'a' 'b'", "'''a'''",
            "''", "''''''", "1 # c", "[1, 2", "[1 2]", "[,]", "[1,]", "[1,,2]", "{1:2,}", "{1: 2, 1: 3}", "{True: 1}", "{1: 2, True: 3}",
            "{[1]: 2}", "{{}}", "'a\\n'", "'it\\'s'", "\"it's\"", "'say \"hi\"'", "tcp://host:8786", "/path/to/file", "a-b", "a_b",
            "a.b.c", "x/y", "lambda: 1", "not 1", "a if b else c", "None if a else b", "True.real", "Truex", "True_", "None1",
            "True False", "[True, False, None]", "[true]", "{'a': {'b': [1, {'c': None}]}}", "1 2", "1,2", "1, 2", "[1], [2]",
            "yes", "no", "on", "off", "inf", "nan", "1e-5", "1E5", "0.5.1", "1..2", "1.a", "1a", "'unterminated", "é", "a\nb", " ",
            "\t", "[ ]", "{ }", "[ 1 , 2 ]", "{ 'k' : 'v' }", "0b11", "0o7", "9" * 30, "-" + "9" * 25, "1.0" + "0" * 20, "_", "_1",
            "__debug__", "Ellipsis", "print", "if", "e10", "a:b", "a: b", "a..b", "a-.5", "f'x'", "rb", "10 ** 2", "-(1)", "(1)",
            "[1, (2, 3)]", "[[[[[[[[1]]]]]]]]", "{'a': 1, 'a': 2}", "{'a': 1, \"a\": 2}", "{1: 'x', 1.0: 'y'}", "{None: 1}",
            "True ", " True", "\tNone", "[None,None]", "['a','b']", "{'a':1,'b':2}", "[-1, -2.5]", "[- 1]", "['[', ']', ',']",
            "{'{': '}', ':': ','}", "[\"'\"]", "['\"']", "[1, 'a' 'b']", "[1.5e3]", "[0x1]", "[1]]", "[[1]", "{'a': }", "{: 1}",
            "{'a' 1}", "{'a': 1 'b': 2}", "a - 1", "A", "T", "Tru", "Non", "none1", "true.", "x y z", "abc:def/ghi.jkl-mno_pqr"]


def generate(ctx):
    from props._stores_util import ensure_budget
    ensure_budget(ctx, quick_scale=2.0)
    rng = ctx.rng
    # the defect of DESIGN.md section 6 #6 (repaired) and its neighbours, always
    yield "set", {"cfg": {"x": 1}, "items": [["q.r", 2, False], ["x.y", 3, False]]}
    yield "set", {"cfg": {"x": ["s", "hello"]}, "items": [["q.r", 2, False], ["x.y", 3, False]]}
    yield "set", {"cfg": {"x": ["l", [1, 2]]}, "items": [["q.r", 2, False], ["x.y", 3, False]]}
    yield "set", {"cfg": {}, "items": [["a.b", 1, False], ["a", 2, False], ["a_b", 3, False], ["a-b", 4, False]]}
    yield "prog", {"cfg": {"x": 1}, "prog": ["with", [["a.b", 1, False]],
                                             ["seq", ["with", [["a", 2, False], ["a_b", 3, False]], ["skip"]],
                                              ["with", [["a.c", 4, False], ["x.y", 5, False]], ["skip"]]]]}
    # exhaustive small space: every ordered pair/triple of universe keys as one call, on each small config
    import itertools
    small = list(_small_cfgs())
    kmax = 3 if ctx.thorough() else 2
    for cfg in small:
        for k in range(1, kmax + 1):
            for keys in itertools.permutations(UNIVERSE, k):
                yield "set", {"cfg": cfg, "items": [[key, i + 10, False] for i, key in enumerate(keys)]}
    # random calls on random configs
    for _ in range(ctx.n(1500, 20000)):
        cfg = gen_cfg(rng)
        yield "set", {"cfg": cfg, "items": _gen_items(rng, cfg, nmax=4)}
    # nested programs (API level)
    for _ in range(ctx.n(400, 6000)):
        cfg = gen_cfg(rng, depth=2)
        yield "prog", {"cfg": cfg, "prog": _gen_prog(rng, cfg, rng.choice([2, 3, 3, 4]))}
    if ctx.thorough():
        # all programs of <= 3 nested single-key sets over the universe on two configs
        for cfg in ({"x": 1}, {"a_b": {"c": 1}}):
            for keys in itertools.product(UNIVERSE[:7], repeat=3):
                prog = ["skip"]
                for i, k in enumerate(reversed(keys)):
                    prog = ["with", [[k, i, False]], prog]
                yield "prog", {"cfg": cfg, "prog": prog}
    for _ in range(ctx.n(400, 4000)):
        cfg = gen_cfg(rng)
        yield "get", {"cfg": cfg, "key": gen_key(rng, cfg)}
    for _ in range(ctx.n(500, 6000)):
        old = gen_cfg(rng, segs=SEG_UPD)
        new = gen_cfg(rng, segs=SEG_UPD)
        prio = rng.choice(["new", "old", "new-defaults"])
        dflt = None
        if prio == "new-defaults" or rng.random() < 0.1:
            # `defaults` leaves: int / None only (a str or list there makes `k in defaults` type-dependent)
            dflt = gen_cfg(rng, segs=SEG_UPD, leaf=gen_leaf_plain)
            if rng.random() < 0.5:
                _overlay(dflt, old, rng)
        yield "update", {"old": old, "new": new, "priority": prio, "defaults": dflt}
    # texts whose base64 form needs the two alphabet positions 62 / 63 ('>', '?', '~' at every byte alignment), non-ASCII
    for i, t in enumerate(["a>?~>>??~~", ">", "?>", "~~?", "x>>>???~~~", "h\u00e9llo \u2603", "a/b+c"]):
        yield "serset", {"cfg": {"k": ["s", t], "a": {"b" + "c" * (i % 3): ["s", t + "?"]}}, "key": "a.x", "value": ["s", "~" + t]}
    for _ in range(ctx.n(60, 600)):
        cfg = gen_cfg(rng, depth=3, segs=SEG_UPD)
        yield "serset", {"cfg": cfg, "key": gen_key(rng, cfg, segs=SEG_UPD), "value": gen_value(rng)}
    for t in IV_TEXTS:
        yield "interp", {"text": t}
    for _ in range(ctx.n(250, 3000)):
        v = _gen_lit(rng, rng.choice([0, 1, 2, 2, 3, 4]))
        yield "interp", {"value": v}
        if rng.random() < 0.6:
            yield "interp", {"text": _respace(rng, repr(_lit_from_json(v)))}
        if rng.random() < 0.35:
            t = repr(_lit_from_json(v))
            i = rng.randrange(len(t) + 1)
            yield "interp", {"text": t[:i] + rng.choice(["", rng.choice(IV_CHARS + "'\"")]) + t[i + rng.choice([0, 1]):]}
    for _ in range(ctx.n(150, 1500)):
        r = rng.random()
        if r < 0.3:
            w = rng.choice(["true", "false", "none", "null", "True", "None", "nil", "yes", "truee"])
            t = "".join(c.upper() if rng.random() < 0.4 else c for c in w)
        elif r < 0.75:
            t = rng.choice("abcxyzTFN_") + "".join(rng.choice("abcrue019_-./: ") for _ in range(rng.randint(0, 10)))
        else:
            t = "".join(rng.choice(IV_CHARS + "'\"\\") for _ in range(rng.randint(1, 8)))
        yield "interp", {"text": t}
    yield from _directed_nd()
    for _ in range(ctx.n(250, 3000)):
        yield "ndspec", _gen_nd(rng)
    for _ in range(ctx.n(200, 2000)):
        yield "merge", {"dicts": [gen_cfg(rng, segs=SEG_UPD) for _ in range(rng.randint(0, 4))]}
    # identities: function level (same input distribution as `update` / `merge`) and histories
    for _ in range(ctx.n(300, 4000)):
        old = gen_cfg(rng, segs=SEG_UPD)
        new = gen_cfg(rng, segs=SEG_UPD)
        prio = rng.choice(["new", "old", "new-defaults"])
        dflt = None
        if prio == "new-defaults" or rng.random() < 0.1:
            dflt = gen_cfg(rng, segs=SEG_UPD, leaf=gen_leaf_plain)
            if rng.random() < 0.5:
                _overlay(dflt, old, rng)
        yield "alias", {"op": "update", "old": old, "new": new, "priority": prio, "defaults": dflt}
    for _ in range(ctx.n(100, 1500)):
        yield "alias", {"op": "merge", "dicts": [gen_cfg(rng, segs=SEG_UPD) for _ in range(rng.randint(0, 4))]}
    yield from _directed_histories()
    for _ in range(ctx.n(300, 4000)):
        yield "hist", _gen_hist(rng)
    if ctx.thorough():
        yield from _exhaustive_histories()
    # check_deprecations with random tables (hyphen spelling in the table, either spelling asked)
    dkeys = ["old-key", "a.old-key", "gone", "fuse-ave-width", "x"]
    for _ in range(ctx.n(120, 1200)):
        table = []
        for k in rng.sample(dkeys, rng.randint(0, 4)):
            table.append([k, rng.choice([None, None, "new.key", "other_key", ""])])
        key = rng.choice(dkeys + ["old_key", "a.old_key", "fuse_ave_width", "fuse_ave-width", "unknown", "gone_", "OLD-KEY"])
        yield "depr", {"table": table, "key": key}
    # real files
    fnames = ["a.yaml", "b.yml", "c.json", "B.YAML", "z.txt", "0.yaml", "notes.md", "d.JSON"]
    for _ in range(ctx.n(40, 400)):
        dirs = []
        for _d in range(rng.randint(1, 3)):
            names = rng.sample(fnames, rng.randint(0, 3))
            files = [[nm, ("EMPTY" if rng.random() < 0.08 else gen_cfg(rng, depth=2, segs=SEG_UPD, leaf=gen_leaf_plain))]
                     for nm in names]
            d = {"files": files}
            if files and files[0][1] != "EMPTY" and files[0][0].lower().endswith((".yaml", ".yml", ".json")) and rng.random() < 0.15:
                d = {"files": files[:1], "single_file": True}
            dirs.append(d)
        env = [["DASK_" + rng.choice(["A", "A__B", "X", "X__Y", "Q"]), rng.choice(["1", "2", "None", "7"])]
               for _ in range(rng.randint(0, 2))]
        yield "files", {"dirs": dirs, "env": env, "missing_path": rng.randint(0, 5) if rng.random() < 0.3 else 0,
                        "defaults": [gen_cfg(rng, depth=2, segs=SEG_UPD, leaf=gen_leaf_plain) for _ in range(rng.randint(0, 2))],
                        "bad": rng.choice(["- a\n- b\n", "just a string\n", "42\n", "{a: [1, 2\n", "a: 1\n  b: 2\n"])}
    for _ in range(ctx.n(60, 600)):
        def gv(depth):
            r = rng.random()
            if depth <= 0 or r < 0.4:
                return rng.choice(["$C17_A", "${C17_B}/x", "plain", "$C17_UNSET", 3, None, 2.5, "$C17_A$C17_B", ""])
            if r < 0.65:
                return {rng.choice(["k", "$C17_A", "n"]): gv(depth - 1) for _ in range(rng.randint(0, 3))}
            kind = rng.choice(["list", "tuple", "set"])
            items = [gv(depth - 1 if kind != "set" else 0) for _ in range(rng.randint(0, 3))]
            return [kind, items]
        v = gv(3)
        yield "expand", {"value": v if isinstance(v, (dict, list)) else {"k": v},
                         "vars": [["C17_A", rng.choice(["alpha", "", "with space"])], ["C17_B", rng.choice(["beta", "/tmp"])]]}
    raw_values = ["123", "1.5", "true", "False", "None", "null", "hello", "[1, 2]", "{'a': 1}", "'quoted'", "", "a b",
                  "TRUE", "1e3", "(1, 2)", "foo.bar", "NONE", "nUlL", "FALSE", "none ", "0", "-1", "1_000", "0x10", "tRuE"]
    names = ["A", "A__B", "A__C", "A_B", "A-B", "X", "X__Y", "Q__R_S", "a__b", "A__B__C", "", "A___B", "A__", "__A",
             "A____B", "Ab__cD", "X__Y__Z__W"]
    for _ in range(ctx.n(100, 1000)):
        dfl = [gen_cfg(rng, depth=2, segs=SEG_UPD, leaf=gen_leaf_plain) for _ in range(rng.randint(0, 3))]
        env = [["DASK_" + rng.choice(names[:10]), rng.choice(raw_values[:12])] for _ in range(rng.randint(0, 3))]
        yield "glue", {"cfg": gen_cfg(rng, depth=2, segs=SEG_UPD, leaf=gen_leaf_plain), "defaults": dfl, "env": env,
                       "new": gen_cfg(rng, depth=2, segs=SEG_UPD, leaf=gen_leaf_plain)}
    for _ in range(ctx.n(300, 3000)):
        env = []
        for _ in range(rng.randint(0, 5)):
            nm = rng.choice(names)
            pre = "DASK_" if rng.random() < 0.85 else rng.choice(["", "dask_", "DASK", "FOO_"])
            env.append([pre + nm, rng.choice(raw_values)])
        inp = {"env": env}
        if rng.random() < 0.15:
            inp["inherit"] = rng.choice([{"a": {"b": 7}}, {"x.y": 3}, {"q": 1, "a": {"c": 2}}, {}])
            inp["inherit_pos"] = rng.randint(0, 3)
        yield "env", inp
