"""C49 — bag sampling returns valid samples reproducibly.

Model:    lean/DaskModel/Model/BagSample.lean (sample/choices for an arbitrary random oracle, random_sample),
          lean/DaskModel/Model/BagReduce.lean (Bag.reduction tree, empty_safe_*)
Theorems: lean/DaskModel/Props/C49.lean
Tie:      function level: _sample_map_partitions, _sample_with_replacement_map_partitions, _sample_reduce (both
          modes), random_sample run on the real code with a recording random generator — the recorded draws
          (geometric jumps, slots, heap keys, picks, keep bits) are the oracle handed to the Lean model; the
          reduction tree (runtime structure with skipped empty partitions) vs the Lean tree;
          API level: sample / choices / random_sample on generated populations, partitionings, k, split_every,
          schedulers, with the statement's clauses as oracles.
"""
from __future__ import annotations

import collections
import random

from sexp import Sym

PROP = "C49"
READY = True
DRIVER = "dm_bag"
LEAN_MODULES = ["DaskModel.Props.C49"]
CASE_TIMEOUT_S = 120
TECHNIQUE = "Lean 4 proof (support of the sampler for every random oracle: invariants over the reservoir loop, the heap selection and the reduction tree) + differential correspondence with recorded random draws"
ASSUMPTIONS = [
    "the module-level `random` functions return values in their documented ranges (randrange(k) < k, choices picks positions of the population)",
    "tuple comparison inside heapq.nlargest is the lexicographic order on (key, index)",
    "the uniformity of the sample is not part of the statement and not claimed",
]
TRUSTED = ["CPython `random`, `heapq`, `math`", "the sync / threaded / multiprocessing schedulers deliver task results unchanged (C01)"]

SIG_K_GT = "sample:k>len(b):ValueError-sample-larger-than-population"


class RecRandom(random.Random):
    """A seeded generator that records what the model's oracle needs."""

    def __init__(self, seed):
        super().__init__(seed)
        self.slots = []
        self.picks = []

    def randrange(self, *a, **kw):
        v = super().randrange(*a, **kw)
        self.slots.append(v)
        return v

    def choices(self, population, weights=None, *, cum_weights=None, k=1):
        out = super().choices(population, weights, cum_weights=cum_weights, k=k)
        self.picks.append([list(population).index(x) for x in out])
        return out


class HeapShim:
    def __init__(self):
        self.calls = []

    def nlargest(self, k, elt, key=None):
        import heapq
        elt = list(elt)
        self.calls.append(elt)
        return heapq.nlargest(k, elt, key=key)

    def __getattr__(self, name):      # anything else of heapq the code may use
        import heapq
        return getattr(heapq, name)


class Patched:
    """Run dask.bag.random with a recording generator, a recording `_geometric` and a recording heapq."""

    def __init__(self, seed):
        self.seed = seed

    def __enter__(self):
        from dask.bag import random as br
        self.br = br
        self.saved = (br.rnd, br._geometric, br.heapq)
        self.rnd = RecRandom(self.seed)
        self.geoms = []
        self.heap = HeapShim()
        orig = br._geometric

        def geometric(p):
            v = orig(p)
            self.geoms.append(v)
            return v

        br.rnd, br._geometric, br.heapq = self.rnd, geometric, self.heap
        return self

    def __exit__(self, *a):
        self.br.rnd, self.br._geometric, self.br.heapq = self.saved
        return False


def mk_bag(parts):
    from dask.bag.core import Bag
    name = "verif-c49-%d" % random.getrandbits(60)
    return Bag({(name, i): list(p) for i, p in enumerate(parts)}, name, len(parts))


def _wrap(pop, how):
    """Elements as the real code sees them: plain ints, or UNHASHABLE values (one-element lists / dicts) that
    compare by value — a sampler must never hash or deduplicate the elements."""
    if how == "list":
        return [[x] for x in pop]
    if how == "dict":
        return [{"v": x} for x in pop]
    return list(pop)


def _unwrap(xs, how):
    if how == "list":
        return [x[0] for x in xs]
    if how == "dict":
        return [x["v"] for x in xs]
    return list(xs)


def _ranks(keys):
    order = {v: i for i, v in enumerate(sorted(set(keys)))}
    return [order[v] for v in keys]


# ----------------------------------------------------------------------------------------------
# function level
# ----------------------------------------------------------------------------------------------

def case_samplemap(ctx, inp):
    pop, k, how = inp["pop"], inp["k"], inp.get("wrap")
    try:
        with Patched(inp["seed"]) as P:
            res, n = P.br._sample_map_partitions(iter(_wrap(pop, how)), k)
    except (ValueError, ZeroDivisionError) as e:   # math domain error of log(0): probability ~2^-53, not the model's concern
        ctx.note("math-domain-error")
        return
    res = _unwrap(res, how)
    if how:
        ctx.branch("unhashable-elements")
    if len(set(pop)) < len(pop):
        ctx.branch("duplicates")
    model = ctx.lean(Sym("samplemap"), k, P.geoms, P.rnd.slots, pop)
    ctx.eq("_sample_map_partitions", model, [list(res), n])
    c1, c2 = collections.Counter(res), collections.Counter(pop)
    if len(res) != min(k, len(pop)) or any(c1[x] > c2[x] for x in c1) or n != len(pop):
        ctx.fail("_sample_map_partitions: reservoir is not a sub-multiset of size min(k, len) / wrong stream length",
                 observed=[list(res), n])
    if P.rnd.slots:
        ctx.branch("reservoir-replacements")
    if len(pop) <= k:
        ctx.branch("partition-not-larger-than-k")
    if k == 0:
        ctx.branch("k=0")


def case_choicesmap(ctx, inp):
    pop, k, how = inp["pop"], inp["k"], inp.get("wrap")
    try:
        with Patched(inp["seed"]) as P:
            res, n = P.br._sample_with_replacement_map_partitions(iter(_wrap(pop, how)), k)
        impl = [Sym("ok"), _unwrap(res, how), n]
    except StopIteration:
        impl = [Sym("raised")]
    except (ValueError, ZeroDivisionError):
        ctx.note("math-domain-error")
        return
    model = ctx.lean(Sym("choicesmap"), k, P.geoms, pop)
    ctx.eq("_sample_with_replacement_map_partitions", model, impl)
    if impl[0] == "ok":
        if len(impl[1]) != k or any(x not in pop for x in impl[1]) or impl[2] != len(pop):
            ctx.fail("_sample_with_replacement_map_partitions: not k elements of the partition", observed=impl[1:])
        if len(P.geoms) > k:
            ctx.branch("reservoir-updates")
    elif pop or k == 0:
        ctx.fail("_sample_with_replacement_map_partitions raised StopIteration on a non-empty partition / k = 0")
    else:
        ctx.branch("empty-partition-raises")


def case_samplereduce(ctx, inp):
    ins, k, how = [(list(s), n) for s, n in inp["inputs"]], inp["k"], inp.get("wrap")
    try:
        with Patched(inp["seed"]) as P:
            res, n = P.br._sample_reduce(iter([(_wrap(s, how), m) for s, m in ins]), k, False)
    except TypeError as e:      # e.g. the elements were hashed / ordered: a sampler may only move them around
        ctx.fail(f"_sample_reduce raised TypeError: {e}", observed=repr(e))
        return
    res = _unwrap(res, how)
    if how:
        ctx.branch("unhashable-elements")
    try:
        keys = _ranks([e[0] for e in P.heap.calls[0]]) if P.heap.calls else []
        if P.heap.calls and [e[1] for e in P.heap.calls[0]] != list(range(len(P.heap.calls[0]))):
            raise TypeError("second components are not the positions")
    except (TypeError, IndexError, KeyError) as e:
        keys = None
        ctx.disagree("_weighted_sampling_without_replacement does not select among (key, position) pairs", "(key_i, i) pairs",
                     repr(P.heap.calls[0])[:200])
    if keys is not None:
        model = ctx.lean(Sym("samplereduce"), k, keys, [[s, m] for s, m in ins])
        ctx.eq("_sample_reduce(replace=False)", model, [list(res), n])
    flat = [x for s, _ in ins for x in s]
    tot = sum(m for _, m in ins)
    c1, c2 = collections.Counter(res), collections.Counter(flat)
    want = len(flat) if (k > tot or k == 0) else min(k, len(flat))
    if any(c1[x] > c2[x] for x in c1) or len(res) != want or n != tot:
        ctx.fail("_sample_reduce: result is not a sub-multiset of the partial samples of the expected size", observed=[list(res), n])
    if P.heap.calls:
        ctx.branch("weighted-selection")
        if len(set(flat)) < min(k, len(flat)):
            ctx.branch("weighted-selection:k-exceeds-distinct-candidates")
    if k > tot:
        ctx.branch("k-exceeds-population:returns-all")


def case_choicesreduce(ctx, inp):
    ins, k, how = [(list(s), n) for s, n in inp["inputs"]], inp["k"], inp.get("wrap")
    try:
        with Patched(inp["seed"]) as P:
            res, n = P.br._sample_reduce(iter([(_wrap(s, how), m) for s, m in ins]), k, True)
        res = _unwrap(res, how)
        impl = [Sym("ok"), list(res), n]
    except IndexError:
        impl = [Sym("raised")]
    picks = P.rnd.picks[0] if P.rnd.picks else []
    model = ctx.lean(Sym("choicesreduce"), k, picks, [[s, m] for s, m in ins])
    ctx.eq("_sample_reduce(replace=True)", model, impl)
    flat = [x for s, _ in ins for x in s]
    if impl[0] == "ok":
        if (k and len(res) != k) or any(x not in flat for x in res):
            ctx.fail("_sample_reduce(replace=True): not k elements of the partial samples", observed=list(res))
        if picks:
            ctx.branch("picks")
    elif flat:
        ctx.fail("_sample_reduce(replace=True) raised on a non-empty population")
    else:
        ctx.branch("empty-population-raises")


def _tree_of(x):
    """Lean `(leaf i)` / `(node d i children…)` ↦ runtime shape."""
    if x[0] == "leaf":
        return ["leaf", x[1]]
    return ["node", [_tree_of(c) for c in x[3:]]]


def case_tree(ctx, inp):
    """Runtime structure of Bag.reduction (which partitions are skipped, how results are grouped)."""
    sizes, se = inp["sizes"], inp["se"]
    parts = [[i] * n for i, n in enumerate(sizes)]
    b = mk_bag(parts)
    red = b.reduction(lambda p: ["leaf", (list(p) or [0])[0]], lambda xs: ["node", list(xs)], split_every=se)
    impl = red.compute(scheduler="sync")
    se_eff = 8 if se is None else (len(sizes) if se is False else se)
    model = ctx.lean(Sym("tree"), se_eff, sizes)
    ctx.eq("Bag.reduction runtime tree", _tree_of(model), impl)
    # graph level: number of aggregate tasks per level
    lv = collections.Counter()
    for key in dict(red.dask):
        if isinstance(key, tuple) and "aggregate" in key[0]:
            suffix = key[0].rsplit("-", 1)[-1]
            depth = suffix[32:]
            if depth != "":
                lv[int(depth)] += 1
    ctx.eq("aggregate tasks per level", ctx.lean(Sym("levelsizes"), se_eff, len(sizes)),
           [lv[d] for d in sorted(lv)])
    if lv:
        ctx.branch("multi-level-tree")
    if 0 in sizes and len(sizes) > 1:
        ctx.branch("skipped-empty-partition")
    if len(lv) > 1:
        ctx.branch("three-or-more-levels")


def _keep_bits(states, parts, prob):
    out = []
    for st, p in zip(states, parts):
        r = random.Random()
        r.setstate(st)
        out.append([1 if r.random() < prob else 0 for _ in p])
    return out


def case_randomsample(ctx, inp):
    """Bag.random_sample: subsequence, same on every scheduler / recomputation, partition i uses state i."""
    from dask.bag.core import random_state_data_python
    parts, prob, seed = inp["parts"], inp["prob"], inp["seed"]
    b = mk_bag(parts)
    if inp.get("instance"):
        # a random.Random instance as random_state: two equal instances must give the same sample
        s1 = list(mk_bag(parts).random_sample(prob, random.Random(seed)).compute(scheduler="sync"))
        s2 = list(mk_bag(parts).random_sample(prob, random.Random(seed)).compute(scheduler="threads"))
        if s1 != s2:
            ctx.fail("random_sample with equal random.Random instances differs", observed=[s1, s2])
        ctx.branch("random-instance")
    s = b.random_sample(prob, seed)
    r1 = s.map_partitions(list).compute(scheduler="sync")
    nparts = s.npartitions
    got_parts = list(s.map_partitions(lambda p: [list(p)]).compute(scheduler="sync")) if inp.get("by_part") else None
    r2 = mk_bag(parts).random_sample(prob, seed).compute(scheduler="threads")
    r3 = s.compute(scheduler="sync")
    if not (list(r1) == list(r2) == list(r3)):
        ctx.fail("random_sample with a fixed random_state differs between schedulers / recomputations",
                 observed=[list(r1), list(r2), list(r3)])
    if inp.get("processes"):
        r4 = mk_bag(parts).random_sample(prob, seed).compute(scheduler="processes", num_workers=2)
        if list(r4) != list(r1):
            ctx.fail("random_sample differs on the multiprocessing scheduler", observed=[list(r1), list(r4)])
        ctx.branch("processes-scheduler")
    flat = [x for p in parts for x in p]
    it = iter(flat)
    if not all(any(x == y for y in it) for x in r1):
        ctx.fail("random_sample result is not a subsequence of the bag", observed=list(r1))
    keeps = _keep_bits(random_state_data_python(len(parts), random.Random(seed)), parts, prob)
    model = ctx.lean(Sym("randomsample"), keeps, parts)
    ctx.eq("random_sample partitions", [x for p in model for x in p], list(r1))
    if got_parts is not None:
        ctx.eq("random_sample per partition", model, got_parts)
    if 0 < len(r1) < len(flat):
        ctx.branch("proper-subsequence")
    if any(not p for p in parts):
        ctx.branch("empty-partition")


# ----------------------------------------------------------------------------------------------
# API level
# ----------------------------------------------------------------------------------------------

def _run(f, b, k, se, sched, seed):
    kw = {"num_workers": 2} if sched == "processes" else {}
    random.seed(seed)
    return list(f(b, k, split_every=se).compute(scheduler=sched, **kw))


def case_sample(ctx, inp):
    from dask.bag import random as br
    parts, k, se, how = inp["parts"], inp["k"], inp["se"], inp.get("wrap")
    flat = [x for p in parts for x in p]
    b = mk_bag([_wrap(p, how) for p in parts])
    if how:
        ctx.branch("unhashable-elements")
    try:
        r = _unwrap(_run(br.sample, b, k, se, inp.get("sched", "sync"), inp["seed"]), how)
    except ValueError as e:
        if "Sample larger than population" in str(e) and k > len(flat):
            ctx.fail("sample(b, k) with k > len(b) raises ValueError instead of returning all of b", sig=SIG_K_GT,
                     observed="ValueError: " + str(e), expected=sorted(flat))
            ctx.branch("k>len")
        else:
            ctx.fail("sample raised ValueError: " + str(e), observed=str(e))
        return
    except Exception as e:
        ctx.fail(f"sample raised {type(e).__name__}: {e}", observed=repr(e))
        return
    c1, c2 = collections.Counter(r), collections.Counter(flat)
    if k <= len(flat):
        if len(r) != k or any(c1[x] > c2[x] for x in c1):
            ctx.fail("sample is not a sub-multiset of b of size k", observed=r, expected=["size", k])
    elif c1 != c2:
        ctx.fail("sample with k > len(b) is not all of b", observed=r, expected=sorted(flat))
    if k == 0:
        ctx.branch("k=0")
    elif k == len(flat):
        ctx.branch("k=len")
    if any(not p for p in parts) and len(parts) > 1:
        ctx.branch("empty-partition")
    if len(set(flat)) < len(flat):
        ctx.branch("duplicates")
        if len(set(flat)) < k <= len(flat):
            ctx.branch("duplicates:k-exceeds-distinct-values")
    if se and len(parts) > se:
        ctx.branch("multi-level-tree")


def case_choices(ctx, inp):
    from dask.bag import random as br
    parts, k, se, how = inp["parts"], inp["k"], inp["se"], inp.get("wrap")
    flat = [x for p in parts for x in p]
    b = mk_bag([_wrap(p, how) for p in parts])
    try:
        r = _unwrap(_run(br.choices, b, k, se, inp.get("sched", "sync"), inp["seed"]), how)
    except Exception as e:
        if not flat and k > 0:
            ctx.branch("empty-population:raises")      # no element to choose from: raising is the only option
        else:
            ctx.fail(f"choices raised {type(e).__name__}: {e}", observed=repr(e))
        return
    if len(r) != k or any(x not in flat for x in r):
        ctx.fail("choices does not return k elements of b", observed=r)
    if k == 0:
        ctx.branch("k=0")
    if k > len(flat):
        ctx.branch("k>len")
    if any(not p for p in parts) and len(parts) > 1:
        ctx.branch("empty-partition")
    if se and len(parts) > se:
        ctx.branch("multi-level-tree")


def case_args(ctx, inp):
    """Argument checks the docstrings promise: negative k (sample), prob outside [0, 1] (random_sample)."""
    from dask.bag import random as br
    b = mk_bag([[1, 2], [3]])
    try:
        br.sample(b, -1)
        ctx.fail("sample(b, -1) did not raise ValueError")
    except ValueError:
        ctx.branch("args:negative-k")
    for prob in (-0.1, 1.5):
        try:
            b.random_sample(prob, 0)
            ctx.fail(f"random_sample({prob}) did not raise ValueError")
        except ValueError:
            ctx.branch("args:prob-out-of-range")
    for prob, want in ((0.0, []), (1.0, [1, 2, 3])):
        got = list(b.random_sample(prob, inp["seed"]).compute(scheduler="sync"))
        if got != want:
            ctx.fail(f"random_sample({prob}) is not {'nothing' if not want else 'everything'}", observed=got, expected=want)


CASES = {"args": case_args, "samplemap": case_samplemap, "choicesmap": case_choicesmap, "samplereduce": case_samplereduce,
         "choicesreduce": case_choicesreduce, "tree": case_tree, "randomsample": case_randomsample,
         "sample": case_sample, "choices": case_choices}


# ----------------------------------------------------------------------------------------------
# generators
# ----------------------------------------------------------------------------------------------

def gen_parts(rng, maxparts=7, maxlen=6, dup=True):
    n = rng.randint(1, maxparts)
    hi = rng.choice([2, 4, 50]) if dup else 10 ** 6
    parts = []
    for _ in range(n):
        ln = rng.choice([0, 0, 1, 2, 3, maxlen, rng.randint(0, maxlen)])
        parts.append([rng.randint(0, hi) for _ in range(ln)])
    return parts


def gen_inputs(rng, k, dup=False):
    """Plausible inputs of a reduce node: (sample of size min(k, n_i), n_i); elements unique, or (dup) drawn from
    a handful of values so that k exceeds the number of DISTINCT candidates."""
    uid = iter(range(1000))
    hi = rng.choice([0, 1, 2, 4])
    out = []
    for _ in range(rng.randint(0, 5)):
        n = rng.choice([0, 1, 2, 5, 9, rng.randint(0, 12)])
        out.append([[rng.randint(0, hi) if dup else next(uid) for _ in range(min(k, n))], n])
    return out


def gen_pop(rng, n):
    r = rng.random()
    if r < 0.5:
        return list(range(100, 100 + n))
    hi = rng.choice([0, 1, 3, 8])
    return [rng.randint(0, hi) for _ in range(n)]


WRAPS = [None, None, None, "list", "dict"]


def generate(ctx):
    rng = ctx.rng
    for _ in range(ctx.n(500, 6000)):
        n = rng.choice([0, 1, 2, 5, 10, 30, rng.randint(0, 60)])
        k = rng.choice([0, 1, 1, 2, 3, 5, 8, n, n + 1])
        yield "samplemap", {"pop": gen_pop(rng, n), "k": k, "seed": rng.getrandbits(32), "wrap": rng.choice(WRAPS)}
    for _ in range(ctx.n(300, 4000)):
        n = rng.choice([0, 1, 2, 5, 10, 30, rng.randint(0, 60)])
        yield "choicesmap", {"pop": gen_pop(rng, n), "k": rng.choice([0, 1, 2, 3, 5, 8]), "seed": rng.getrandbits(32),
                             "wrap": rng.choice(WRAPS)}
    for _ in range(ctx.n(400, 5000)):
        k = rng.choice([0, 1, 2, 3, 5, 8, 20])
        yield "samplereduce", {"inputs": gen_inputs(rng, k, rng.random() < 0.5), "k": k, "seed": rng.getrandbits(32),
                               "wrap": rng.choice(WRAPS)}
        k = rng.choice([0, 1, 2, 3, 5, 8])
        yield "choicesreduce", {"inputs": gen_inputs(rng, k, rng.random() < 0.4), "k": k, "seed": rng.getrandbits(32),
                                "wrap": rng.choice(WRAPS)}
    # tree shapes: exhaustive small emptiness patterns + random
    for n in range(1, 6 if not ctx.thorough() else 9):
        for mask in range(2 ** n):
            for se in (2, 3):
                yield "tree", {"sizes": [(mask >> i) & 1 for i in range(n)], "se": se}
    for _ in range(ctx.n(60, 800)):
        n = rng.randint(1, 40)
        yield "tree", {"sizes": [rng.choice([0, 1, 1, 2]) for _ in range(n)], "se": rng.choice([2, 3, 4, 8, None, False])}
    yield "randomsample", {"parts": [[1, 2, 3, 4], [], [5, 6, 7], [8]], "prob": 0.5, "seed": 1234, "by_part": True,
                           "processes": True}      # one multiprocessing run in every tier
    for sd in (0, 0, 1):      # random_state = 0 is falsy: it must still be a fixed seed
        yield "randomsample", {"parts": [[1, 2, 3, 4, 5, 6], [7, 8, 9], [], [10, 11, 12, 13]], "prob": 0.5, "seed": sd,
                               "by_part": True, "instance": True}
    for _ in range(ctx.n(120, 1200)):
        parts = gen_parts(rng)
        yield "randomsample", {"parts": parts, "prob": rng.choice([0.0, 0.2, 0.5, 0.5, 0.8, 1.0]),
                               "seed": rng.choice([0, rng.getrandbits(30), rng.getrandbits(30), rng.getrandbits(4)]),
                               "by_part": rng.random() < 0.3, "instance": rng.random() < 0.15,
                               "processes": ctx.thorough() and rng.random() < 0.02}
    yield "args", {"seed": rng.getrandbits(20)}
    if ctx.thorough():
        # exhaustive small space: every split of a small population with duplicates into <= 3 partitions, every k, split_every
        for pop in ([0, 0, 1], [2, 2, 2, 2], [0, 1, 1, 2, 0]):
            n = len(pop)
            for c1 in range(n + 1):
                for c2 in range(c1, n + 1):
                    parts = [pop[:c1], pop[c1:c2], pop[c2:]]
                    for k in range(0, n + 2):
                        for se in (None, 2):
                            yield "sample", {"parts": parts, "k": k, "se": se, "seed": rng.getrandbits(30)}
                            yield "choices", {"parts": parts, "k": k, "se": se, "seed": rng.getrandbits(30)}
    yield "sample", {"parts": [[0], [1], [2]], "k": 4, "se": None, "seed": 0}
    # duplicates with k beyond the number of distinct values (a sampler keyed by VALUE collapses them)
    yield "sample", {"parts": [[7, 7, 7], [7, 7]], "k": 4, "se": None, "seed": 1}
    yield "sample", {"parts": [[1, 1], [2, 2], [1, 2], [1], [2]], "k": 7, "se": 2, "seed": 2, "wrap": "dict"}
    yield "samplereduce", {"inputs": [[[5, 5, 5], 4], [[5, 5], 2]], "k": 3, "seed": 3}
    yield "sample", {"parts": [[1, 2], [3]], "k": 0, "se": None, "seed": 0}
    yield "choices", {"parts": [[1, 2], [3]], "k": 0, "se": None, "seed": 0}
    for _ in range(ctx.n(220, 2500)):
        parts = gen_parts(rng)
        n = sum(map(len, parts))
        k = rng.choice([0, 1, 2, max(0, n - 1), n, n, n + 1, rng.randint(0, n + 2)])
        se = rng.choice([None, 2, 3, 4, False])
        sched = "threads" if rng.random() < 0.2 else "sync"
        if ctx.thorough() and rng.random() < 0.01:
            sched = "processes"
        wrap = rng.choice(WRAPS)
        yield "sample", {"parts": parts, "k": k, "se": se, "seed": rng.getrandbits(30), "sched": sched, "wrap": wrap}
        yield "choices", {"parts": parts, "k": rng.choice([0, 1, 2, 3, n, n + 3]), "se": se,
                          "seed": rng.getrandbits(30), "sched": sched, "wrap": wrap}


LEVEL_TEXT = (
    "Lean theorems for an ARBITRARY random oracle, every partitioning (empty partitions included) and split_every >= 2: "
    "sample_submultiset (k <= |b|: a sub-multiset of exactly k elements; reservoir, heap selection and the whole reduction tree via "
    "an invariant principle for Bag.reduction), choices_elements_of_b and choices_total (non-empty bag: k elements of b, no error), "
    "random_sample subsequence + function of (keep bits, partitioning). The clause 'all of b when k exceeds its size' is refuted for "
    "the code (ValueError for every oracle; demanded by a pinned test) and recorded as a known finding. Uniformity is not claimed. "
    "Validated only: that the recorded draws are ALL the randomness the code uses and that elements are only moved, never hashed or "
    "compared (function- and API-level diffs on populations with duplicates — k beyond the number of distinct values — and unhashable "
    "elements), random_state_data_python (the per-partition generator states), delivery of results by the schedulers.")
LEVEL_NOTE = (
    "Trusted: Lean kernel + standard axioms; the correspondence harness (recorded random draws handed to the model as its "
    "oracle; API-level clauses on sync/threads/processes schedulers); CPython random/heapq. Uniformity of the sample is not claimed.")
