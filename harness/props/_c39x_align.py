"""C39 extension round — the ALIGNMENT step of index joins, concat(axis=1) and aligned operators.

Model:    lean/DaskModel/Model/AlignDivs.lean (commonDivs, calcDivisionsForAlign, maybeAlignDivisions, maybeAlignLower,
          concatAxis1Divisions, mergeIndexedDivisions, alignAll / applyPlan on C44's repartitionDivisions)
Theorems: lean/DaskModel/Props/C39xAlignDivs.lean
Sections (merged into c39.py):
  align_divs   function level, no compute: `calc_divisions_for_align`, `MaybeAlignPartitions._divisions`,
               `MaybeAlignPartitions._lower` (which plan: as they are / SetDivisions / Repartition(force=True) onto which
               divisions), `Concat._divisions` + `_lower` for axis=1, `Merge._lower` of a fully indexed merge — each vs the
               Lean function on generated division tuples (ints / strs, duplicated end divisions, single-partition frames,
               single-value frames (d, d), disjoint ranges, equal divisions, 1-4 frames); property oracle on the REAL
               divisions (strictly increasing or (d, d); every frame division present; nothing invented; spans min..max)
  align_apply  the operands the real `_lower()` hands to the blockwise operation, computed: row ids per partition of every
               frame vs Lean `applyPlan`; oracles on the real partitions: rows kept in order, truthful for the common
               divisions, rows with equal index value in the same partition number in every frame; end to end
               `x.v + y.v` / `dd.concat(axis=1)` vs pandas.
Strings: the generator draws integer vectors; the string flavour maps v -> WORDS[v] (WORDS sorted, so the map is strictly
monotone and the model, which sees the integers, is the order-isomorphic image).
"""
from __future__ import annotations

from sexp import Sym

from props import _dfpart_util as U

WORDS = sorted({a + b for a in ("", "a", "b", "k", "ka", "z", "zy") for b in ("a", "ab", "b", "ba", "m", "mm", "y", "z", "zz")})[:45]
assert len(WORDS) == 45 and all(a < b for a, b in zip(WORDS, WORDS[1:]))


def _val(v, as_str):
    return WORDS[v] if as_str else int(v)


def _mkframe(keys_parts, divs, as_str, start=0, col="v"):
    """dask frame with explicit partitions (index = the keys, column `col` = global row id) and known divisions"""
    import pandas as pd
    dd = U.dd()
    parts, pos = [], start
    for ks in keys_parts:
        idx = pd.Index([_val(k, as_str) for k in ks], dtype=object if as_str else "int64")
        p = pd.DataFrame({col: pd.Series(list(range(pos, pos + len(ks))), dtype="int64").values}, index=idx)
        parts.append(p)
        pos += len(ks)
    meta = parts[0].iloc[:0]
    return dd.from_map(U._Getter(parts), list(range(len(parts))), meta=meta, divisions=tuple(_val(d, as_str) for d in divs))


def _tuple_align_cls():
    """a MaybeAlignPartitions whose blockwise class just returns the operands `_lower` prepared: the REAL `_divisions` /
    `_lower` run on any number of frames. Module-level so that dask can tokenize the class."""
    g = globals()
    if "TupleAlign" not in g:
        U.dd()
        from dask.dataframe.dask_expr import _expr as E

        class TupleAlign(E.MaybeAlignPartitions):
            _expr_cls = staticmethod(lambda *ops: ops)
        TupleAlign.__module__ = __name__
        TupleAlign.__qualname__ = "TupleAlign"
        g["TupleAlign"] = TupleAlign
    return g["TupleAlign"]


def _back(vals, as_str):
    """real division values -> the integers of the model"""
    out = []
    for v in vals:
        out.append(WORDS.index(v) if as_str else int(v))
    return out


def _classify(ops, exprs, as_str):
    kinds = [type(o).__name__ for o in ops]
    if all(k in ("Repartition", "RepartitionDivisions") for k in kinds):
        nd = [list(o.operand("new_divisions")) for o in ops]
        forces = [bool(o.operand("force")) for o in ops]
        if any(d != nd[0] for d in nd) or not all(forces):
            return ["mixed", kinds]
        return ["repartition", _back(nd[0], as_str)]
    if all(k == "SetDivisions" for k in kinds):
        nd = [list(o.operand("divisions")) if "divisions" in o._parameters else list(o.divisions) for o in ops]
        return ["setdivs", _back(nd[0], as_str)] if all(d == nd[0] for d in nd) else ["mixed", kinds]
    if all(o._name == e._name for o, e in zip(ops, exprs)):
        return ["asis"]
    return ["mixed", kinds]


def _oracle_common(ctx, what, c, ds):
    """clauses of common_divisions_sorted_unique / common_divisions_cover on the real output `c` (model integers)"""
    strict = all(a < b for a, b in zip(c, c[1:])) and len(c) >= 2
    if not (strict or (len(c) == 2 and c[0] == c[1])):
        ctx.fail(f"{what}: common divisions neither strictly increasing (>= 2 entries) nor (d, d)", observed=[c, ds])
    allv = {v for d in ds for v in d}
    if set(c) != allv:
        ctx.fail(f"{what}: common divisions are not exactly the divisions of the frames (dropped or invented boundary)",
                 observed=[c, ds])


def case_align_divs(ctx, inp):
    dd = U.dd()
    from dask.dataframe.dask_expr import _expr as E
    ds, as_str = inp["divs"], bool(inp.get("str"))
    frames = [_mkframe([[] for _ in d[1:]], d, as_str, col="c%d" % i) for i, d in enumerate(ds)]
    exprs = [f.expr for f in frames]
    flavour = "str" if as_str else "int"
    # calc_divisions_for_align
    real = ["ok", _back(list(E.calc_divisions_for_align(*exprs)), as_str)]
    ctx.eq("calc_divisions_for_align", ctx.lean(Sym("align-divs"), Sym("calc"), ds), real)
    same = all(d == ds[0] for d in ds)
    if not same:
        _oracle_common(ctx, "calc_divisions_for_align", real[1], ds)
    # MaybeAlignPartitions._divisions / _lower on all frames
    t = _tuple_align_cls()(*exprs)
    rd = t._divisions()
    ctx.eq("MaybeAlignPartitions._divisions", ctx.lean(Sym("align-divs"), Sym("maybe"), ds), ["ok", _back(list(rd), as_str)])
    plan = _classify(list(t._lower()), exprs, as_str)
    ctx.eq("MaybeAlignPartitions._lower (plan)", ctx.lean(Sym("align-lower"), ds), ["ok", plan])
    if plan[0] == "repartition":
        _oracle_common(ctx, "MaybeAlignPartitions._lower", plan[1], ds)
    elif plan[0] == "setdivs":
        allv = [v for d in ds for v in d]
        if plan[1] != [min(allv), max(allv)]:
            ctx.fail("single-partition frames: SetDivisions not (min, max) of all divisions", observed=[plan, ds])
    ctx.branch("align_divs-%s-%s-%d-frames" % (plan[0], flavour, len(ds)))
    if any(len(d) >= 3 and d[-1] == d[-2] for d in ds):
        ctx.branch("align_divs-duplicated-end-division")
    if any(len(d) == 2 and d[0] == d[1] for d in ds):
        ctx.branch("align_divs-single-value-frame")
    if any(len(d) == 2 for d in ds) and any(len(d) > 2 for d in ds):
        ctx.branch("align_divs-single-partition-frame-among-others")
    srt = sorted(ds, key=lambda d: d[0])
    if len(ds) > 1 and all(a[-1] < b[0] for a, b in zip(srt, srt[1:])):
        ctx.branch("align_divs-disjoint-ranges")
    if same and len(ds) > 1:
        ctx.branch("align_divs-equal-divisions")
    # binary operator between two series: OpAlignPartitions has its own copy of the decision
    if len(ds) == 2:
        r = frames[0].c0 + frames[1].c1
        e = r.expr
        if type(e).__name__ == "OpAlignPartitions":
            low = e._lower()
            ops = [o for o in low.operands if isinstance(o, E.Expr)]
            srcs = [e.frame, e.other]
            ctx.eq("OpAlignPartitions._lower (plan)", ctx.lean(Sym("align-lower"), ds), ["ok", _classify(ops, srcs, as_str)])
            ctx.eq("OpAlignPartitions.divisions", ctx.lean(Sym("align-divs"), Sym("maybe"), ds), ["ok", _back(list(e._divisions()), as_str)])
            ctx.branch("align_divs-binop")
    # Concat(axis=1)
    if len(ds) >= 2:
        c = dd.concat(frames, axis=1)
        ce = c.expr
        if type(ce).__name__ == "Concat":
            ctx.eq("Concat._divisions(axis=1)", ctx.lean(Sym("align-divs"), Sym("concat1"), ds), ["ok", _back(list(ce._divisions()), as_str)])
            low = ce._lower()
            reps = [o for o in low.operands if isinstance(o, E.Expr)]
            if type(low).__name__ == "StackPartitionInterleaved":
                cl = _classify(reps, ce._frames, as_str)
                ctx.eq("Concat._lower(axis=1): every frame repartitioned onto the common divisions",
                       ["repartition", ctx.lean(Sym("align-divs"), Sym("common"), ds)[1]], cl)
                ctx.branch("align_divs-concat1-repartitioned")
            else:
                ctx.branch("align_divs-concat1-" + type(low).__name__)
    # fully indexed merge
    if len(ds) == 2 and len(ds[0]) > 2 and len(ds[1]) > 2:
        from dask.dataframe.dask_expr._merge import Merge
        m = frames[0].merge(frames[1], left_index=True, right_index=True, how=inp.get("how", "outer"))
        me = next(x for x in m.expr.walk() if isinstance(x, Merge))
        low = me._lower()
        cl = _classify([low.left, low.right], [me.left, me.right], as_str)
        ctx.eq("Merge._lower (fully indexed): both sides repartitioned onto the union",
               ["repartition", ctx.lean(Sym("align-divs"), Sym("merge"), ds)[1]], cl)
        ctx.branch("align_divs-indexed-merge")


def case_align_apply(ctx, inp):
    import dask
    import pandas as pd
    dd = U.dd()
    from dask.dataframe.dask_expr._collection import new_collection
    as_str = bool(inp.get("str"))
    specs = inp["frames"]
    ds = [f["divs"] for f in specs]
    frames, rows, pos, starts = [], [], 0, []
    for i, f in enumerate(specs):
        starts.append(pos)
        frames.append(_mkframe(f["keys"], f["divs"], as_str, start=pos, col="c%d" % i))
        fr = []
        for ks in f["keys"]:
            fr.append([[int(k), pos + t] for t, k in enumerate(ks)])
            pos += len(ks)
        rows.append(fr)
    exprs = [f.expr for f in frames]
    t = _tuple_align_cls()(*exprs)
    try:
        with dask.config.set(scheduler="sync"):
            ops = list(t._lower())
            got = [U.partitions(new_collection(o)) for o in ops]
    except Exception as e:  # noqa: BLE001
        ctx.fail("aligning frames with known divisions raised: " + U.exc_name(e), observed=[U.exc_name(e), ds])
        return
    plan = _classify(ops, exprs, as_str)
    real_ids = [[[int(v) for v in p.iloc[:, 0]] for p in parts] for parts in got]
    model = ctx.lean(Sym("align-apply"), ds, rows)
    ctx.eq("partitions handed to the blockwise operation (Lean applyPlan vs the real lowered operands)", model, ["ok", real_ids])
    # oracles on the REAL partitions
    for i, parts in enumerate(real_ids):
        if [v for p in parts for v in p] != [r[1] for p in rows[i] for r in p]:
            ctx.fail("alignment does not keep the rows of a frame in order", observed=[ds, i, parts])
    where = {}
    for i, parts in enumerate(got):
        for pn, p in enumerate(parts):
            for k in p.index:
                where.setdefault(k, set()).add(pn)
    bad = {str(k): sorted(v) for k, v in where.items() if len(v) > 1}
    if bad:
        ctx.fail("rows with equal index value sit in different partition numbers after the alignment step",
                 observed=[ds, plan, bad])
    if plan[0] in ("repartition", "setdivs"):
        cd = [_val(v, as_str) for v in plan[1]]
        for parts in got:
            why = U.truthful(cd, parts)
            if why:
                ctx.fail("aligned frame not truthful for the common divisions: " + why, observed=[ds, plan])
    ctx.branch("align_apply-%s-%s-%d-frames" % (plan[0], "str" if as_str else "int", len(ds)))
    # end to end against pandas (keys unique inside each frame)
    if inp.get("unique") and len(frames) >= 2:
        pfs = []
        for i, f in enumerate(specs):
            ks = [k for p in f["keys"] for k in p]
            start = starts[i]
            pfs.append(pd.DataFrame({"c%d" % i: pd.Series(range(start, start + len(ks)), dtype="int64").values},
                                    index=pd.Index([_val(k, as_str) for k in ks], dtype=object if as_str else "int64")))
        try:
            with dask.config.set(scheduler="sync"):
                s = (frames[0].c0 + frames[1].c1).compute()
                c = dd.concat(frames, axis=1).compute()
        except Exception as e:  # noqa: BLE001
            ctx.fail("aligned operator / concat(axis=1) raised: " + U.exc_name(e), observed=[U.exc_name(e), ds])
            return
        es = pfs[0].c0 + pfs[1].c1
        canon = lambda x: sorted([(str(k), None if v != v else float(v)) for k, v in x.items()], key=repr)   # noqa: E731
        if canon(s) != canon(es):
            ctx.fail("x + y on frames with different known divisions differs from pandas", observed=canon(s)[:20], expected=canon(es)[:20])
        ec = pd.concat(pfs, axis=1)
        cols = list(ec.columns)
        cf = lambda x: sorted([(str(k),) + tuple(None if v != v else float(v) for v in row) for k, row in zip(x.index, x[cols].itertuples(index=False))], key=repr)   # noqa: E731
        if sorted(c.columns) != sorted(cols) or cf(c) != cf(ec):
            ctx.fail("concat(axis=1) on frames with different known divisions differs from pandas", observed=cf(c)[:20] if sorted(c.columns) == sorted(cols) else list(c.columns), expected=cf(ec)[:20])
        ctx.branch("align_apply-end-to-end-" + plan[0])


CASES = {"align_divs": case_align_divs, "align_apply": case_align_apply}


def _rand_ds(rng, nframes=None):
    """a list of legal division vectors over 0..44 exercising the special shapes"""
    k = nframes or rng.choice([1, 2, 2, 2, 3, 3, 4])
    mode = rng.random()
    hi = rng.choice([8, 14, 25, 44])
    ds = []
    if mode < 0.12:                                    # all single-partition frames (some single-value)
        for _ in range(k):
            ds.append(U.rand_divisions(rng, 1, lo=0, hi=hi, single_last=rng.random() < 0.3))
    elif mode < 0.22:                                  # all divisions equal (possibly with a duplicated end)
        d = U.rand_divisions(rng, rng.randint(1, 4), lo=0, hi=hi)
        ds = [list(d) for _ in range(k)]
    elif mode < 0.32:                                  # disjoint ranges
        lo = 0
        for _ in range(k):
            n = rng.randint(1, 3)
            d = U.rand_divisions(rng, n, lo=lo, hi=min(44, lo + n + rng.randint(1, 5)))
            ds.append(d)
            lo = d[-1] + 1
            if lo > 38:
                break
        rng.shuffle(ds)
    else:
        for _ in range(k):
            lo = rng.choice([0, 0, 0, 3, 6])
            n = rng.choice([1, 1, 2, 2, 3, 4])
            ds.append(U.rand_divisions(rng, n, lo=lo, hi=max(hi, lo + n + 1)))
        if rng.random() < 0.3 and len(ds) > 1:         # equal up to a duplicated end division
            base = [v for v in ds[0]]
            if len(base) >= 2 and base[-1] != base[-2]:
                ds[1] = base + [base[-1]]
        if rng.random() < 0.2 and len(ds) > 1:         # one frame holds a single value that is a boundary of another
            v = rng.choice(ds[0])
            ds[-1] = [v, v]
    return ds


def generate(ctx):
    rng = ctx.rng
    for _ in range(ctx.n(200, 2600)):
        yield "align_divs", {"divs": _rand_ds(rng), "str": rng.random() < 0.4, "how": rng.choice(["inner", "left", "right", "outer"])}
    if ctx.thorough():
        import itertools
        vecs = [list(v) for n in (2, 3) for v in itertools.combinations(range(4), n)] + [[0, 0], [2, 2], [3, 3], [0, 2, 2], [1, 3, 3], [0, 1, 3, 3]]
        for a in vecs:
            for b in vecs:
                yield "align_divs", {"divs": [a, b], "str": False}
    for _ in range(ctx.n(36, 450)):
        ds = _rand_ds(rng, nframes=rng.choice([2, 2, 2, 3]))
        if len(ds) < 2:
            ds = ds + [list(ds[0])]
        unique = rng.random() < 0.6
        frames = [{"divs": d, "keys": U.rand_truthful_parts(rng, d, maxrows=4, p_empty=0.2, dup=not unique)} for d in ds]
        yield "align_apply", {"frames": frames, "str": rng.random() < 0.35, "unique": unique}
