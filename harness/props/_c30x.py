"""C30 extension round: the n-d expression model (lean/DaskModel/Model/ArrayExprNd.lean) tied to the real optimizer.

Section `tracend`: random n-d integer pipelines (broadcasting elementwise ops, slicing with any step / integers /
newaxis, rechunk, transpose, concatenate, stack, map_blocks, reductions) run in the query-planning child; the child replays
`simplify_once` / `lower_once` and exports every tree in the n-d AST (`node_nd`). Parent:
  * value / shape vs NumPy, lazily reported chunks vs the classic engine;
  * per-node chunks of every exported tree: model (`ndchunks`) vs engine;
  * trees without opaque nodes: the Lean denotation (`ndeval`) = the computed value;
  * every (before, after) pair of consecutive trees must be accepted by the proved checker `parStepNd` (`ndstep`);
  * every Elemwise with two array operands: `unify_chunks_expr` on the real operands vs `unify` / `alignTarget` (`ndunify`).
The evidence counts the real passes inside the fully modelled subset, with opaque operands, and rejected ones.
"""
from __future__ import annotations

import json

import numpy as np

from sexp import Sym
from props import _reduce_util as U
from props import _c30_prog as P


def to_sexp(n):
    t = n["t"]
    if t == "leaf":
        return [Sym("leaf"), n["shape"], [int(v) for v in n["data"]], n["chunks"]]
    if t == "un":
        return [Sym("un"), Sym(n["op"]), to_sexp(n["a"])]
    if t == "bin":
        return [Sym("bin"), Sym(n["op"]), to_sexp(n["a"]), to_sexp(n["b"])]
    if t == "bins":
        return [Sym("bins"), Sym(n["op"]), to_sexp(n["a"]), int(n["s"])]
    if t == "slice":
        return [Sym("slice"), [[Sym(i[0])] + list(i[1:]) for i in n["ix"]], to_sexp(n["a"])]
    if t == "rechunk":
        return [Sym("rechunk"), n["chunks"], to_sexp(n["a"])]
    if t == "transpose":
        return [Sym("transpose"), n["axes"], to_sexp(n["a"])]
    if t == "concat":
        return [Sym("concat"), n["axis"], [to_sexp(k) for k in n["kids"]]]
    if t == "opq":
        return [Sym("opq"), n["tag"], n["chunks"], [to_sexp(k) for k in n["kids"]]]
    if t == "finalize":
        return [Sym("finalize"), to_sexp(n["a"])]
    raise KeyError(t)


def kids_of(n):
    out = [n[k] for k in ("a", "b") if k in n]
    return out + list(n.get("kids", []))


def walk(n):
    yield n
    for k in kids_of(n):
        yield from walk(k)


def preorder_nc(n):
    return [x.get("nc") for x in walk(n)]


def case_tracend(ctx, inp, ask, da):
    prog = inp["prog"]
    ref = np.asarray(P.build(prog, np, False))
    ans = ask({"prog": prog, "trace": "nd"})
    if ans["status"] != "ok":
        ctx.fail(f"expression engine failed on an n-d pipeline of supported operations: {ans['status']}: {ans.get('error')}",
                 observed=ans.get("error"))
        return
    val = P.dec_value(ans["value"])
    exact = ref.dtype.kind in "iub"
    if val.shape != ref.shape or not U.same_values(val, ref, exact, U.fsum_abs(ref)):
        ctx.fail("expression engine value differs from NumPy", observed=val.tolist(), expected=ref.tolist())
    classic = P.build(prog, da, True)
    if [list(map(int, c)) for c in classic.chunks] != ans["lazy_chunks"]:
        ctx.fail("expression engine chunks differ from the classic engine", observed=ans["lazy_chunks"],
                 expected=[list(map(int, c)) for c in classic.chunks])
    if ans["opt_chunks"] != ans["lazy_chunks"]:
        ctx.fail("optimized expression reports different chunks than the unoptimized one", observed=ans["opt_chunks"], expected=ans["lazy_chunks"])
    passes = ans["passes"]
    if any(st == "no-convergence" for st, _ in passes):
        ctx.fail("optimizer did not converge within 50 passes")
        return
    prev, prev_tree = None, None
    for stage, tree in passes:
        nodes = list(walk(tree))
        if any(x["t"] == "bad" for x in nodes):
            ctx.branch("nd: node without chunks (not exported)")
            return
        opaque = sorted({x["name"] for x in nodes if x["t"] == "opq"})
        sx = to_sexp(tree)
        # per-node chunks: model vs engine (the finalize node has no chunks property in the engine)
        model_nc = ctx.lean(Sym("ndchunks"), sx)
        impl_nc = preorder_nc(tree)
        model_nc = [None if impl is None else m for m, impl in zip(model_nc, impl_nc)]
        ctx.eq(f"nd: per-node chunks after pass '{stage}' (model vs engine)", model_nc, impl_nc)
        if not opaque:
            r = ctx.lean(Sym("ndeval"), sx)
            if r[0] != "ok":
                ctx.disagree(f"nd: model says the {stage} expression does not denote a value", r[0], val.tolist())
                return
            ctx.eq(f"nd: denotation of the expression after pass '{stage}' vs the computed value",
                   [r[1], r[2]], [list(val.shape), [int(v) for v in val.ravel()]])
        if prev is not None:
            ok = ctx.lean(Sym("ndstep"), prev, sx)
            kind = "with opaque operands" if opaque else "fully modelled"
            if ok is True:
                ctx.branch(f"nd real pass accepted by parStepNd ({kind})")
                ctx.note(f"ndstep-accepted:{'opaque' if opaque else 'full'}")
                rules = _rules_used(prev_tree, tree)
                for rl in rules:
                    ctx.branch("nd rule: " + rl)
            else:
                ctx.note("ndstep-rejected")
                ctx.disagree(f"nd: optimizer pass '{stage}' ({kind}) is not a combination of the modelled (proved sound) rewrite rules",
                             "accepted", "rejected")
        prev, prev_tree = sx, tree
    # unify_chunks_expr itself, on every two-array Elemwise of the unoptimized tree
    for x in walk(passes[0][1]):
        if x["t"] == "bin":
            ca, cb = x["a"]["nc"], x["b"]["nc"]
            model = ctx.lean(Sym("ndunify"), ca, cb)
            ctx.eq("nd: unify_chunks_expr of an Elemwise (unified chunks; model vs the engine's lazily reported chunks)", model[0], x["nc"])
            la, lb = len(ca), len(cb)
            if la != lb:
                ctx.branch("nd: elemwise operands of different ndim")
            da_, db_ = [sum(c) for c in ca], [sum(c) for c in cb]
            k = min(la, lb)
            if k and any(p != q for p, q in zip(da_[la - k:], db_[lb - k:])):
                ctx.branch("nd: elemwise broadcasts a length-one axis")
            if model[1] != ca or model[2] != cb:
                ctx.branch("nd: elemwise operands need alignment")
    for op in sorted(set(_ops(prog))):
        ctx.branch("nd op=" + op)
    ctx.branch(f"nd passes={min(len(passes) - 1, 4)}")
    if len(ref.shape) != 1:
        ctx.branch(f"nd result ndim={len(ref.shape)}")


def _rules_used(before, after):
    """which root rules a pass applied somewhere (by node counts; for the evidence histogram only)"""
    out = []
    b = [x["t"] for x in walk(before)]
    a = [x["t"] for x in walk(after)]
    if before["t"] == "finalize" and after["t"] != "finalize":
        out.append("finalize → operand" if a.count("rechunk") < b.count("rechunk") + 1 else "finalize → rechunk(-1)")
    if a.count("rechunk") > b.count("rechunk") + (1 if before["t"] == "finalize" and after["t"] == "rechunk" else 0):
        out.append("elemwise alignment")
    if a.count("rechunk") < b.count("rechunk") + (1 if before["t"] == "finalize" and after["t"] == "rechunk" else 0):
        out.append("rechunk elision")
    return out


def _ops(p):
    out = [p["op"]]
    for k in ("a", "b"):
        if isinstance(p.get(k), dict) and "op" in p[k]:
            out += _ops(p[k])
    for q in p.get("args", []):
        out += _ops(q)
    return out


# ---------------------------------------------------------------------------------------------

def _leaf(rng, shape):
    chunks = [list(c) for c in U.rand_chunks(rng, shape)]
    r = rng.random()
    if r < 0.8 or not shape:
        n = U.prod_shape(shape)
        return {"op": "from_array", "data": [rng.randint(-4, 4) for _ in range(n)], "shape": list(shape), "dtype": "int64", "chunks": chunks}
    if r < 0.9:
        return {"op": rng.choice(["ones", "zeros"]), "shape": list(shape), "chunks": chunks}
    return {"op": "full", "value": rng.randint(-3, 3), "shape": list(shape), "chunks": chunks}


def _bshape(rng, shape):
    """a shape that broadcasts to `shape`: fewer leading axes and / or length-one axes"""
    r = rng.random()
    k = rng.randint(1, len(shape)) if r < 0.5 else len(shape)
    sub = list(shape[len(shape) - k:])
    if r > 0.3:
        sub = [n if rng.random() < 0.5 else 1 for n in sub]
    return tuple(sub)


def _prog(rng, shape, depth, opaque):
    if depth == 0 or rng.random() < 0.12:
        return _leaf(rng, shape)
    nd = len(shape)
    r = rng.random()
    if r < 0.1:
        return {"op": "unary", "fn": rng.choice(["negative", "abs", "square"]), "a": _prog(rng, shape, depth - 1, opaque)}
    if r < 0.4:
        rb = rng.random()
        if rb < 0.15:
            b = {"scalar": rng.randint(-3, 3)}
        elif rb < 0.55:
            b = _prog(rng, shape, depth - 1, opaque)
        else:
            b = _prog(rng, _bshape(rng, shape), depth - 1, opaque)
        a = _prog(rng, shape if ("scalar" in b or rng.random() < 0.8) else tuple(n if rng.random() < 0.6 else 1 for n in shape), depth - 1, opaque)
        if "scalar" not in b and tuple(np.broadcast_shapes(tuple(np.asarray(P.build(a, np, False)).shape),
                                                           tuple(np.asarray(P.build(b, np, False)).shape))) != tuple(shape):
            a = _prog(rng, shape, depth - 1, opaque)
        if "scalar" not in b and rng.random() < 0.3:
            a, b = b, a
        return {"op": "binary", "fn": rng.choice(["add", "subtract", "multiply", "maximum"]), "a": a, "b": b}
    if r < 0.58:
        big, index = [], []
        for n in shape:
            step = rng.choice([1, 1, 2, 3, -1, -2])
            tail = rng.randint(0, 2)
            if n == 0:
                s0 = rng.randint(0, 2)
                big.append(s0 + tail)
                index.append([s0, s0, step])
            elif step > 0:
                s0 = rng.randint(0, 2)
                last = s0 + (n - 1) * step
                big.append(last + 1 + tail)
                stop = last + 1 + rng.randint(0, min(step - 1, tail))
                index.append([s0 if (s0 or rng.random() < 0.5) else None,
                              stop if (stop < last + 1 + tail or rng.random() < 0.5) else None,
                              step if (step != 1 or rng.random() < 0.5) else None])
            else:
                t = -step
                last = rng.randint(0, 2)
                start = last + (n - 1) * t
                big.append(start + 1 + tail)
                index.append([start if (tail or rng.random() < 0.5) else None, last - 1 if last >= 1 else None, step])
        if rng.random() < 0.4:
            pos = rng.randint(0, len(big))
            m = rng.randint(1, 3)
            big.insert(pos, m)
            index.insert(pos, rng.choice([rng.randrange(m), -rng.randint(1, m)]))
        if opaque and rng.random() < 0.2 and 1 in shape:
            # a length-one result axis made by newaxis (SlicesWrapNone: opaque)
            i = [j for j, n in enumerate(shape) if n == 1][0]
            pos = [j for j, ix in enumerate(index) if isinstance(ix, list)][i]
            del big[pos]
            index[pos] = "newaxis"
        if not big:
            return _leaf(rng, shape)
        return {"op": "getitem", "index": index, "a": _prog(rng, tuple(big), depth - 1, opaque)}
    if r < 0.7:
        sub = _prog(rng, shape, depth - 1, opaque)
        ch = [list(c) for c in U.rand_chunks(rng, shape)]
        if rng.random() < 0.25:
            try:
                import dask.array as da
                ch = [list(map(int, c)) for c in P.build(sub, da, True).chunks]
            except Exception:
                pass
        return {"op": "rechunk", "chunks": ch, "a": sub}
    if r < 0.8 and nd >= 2:
        axes = list(range(nd))
        rng.shuffle(axes)
        src = [0] * nd
        for k, ax in enumerate(axes):
            src[ax] = shape[k]
        return {"op": "transpose", "axes": axes, "a": _prog(rng, tuple(src), depth - 1, opaque)}
    if r < 0.9 and nd >= 1 and max(shape) >= 2:
        ax = rng.choice([i for i, n in enumerate(shape) if n >= 2])
        cuts = sorted(rng.sample(range(1, shape[ax]), rng.randint(1, min(2, shape[ax] - 1))))
        sizes = [b - a for a, b in zip([0] + cuts, cuts + [shape[ax]])]
        args = [_prog(rng, tuple(shape[:ax]) + (k,) + tuple(shape[ax + 1:]), depth - 1, opaque) for k in sizes]
        return {"op": "concatenate", "axis": rng.choice([ax, ax - nd]), "args": args}
    if opaque and r < 0.95 and nd >= 2 and min(shape) >= 1:
        ax = rng.randrange(nd)
        sub = tuple(shape[:ax]) + tuple(shape[ax + 1:])
        return {"op": "stack", "axis": ax, "args": [_prog(rng, sub, depth - 1, opaque) for _ in range(shape[ax])]}
    if opaque:
        return {"op": "map_blocks", "fn": rng.choice(["double", "addone"]), "a": _prog(rng, shape, depth - 1, opaque)}
    return _leaf(rng, shape)


def gen_tracend(ctx, n):
    rng = ctx.rng
    fixed = [
        # broadcasting against a length-one axis and an operand with fewer axes, differently chunked
        {"op": "binary", "fn": "add",
         "a": {"op": "from_array", "data": list(range(12)), "shape": [3, 4], "dtype": "int64", "chunks": [[2, 1], [1, 3]]},
         "b": {"op": "from_array", "data": [10, 20, 30, 40], "shape": [4], "dtype": "int64", "chunks": [[2, 2]]}},
        {"op": "binary", "fn": "multiply",
         "a": {"op": "from_array", "data": list(range(6)), "shape": [3, 1, 2], "dtype": "int64", "chunks": [[1, 2], [1], [2]]},
         "b": {"op": "from_array", "data": list(range(8)), "shape": [4, 2], "dtype": "int64", "chunks": [[3, 1], [1, 1]]}},
        # slicing with steps / an integer, then a transpose, finalised from a 2 x 2 block grid
        {"op": "transpose", "axes": [1, 0],
         "a": {"op": "getitem", "index": [[None, None, -2], 1, [1, 6, 2]],
               "a": {"op": "from_array", "data": list(range(5 * 2 * 7)), "shape": [5, 2, 7], "dtype": "int64", "chunks": [[2, 3], [1, 1], [3, 4]]}}},
    ]
    for p in fixed:
        yield "tracend", {"prog": p}
    for i in range(n):
        shape = tuple(rng.randint(1, 4) for _ in range(rng.choice([1, 2, 2, 2, 3, 3])))
        if rng.random() < 0.06:
            shape = tuple(0 if rng.random() < 0.5 else s for s in shape)
        opaque = rng.random() < 0.35
        prog = _prog(rng, shape, rng.randint(1, 3), opaque)
        if opaque and rng.random() < 0.5:
            nd = len(shape)
            prog = {"op": "reduce", "fn": rng.choice(["sum", "max", "min"]), "axis": rng.choice([None] + list(range(nd))),
                    "keepdims": rng.random() < 0.3, "split_every": rng.choice([None, 2]), "a": prog}
            if 0 in shape and prog["fn"] != "sum":
                prog["fn"] = "sum"
        yield "tracend", {"prog": prog}
