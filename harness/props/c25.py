"""C25 — lazy array metadata matches the computed data.

Model:    lean/DaskModel/Model/Meta.lean (chunk metadata of a small pipeline language: leaves, broadcasting elementwise
          operations after unify_chunks, transposes, axis removal (reductions / blockwise contraction / drop_axis), new axes,
          keepdims reductions, concatenation, stacking) together with the lengths of the blocks the per-block kernels produce
Theorems: lean/DaskModel/Props/C25.lean
Tie:      function level: the model's lazy chunks for random pipelines of the modelled operations against `.chunks` of the
          real dask expression; API level: random pipelines over the whole operation pool of the hlg program language
          (elementwise, where, astype, transposes, reductions, cumsum, slicing, take, concatenate, stack, broadcast_to,
          reshape, expand/squeeze, flip, repeat, tile, pad, diff, tensordot, rechunk, map_blocks new/drop axis, blockwise
          contractions): every block computed separately (`.blocks[idx]`, `to_delayed`) has the shape `.chunks` declares, the
          blocks reassemble (np.block) to the full result, computed shape/dtype equal lazy shape/dtype, and all equal NumPy.
"""
from __future__ import annotations

import itertools

from sexp import Sym

from props import _hlg_util as U

PROP = "C25"
READY = True
DRIVER = "dm_hlg"
LEAN_MODULES = ["DaskModel.Props.C25", "DaskModel.Props.C25xUnify"]
CASE_TIMEOUT_S = 60   # the first case of a run also pays the import of dask.array (slow on a loaded machine)
LEVEL_TEXT = ("Lean 4 theorems over a chunk-metadata model of a pipeline language (leaves, broadcasting elementwise ops after "
              "unify_chunks, transpose, axis removal, keepdims reduction, new axis, concatenate, stack): `pipeline_meta_ok` — by "
              "induction over the pipeline, whenever the lazy chunks are defined every block the pipeline's per-block kernels "
              "produce has, on every axis, exactly the length `.chunks` declares for its block index (hence the lazy shape is the "
              "sum of the chunks and the blocks tile the result), with per-operation lemmas (`elemwise_axis_ok`, "
              "`concat_axis_ok`, …). dtype and the operations outside the modelled set (slicing, reshape, rechunk, pad, …) "
              "are VALIDATED: random pipelines over the whole pool with every block computed separately, reassembled and "
              "compared with NumPy (shape, dtype, values), with graph optimisation on and off. `fuse_slice_index_map`: for "
              "all non-negative slices a (positive step), b, all lengths n and positions j, element j of x[a][b] and of "
              "x[fuse_slice(a, b)] come from the same source position (and end together), so the getitem chains that the "
              "array optimiser fuses return blocks of unchanged length; `fuse_tuple_index_map(_bounded)`: the same for the "
              "walk over two index TUPLES of integers, slices and None (any lengths, None anywhere; what _optimize_slices "
              "passes): whenever fuse_slice(a, b) returns r, every coordinate c of x[r] and of x[a][b] names the same source "
              "element and is outside one exactly when outside the other (x[a]'s shape via `applyB_isSome_iff`). fuse_slice "
              "is diffed against the model (slices and tuples, NotImplementedError/IndexError outcomes included), the "
              "model's meaning of an index tuple is diffed against NumPy, and chains of 2-3 getitems (steps 1-3, explicit "
              "stops inside the selection, integer indices, new axes, one integer array) are computed optimised / "
              "unoptimised / per block. Extension `unify_post` (Props/C25xUnify.lean): the postcondition of unify_chunks "
              "that the pipeline model used to CHECK at run time is proved for the unify_chunks model itself — for any number "
              "of arguments without a symbol repeated inside one array, zero-length dimensions and interior zero-length "
              "chunks included, whose lengths along a symbol agree up to length-one dimensions: whenever unify_chunks "
              "returns, along every symbol the common chunks are not (), every argument is rechunked to the common chunks or "
              "keeps the single chunk (1,), and some argument carries the common chunks (`commonBlockdim_total`: "
              "common_blockdim keeps the total in every branch, no positivity needed); hypotheses and conclusion are "
              "evaluated on every generated real unify_chunks call (section `unifypost`). `ew_check_redundant` / "
              "`ewLazy_eq_unchecked`: for elementwise index strings the hypotheses follow from broadcast_shapes accepting "
              "the shapes, so the model's run-time check never refuses (arrays with at least one chunk per axis).")
LEVEL_NOTE = ("Trusted: Lean kernel + standard axioms; the metadata model tied by a function-level diff of lazy chunks; the "
              "shape behaviour of the per-block NumPy kernels (broadcasting, transpose, sum, expand_dims, concatenate) is "
              "assumed as stated in the model; dtype inference (compute_meta) is oracle-only.")
TECHNIQUE = "Lean 4 proof (induction over a pipeline AST, per-axis lemmas) + differential correspondence + per-block recomputation"
ASSUMPTIONS = ["per-block NumPy kernels have NumPy's shape semantics (broadcast, transpose, reduce, expand_dims, concatenate)",
               "chunk sizes known (no NaN)"]
TRUSTED = ["NumPy as reference for values, shapes and dtypes"]


def _ok(ans):
    return isinstance(ans, list) and ans and ans[0] == "ok"


# ------------------------------------------------------------------------------------------------
# the modelled pipeline language  (JSON)  ->  model s-expression / dask / numpy
# ------------------------------------------------------------------------------------------------
# {"op":"leaf","chunks":[[..],..]} | {"op":"ew","a":p,"b":p} | {"op":"T","perm":[..],"a":p} | {"op":"drop","axis":k,"a":p}
# {"op":"keep","axis":k,"a":p} | {"op":"new","axis":k,"a":p} | {"op":"concat","axis":k,"a":p,"b":p} | {"op":"stack","axis":k,"a":p,"b":p}

def m_sexp(p):
    op = p["op"]
    if op == "leaf":
        return [Sym("leaf"), p["chunks"]]
    if op == "ew":
        return [Sym("ew"), m_sexp(p["a"]), m_sexp(p["b"])]
    if op == "T":
        return [Sym("T"), p["perm"], m_sexp(p["a"])]
    if op in ("drop", "keep", "new"):
        return [Sym(op), p["axis"], m_sexp(p["a"])]
    if op in ("concat", "stack"):
        return [Sym(op), p["axis"], m_sexp(p["a"]), m_sexp(p["b"])]
    raise ValueError(op)


def m_run(p, lib, counter=None):
    import numpy as np
    import dask.array as da
    counter = counter if counter is not None else [0]
    op = p["op"]
    if op == "leaf":
        counter[0] += 1
        shape = [sum(c) for c in p["chunks"]]
        x = U.leaf_data(shape, "i8", counter[0])
        return x if lib == "np" else da.from_array(x, chunks=tuple(tuple(c) for c in p["chunks"]))
    if op == "ew":
        return m_run(p["a"], lib, counter) + m_run(p["b"], lib, counter)
    if op == "T":
        return m_run(p["a"], lib, counter).transpose(p["perm"])
    if op == "drop":
        return m_run(p["a"], lib, counter).sum(axis=p["axis"])
    if op == "keep":
        return m_run(p["a"], lib, counter).sum(axis=p["axis"], keepdims=True)
    if op == "new":
        a = m_run(p["a"], lib, counter)
        if lib == "np":
            return np.expand_dims(a, p["axis"])
        return a.map_blocks(U._ExpandDims(p["axis"]), new_axis=p["axis"], dtype=a.dtype)
    if op == "concat":
        m = np if lib == "np" else da
        return m.concatenate([m_run(p["a"], lib, counter), m_run(p["b"], lib, counter)], axis=p["axis"])
    if op == "stack":
        m = np if lib == "np" else da
        return m.stack([m_run(p["a"], lib, counter), m_run(p["b"], lib, counter)], axis=p["axis"])
    raise ValueError(op)


def gen_modelled(rng, depth):
    """random pipeline of the modelled operations; returns (prog, shape) with shapes valid for NumPy"""
    if depth <= 0 or rng.random() < 0.15:
        nd = rng.randint(0, 3)
        shape = [rng.choice([0, 1, 1, 2, 3, 4]) if rng.random() < 0.9 else 5 for _ in range(nd)]
        return {"op": "leaf", "chunks": U.rand_chunks(rng, shape, 0.12)}, shape
    p, shape = gen_modelled(rng, depth - 1)
    nd = len(shape)
    t = rng.choice(["ew", "ew", "T", "drop", "keep", "new", "concat", "stack"])
    if t == "ew":
        # a leaf that broadcasts against `shape`
        k = rng.randint(0, nd)
        sh = [s if rng.random() < 0.7 else 1 for s in shape[nd - k:]]
        if rng.random() < 0.15:
            sh = [rng.randint(1, 3)] + list(shape)
        q = {"op": "leaf", "chunks": U.rand_chunks(rng, sh)}
        import numpy as np
        try:
            out = list(np.broadcast_shapes(tuple(shape), tuple(sh)))
        except ValueError:
            return p, shape
        a, b = (p, q) if rng.random() < 0.6 else (q, p)
        return {"op": "ew", "a": a, "b": b}, out
    if t == "T" and nd >= 1:
        perm = list(range(nd))
        rng.shuffle(perm)
        return {"op": "T", "perm": perm, "a": p}, [shape[i] for i in perm]
    if t == "drop" and nd >= 1:
        ax = rng.randrange(nd)
        return {"op": "drop", "axis": ax, "a": p}, shape[:ax] + shape[ax + 1:]
    if t == "keep" and nd >= 1:
        ax = rng.randrange(nd)
        return {"op": "keep", "axis": ax, "a": p}, shape[:ax] + [1] + shape[ax + 1:]
    if t == "new":
        ax = rng.randint(0, nd)
        return {"op": "new", "axis": ax, "a": p}, shape[:ax] + [1] + shape[ax:]
    if t == "concat" and nd >= 1:
        ax = rng.randrange(nd)
        sh = list(shape)
        sh[ax] = rng.choice([0, 1, 2, 3])
        q = {"op": "leaf", "chunks": U.rand_chunks(rng, sh)}
        out = list(shape)
        out[ax] = shape[ax] + sh[ax]
        a, b = (p, q) if rng.random() < 0.6 else (q, p)
        return {"op": "concat", "axis": ax, "a": a, "b": b}, out
    if t == "stack":
        ax = rng.randint(0, nd)
        q = {"op": "leaf", "chunks": U.rand_chunks(rng, shape)}
        return {"op": "stack", "axis": ax, "a": p, "b": q}, shape[:ax] + [2] + shape[ax:]
    return p, shape


def _flat(keys):
    if isinstance(keys, list):
        for k in keys:
            yield from _flat(k)
    else:
        yield keys


def _grid_shape(keys, ndim):
    """shape of the nested list `__dask_keys__` returns"""
    out = []
    cur = keys
    for _ in range(ndim):
        out.append(len(cur))
        if not cur:
            out += [0] * (ndim - len(out))
            break
        cur = cur[0]
    return tuple(out)


def _check_blocks(ctx, d, x, what, maxblocks=24):
    """the clauses of the statement on one dask array `d` whose NumPy value is `x`"""
    import numpy as np
    x = np.asarray(x)
    if tuple(d.shape) != x.shape:
        ctx.fail(what + ": lazy shape differs from the NumPy result", observed=list(d.shape), expected=list(x.shape))
        return False
    if any(sum(c) != s for c, s in zip(d.chunks, d.shape)):
        ctx.fail(what + ": chunks do not sum to the shape", observed=[list(c) for c in d.chunks])
        return False
    # the other lazy attributes derived from chunks/dtype
    import math
    derived = {"ndim": (d.ndim, x.ndim), "size": (d.size, x.size), "numblocks": (tuple(d.numblocks), tuple(len(c) for c in d.chunks)),
               "npartitions": (d.npartitions, math.prod(len(c) for c in d.chunks)),
               "chunksize": (tuple(d.chunksize), tuple(max(c) for c in d.chunks)),
               "keys-grid": (_grid_shape(d.__dask_keys__(), d.ndim), tuple(len(c) for c in d.chunks))}
    if x.ndim:
        derived["len"] = (len(d), len(x))
    if d.dtype == x.dtype:
        derived["nbytes"] = (d.nbytes, x.nbytes)
        derived["itemsize"] = (d.itemsize, x.itemsize)
    for k, (got, want) in derived.items():
        if got != want:
            ctx.fail(what + f": lazy attribute .{k} is inconsistent", observed=repr(got), expected=repr(want))
            return False
    flat_keys = list(_flat(d.__dask_keys__()))
    if len(set(flat_keys)) != len(flat_keys) or any(k[0] != d.name for k in flat_keys):
        ctx.fail(what + ": __dask_keys__ has duplicate or foreign keys")
        return False
    nested = d.__dask_keys__()
    if d.ndim == 0 and nested != [(d.name,)]:
        ctx.fail(what + ": __dask_keys__ of a 0-d array is not [(name,)]", observed=str(nested))
        return False
    for idx in itertools.islice(itertools.product(*[range(len(c)) for c in d.chunks]), 40 if d.ndim else 0):
        k = nested
        for i in idx:
            k = k[i]
        if k != (d.name,) + idx:
            ctx.fail(what + ": __dask_keys__ does not place key (name, *idx) at position idx", observed=[list(idx), str(k)])
            return False
    full = np.asarray(d.compute(scheduler="sync"))
    if full.shape != x.shape:
        ctx.fail(what + ": computed shape differs from lazy shape", observed=list(full.shape), expected=list(d.shape))
        return False
    if full.dtype != d.dtype:
        ctx.fail(what + ": computed dtype differs from lazy dtype", observed=str(full.dtype), expected=str(d.dtype))
    if d.dtype != x.dtype:
        # not part of C25 (lazy vs computed); NumPy's dtype is the business of the per-operation properties
        # (seen: da.tensordot(int32, int32) is int64 lazily AND computed, NumPy gives int32)
        ctx.note("dtype-differs-from-numpy-but-lazy==computed")
        # with another dtype the values may legitimately differ (uint8 wrap-around vs uint64): from here on the
        # reference for the blocks is the computed full result itself
        x = full
    same = np.allclose(full, x, equal_nan=True) if x.dtype.kind in "fc" else np.array_equal(full, x)
    if not same:
        ctx.fail(what + ": computed values differ from NumPy", observed=full.tolist() if full.size < 30 and x.dtype.kind in "biuf" else None,
                 expected=x.tolist() if x.size < 30 and x.dtype.kind in "biuf" else None)
        return False
    # the same expression without graph optimisation (no blockwise fusion, no slice fusion, no linear fusion)
    off = np.asarray(d.compute(scheduler="sync", optimize_graph=False))
    if off.shape != full.shape or not (np.allclose(off, full, equal_nan=True) if x.dtype.kind in "fc" else np.array_equal(off, full)):
        ctx.fail(what + ": optimised and unoptimised graphs compute different results", observed=list(full.shape), expected=list(off.shape))
        return False
    grid = list(itertools.product(*[range(n) for n in d.numblocks]))
    sel = grid if len(grid) <= maxblocks else ctx.rng.sample(grid, maxblocks)
    starts = [U.cumsum0(c) for c in d.chunks]
    use_delayed = ctx.rng.random() < 0.3 and d.ndim > 0
    delayed = d.to_delayed() if use_delayed else None
    for idx in sel:
        if d.ndim == 0:
            b = full
        elif use_delayed:
            b = np.asarray(delayed[idx].compute(scheduler="sync"))
        else:
            b = np.asarray(d.blocks[idx].compute(scheduler="sync"))
        want = tuple(c[i] for c, i in zip(d.chunks, idx))
        if b.shape != want:
            ctx.fail(what + ": a separately computed block does not have the shape .chunks declares",
                     observed=[list(idx), list(b.shape)], expected=list(want))
            return False
        sl = tuple(slice(st[i], st[i + 1]) for st, i in zip(starts, idx))
        ok = np.allclose(b, x[sl], equal_nan=True) if x.dtype.kind in "fc" else np.array_equal(b, x[sl])
        if not ok:
            ctx.fail(what + ": a separately computed block is not the slice of the result at its block index", observed=list(idx))
            return False
    if len(grid) > 1:
        ctx.branch("multi-block-result")
    if use_delayed:
        ctx.branch("via-to_delayed")
    if any(0 in c for c in d.chunks):
        ctx.branch("zero-length-chunk-in-result")
    return True


def case_modelled(ctx, inp):
    import numpy as np
    p = inp["prog"]
    try:
        x = m_run(p, "np")
    except Exception:
        ctx.note("numpy-invalid")
        return
    try:
        d = m_run(p, "da")
    except Exception as e:
        ctx.fail("dask raised on a pipeline NumPy accepts: " + repr(e)[:160])
        return
    m = ctx.lean(Sym("metachunks"), m_sexp(p))
    ctx.eq("lazy chunks of the pipeline", m, [Sym("ok"), [[int(c) for c in ax] for ax in d.chunks]])
    mb = ctx.lean(Sym("metablocks"), m_sexp(p))
    ctx.eq("model: block lengths agree with the model's chunks (the theorem, re-checked at run time)", mb, True)
    _check_blocks(ctx, d, x, "modelled pipeline")
    ops = _ops(p)
    for o in set(ops):
        ctx.branch("m-" + o)


def _ops(p):
    out = [p["op"]]
    for k in ("a", "b"):
        if isinstance(p.get(k), dict):
            out += _ops(p[k])
    return out


# ------------------------------------------------------------------------------------------------
# API level: the whole operation pool
# ------------------------------------------------------------------------------------------------

POOL_W = {"un": 2, "bin": 5, "where": 1, "astype": 1, "clip": 1, "T": 2, "sum": 2, "red": 3, "cumsum": 2, "rechunk": 2,
          "slice": 5, "take": 2, "concat": 2, "stack": 2, "bcast": 1, "reshape": 2, "expand": 1, "squeeze": 1, "flip": 1,
          "repeat": 1, "tile": 1, "pad": 1, "diff": 1, "dot": 2, "mb": 1, "mb_new": 1, "mb_drop": 1, "bwsum": 1, "bwlist": 1,
          "bw2": 1, "bwc": 1, "mb2": 2}


OWN_W = {"un": 2, "bin": 6, "where": 2, "astype": 1, "clip": 1, "T": 3, "mb": 2, "mb2": 3, "mb_new": 2, "mb_drop": 2,
         "bwsum": 2, "bwlist": 2, "bw2": 3, "bwc": 3, "concat": 3, "stack": 3, "bcast": 1}


def case_pipeline(ctx, inp):
    import numpy as np
    prog = inp["prog"]
    with np.errstate(all="ignore"):
        try:
            x = np.asarray(U.run_prog(prog, "np"))
        except Exception:
            ctx.note("numpy-invalid-program")
            return
        try:
            d = U.run_prog(prog, "da")
        except NotImplementedError:
            ctx.note("dask-declares-unsupported")   # e.g. reshape that neither merges nor splits dimensions evenly
            return
        except Exception as e:
            # C25 is about expressions dask can build (lazy metadata exists); refusing to build one is the business of
            # the per-operation properties (seen: da.repeat on a zero-length axis -> "Need array(s) to concatenate")
            ctx.note("dask-refuses-to-build:" + type(e).__name__)
            return
        try:
            _check_blocks(ctx, d, x, "pipeline", maxblocks=12)
        except Exception as e:
            ctx.fail("dask raised while computing a pipeline NumPy accepts: " + type(e).__name__ + ": " + str(e)[:160],
                     sig=_known_sig(prog, e))
            return
    ops = U.prog_ops(prog)
    for o in set(ops):
        ctx.note("op:" + o.split(":")[0])
    ctx.branch("depth-%d" % min(len(ops), 6))
    ctx.branch("dtype-" + x.dtype.kind)


def _known_sig(prog, e):
    return None


# ------------------------------------------------------------------------------------------------
# fuse_slice (dask/array/optimization.py): function level against the model, and as an index map on a real list
# ------------------------------------------------------------------------------------------------

def _sl(s):
    return slice(s[0], s[1], s[2])


def _sl_canon(s):
    """real slice -> [start, stop|None, step] with the Nones of start/step resolved"""
    return [0 if s.start is None else int(s.start), None if s.stop is None else int(s.stop), 1 if s.step is None else int(s.step)]


def case_fuseslice(ctx, inp):
    from dask.array.optimization import fuse_slice
    a, b, n = inp["a"], inp["b"], inp["n"]
    xs = list(range(100, 100 + n))
    sa = _sl(a)
    na = [a[0] or 0, a[1], a[2] or 1]
    if isinstance(b, int):
        try:
            r = fuse_slice(sa, b)
        except NotImplementedError:
            ctx.branch("fuse-int-negative")
            return
        m = ctx.lean(Sym("fuseslice"), na, b)
        ctx.eq("fuse_slice(slice, int)", m, int(r))
        if b < len(xs[sa]) and xs[sa][b] != xs[r]:
            ctx.fail("x[a][i] != x[fuse_slice(a, i)]", observed=xs[r], expected=xs[sa][b])
        ctx.branch("fuse-slice-int")
        return
    sb = _sl(b)
    nb = [b[0] or 0, b[1], b[2] or 1]
    r = fuse_slice(sa, sb)
    m = ctx.lean(Sym("fuseslice"), na, nb)
    ctx.eq("fuse_slice(slice, slice)", m, _sl_canon(r))
    want = xs[sa][sb]
    got = xs[r]
    if got != want:
        ctx.fail("x[a][b] != x[fuse_slice(a, b)] on a plain list", observed=got, expected=want)
    # the model's index map of x[a][b] against Python
    mc = ctx.lean(Sym("chainat"), n, na, nb, len(want) + 2)
    ctx.eq("index map of x[a][b]", mc, [v - 100 for v in want] + [None, None])
    if nb[2] > 1 and nb[1] is not None and (na[0] > 0 or na[2] > 1):
        ctx.branch("outer-step>1-with-stop-after-partial-slice")
    if na[2] > 1 and nb[2] > 1:
        ctx.branch("both-steps>1")
    if a[1] is not None and b[1] is not None:
        ctx.branch("both-stops")
    ctx.branch("fuse-slice-slice")


def gen_fuseslice(rng):
    n = rng.randint(0, 24)

    def rs(m):
        start = rng.choice([None, 0, rng.randint(0, max(0, m + 1))])
        stop = rng.choice([None, rng.randint(0, m + 2), rng.randint(0, max(0, m // 2 + 1))])
        step = rng.choice([None, 1, 2, 3, 4])
        return [start, stop, step]
    a = rs(n)
    la = len(range(n)[_sl(a)])
    b = rs(la) if rng.random() < 0.85 else rng.randint(0, max(0, la))
    return {"a": a, "b": b, "n": n}


# ------------------------------------------------------------------------------------------------
# fuse_slice on index TUPLES (what _optimize_slices passes): the walk over both tuples against Lean `fuseTuple`, the
# model's meaning of an index tuple (`applyB`, `shapeIx`) against NumPy, and x[a][b] == x[fuse_slice(a, b)] on NumPy
# ------------------------------------------------------------------------------------------------

def _ix_py(i):
    return slice(*i) if isinstance(i, list) else (list(i["list"]) if isinstance(i, dict) else i)


def _ix_sexp(i):
    """harness index element -> model `Ix` (only for integers, slices and None)"""
    if i is None:
        return Sym("newaxis")
    if isinstance(i, int):
        return [Sym("i"), i]
    if i == [None, None, None]:
        return Sym("full")
    return [Sym("s"), i[0] or 0, i[1], i[2] or 1]


def _ix_of_real(v):
    """an element of fuse_slice's result -> what the driver prints for it"""
    if v is None:
        return Sym("newaxis")
    if isinstance(v, slice):
        if v == slice(None, None, None):
            return Sym("full")
        return [Sym("s")] + _sl_canon(v)
    return [Sym("i"), int(v)]


def case_fusetuple(ctx, inp):
    import numpy as np
    from dask.array.optimization import fuse_slice
    dims, a, b = inp["dims"], inp["a"], inp["b"]
    x = np.arange(int(np.prod(dims)), dtype="i8").reshape(dims)
    pa, pb = tuple(_ix_py(i) for i in a), tuple(_ix_py(i) for i in b)
    xa = x[pa]
    want = xa[pb]
    fancy = any(isinstance(i, dict) for i in a + b)
    try:
        real = fuse_slice(pa, pb)
        outcome = "ok"
    except NotImplementedError:
        real, outcome = None, "notimpl"
    except IndexError:
        real, outcome = None, "indexerr"
    # integer and integer array in the inner tuple: NumPy moves the array's axis first (fixed 9b94af4: refused now)
    # and an integer plus an array in the FUSED index (fixed 17ed8d6: refused now)
    sig = None
    if fancy:
        sig = "fuse_slice:list+int-inner-tuple:axis-order" if any(isinstance(i, int) for i in a) \
            and any(isinstance(i, dict) for i in a) else "fuse_slice:list+int-in-fused-index:axis-order"
    if outcome == "ok":
        try:
            got = x[real]
        except Exception as e:
            ctx.fail("x[fuse_slice(a, b)] raises where x[a][b] is fine: " + type(e).__name__ + ": " + str(e)[:120], sig=sig)
            return
        if got.shape != want.shape:
            ctx.fail("x[fuse_slice(a, b)] and x[a][b] have different shapes", observed=list(got.shape),
                     expected=list(want.shape), sig=sig)
            return
        if not np.array_equal(got, want):
            ctx.fail("x[fuse_slice(a, b)] != x[a][b]", sig=sig)
            return
    ctx.branch("fusetuple-" + outcome)
    if fancy:
        ctx.branch("fusetuple-with-integer-array-" + outcome)
        return
    if any(isinstance(i, int) and i < 0 for i in b):
        ctx.branch("fusetuple-negative-int-" + outcome)
        return
    coords = [list(c) for c in itertools.product(*[range(n + 1) for n in want.shape])]
    if len(coords) > 14:
        coords = ctx.rng.sample(coords, 14)
    m = ctx.lean(Sym("fusetuple"), dims, [_ix_sexp(i) for i in a], [_ix_sexp(i) for i in b], coords)
    if m[0] != "ok":
        ctx.eq("fuse_slice(tuple, tuple): outcome", str(m[0]), outcome)
        return
    if outcome != "ok":
        ctx.disagree("fuse_slice(tuple, tuple): outcome", "ok", outcome)
        return
    _, r, pairs_ok, steps_pos, sh_a, sh_r, at_r, at_chain = m
    ctx.eq("fuse_slice(tuple, tuple)", r, [_ix_of_real(v) for v in real])
    # the hypotheses of fuse_tuple_index_map hold on every input NumPy accepts
    ctx.eq("pairsOK / stepsPos on a valid input", [pairs_ok, steps_pos], [True, True])
    # the model's meaning of an index tuple against NumPy
    ctx.eq("shapeIx dims a", sh_a, list(xa.shape))
    ctx.eq("shapeIx dims fuse(a, b)", sh_r, list(want.shape))

    def src(c):
        if any(ci >= n for ci, n in zip(c, want.shape)):
            return None
        return [int(v) for v in np.unravel_index(int(want[tuple(c)]), dims)]
    expect = [src(c) for c in coords]
    ctx.eq("applyB dims fuse(a, b): source coordinates", at_r, expect)
    ctx.eq("applyB shape(x[a]) b >>= applyB dims a: source coordinates", at_chain, expect)
    if any(i is None for i in a):
        ctx.branch("fusetuple-newaxis-in-a")
    if any(i is None for i in b):
        ctx.branch("fusetuple-newaxis-in-b")
    if len(a) != len(b):
        ctx.branch("fusetuple-uneven")
    if any(isinstance(i, int) for i in b):
        ctx.branch("fusetuple-int-in-b")


def gen_fusetuple_fancy(rng):
    """an integer array in one of the tuples, ONE integer and one or two new axes in the other (sometimes an integer next
    to the array as well): NumPy counts integers as advanced indices, so these are the delicate inputs of the list support
    of fuse_slice (where does the array's axis end up?)"""
    import numpy as np

    def rs(ln):
        st = rng.choice([None, 1, 1, 2])
        s0 = rng.choice([None, 0, rng.randrange(ln + 1)])
        return [s0, rng.choice([None, None, rng.randint(s0 or 0, ln)]), st]

    def build(shape, kind):
        """kind 'list': the array on one axis (+ maybe an integer); 'int': exactly one integer, 1-2 None; rest slices"""
        nz = [k for k, ln in enumerate(shape) if ln > 0]
        idx = [rs(ln) if rng.random() < 0.6 else [None, None, None] for ln in shape]
        if kind == "list" and nz:
            k = rng.choice(nz)
            idx[k] = {"list": [rng.randrange(shape[k]) for _ in range(rng.randint(1, 3))]}
            others = [j for j in nz if j != k]
            if others and rng.random() < 0.3:
                j = rng.choice(others)
                idx[j] = rng.randrange(shape[j])
            nn = rng.choice([0, 1, 1])
        else:
            if nz and rng.random() < 0.9:
                k = rng.choice(nz)
                idx[k] = rng.randrange(shape[k])
            nn = rng.choice([1, 1, 2, 2])
        for _ in range(nn):
            idx.insert(rng.randint(0, len(idx)), None)
        return idx
    while True:
        dims = [rng.randint(1, 6) for _ in range(rng.randint(2, 3))]
        in_a = rng.random() < 0.5
        a = build(dims, "list" if in_a else "int")
        probe = np.zeros(dims, dtype="i1")[tuple(_ix_py(i) for i in a)]
        if probe.ndim == 0:
            continue
        b = build(probe.shape, "int" if in_a else "list")
        return {"dims": dims, "a": a, "b": b}


def gen_fusetuple(rng):
    import numpy as np

    def rand_index(shape, with_list):
        idx = []
        for ln in shape:
            t = rng.random()
            if ln == 0 or t < 0.2:
                idx.append([None, None, None])
            elif t < 0.36:
                idx.append(rng.randrange(ln))
            elif t < 0.44 and with_list:
                idx.append({"list": [rng.randrange(ln) for _ in range(rng.randint(1, 3))]})
                with_list = False
            else:
                st = rng.choice([None, 1, 1, 2, 3])
                s0 = rng.choice([None, 0, rng.randrange(ln), rng.randrange(ln + 1)])
                e = rng.choice([None, rng.randint(s0 or 0, ln), rng.randint(0, ln + 2)])
                idx.append([s0, e, st])
        for _ in range(rng.choice([0, 0, 0, 1, 1, 2])):
            idx.insert(rng.randint(0, len(idx)), None)
        if rng.random() < 0.2:
            while idx and idx[-1] == [None, None, None]:      # not full length (dask's own tuples always are)
                idx.pop()
        return idx
    while True:
        dims = [rng.randint(1, 6) for _ in range(rng.randint(1, 3))]
        with_list = rng.random() < 0.3
        a = rand_index(dims, with_list and rng.random() < 0.6)
        probe = np.zeros(dims, dtype="i1")[tuple(_ix_py(i) for i in a)]
        if probe.ndim == 0:
            continue
        b = rand_index(probe.shape, with_list and rng.random() < 0.6)
        if not a or not b:
            continue
        if rng.random() < 0.08:
            # a negative integer in b (NumPy accepts it, fuse_slice must refuse): checked by the NumPy oracle only
            ax = [k for k, (i, n) in enumerate(zip([i for i in b if i is not None], probe.shape)) if isinstance(i, int)]
            pos = [k for k, i in enumerate(b) if i is not None]
            if ax:
                k = rng.choice(ax)
                b[pos[k]] = b[pos[k]] - probe.shape[k]
        return {"dims": dims, "a": a, "b": b}


# ------------------------------------------------------------------------------------------------
# API level: chains of basic slices, graph optimisation ON (slices are fused) and OFF
# ------------------------------------------------------------------------------------------------

def _apply_chain(x, chain):
    """an index element is [start, stop, step] (slice), an int, None (newaxis) or {"list": [...]} (integer-array index)"""
    for idx in chain:
        x = x[tuple(slice(*i) if isinstance(i, list) else (i["list"] if isinstance(i, dict) else i) for i in idx)]
    return x


def case_slicechain(ctx, inp):
    import numpy as np
    import dask.array as da
    shape = inp["shape"]
    x = np.arange(int(np.prod(shape)), dtype="i8").reshape(shape) * 3 + 1
    d = da.from_array(x, chunks=tuple(tuple(c) for c in inp["chunks"]))
    ref = _apply_chain(x, inp["chain"])
    r = _apply_chain(d, inp["chain"])
    if tuple(r.shape) != ref.shape:
        ctx.fail("chained slices: lazy shape differs from NumPy", observed=list(r.shape), expected=list(ref.shape))
        return
    on = np.asarray(r.compute(scheduler="sync"))
    off = np.asarray(r.compute(scheduler="sync", optimize_graph=False))
    if on.shape != tuple(r.shape):
        ctx.fail("chained slices: computed shape (graph optimisation on) differs from the lazy shape",
                 observed=list(on.shape), expected=list(r.shape))
    if off.shape != tuple(r.shape):
        ctx.fail("chained slices: computed shape (optimize_graph=False) differs from the lazy shape",
                 observed=list(off.shape), expected=list(r.shape))
    if on.shape == ref.shape and not np.array_equal(on, ref):
        ctx.fail("chained slices: values differ from NumPy (graph optimisation on)")
    if off.shape == ref.shape and not np.array_equal(off, ref):
        ctx.fail("chained slices: values differ from NumPy (optimize_graph=False)")
    if on.shape != off.shape or not np.array_equal(on, off):
        ctx.fail("chained slices: optimised and unoptimised graphs disagree", observed=list(on.shape), expected=list(off.shape))
    grid = list(itertools.product(*[range(k) for k in r.numblocks]))
    starts = [U.cumsum0(c) for c in r.chunks]
    delayed = r.to_delayed() if r.ndim else None
    for idx in (grid if len(grid) <= 10 else ctx.rng.sample(grid, 10)):
        want = tuple(c[i] for c, i in zip(r.chunks, idx))
        sl = tuple(slice(st[i], st[i + 1]) for st, i in zip(starts, idx))
        for how in ("blocks", "delayed"):
            if r.ndim == 0:
                b = on
            elif how == "blocks":
                b = np.asarray(r.blocks[idx].compute(scheduler="sync"))
            else:
                b = np.asarray(delayed[idx].compute(scheduler="sync"))
            if b.shape != want:
                ctx.fail(f"chained slices: a block computed via {how} does not have the shape .chunks declares",
                         observed=[list(idx), list(b.shape)], expected=list(want))
                return
            if not np.array_equal(b, ref[sl]):
                ctx.fail(f"chained slices: a block computed via {how} is not the slice of the result at its index", observed=list(idx))
                return
    # was the chain really fused into one getitem per block?
    # … and what does _optimize_slices REALLY pass to fuse_slice? (the domain of the tuple model: integers, slices, None;
    # full-length tuples — the hypothesis of fuse_tuple_no_index_error)
    import dask.array.optimization as O
    from dask.core import flatten
    calls = []
    real_fuse = O.fuse_slice

    def spy(a, b):
        top = isinstance(a, tuple) and isinstance(b, tuple)     # (the entry-level recursive calls are not recorded)
        res = None
        try:
            res = real_fuse(a, b)
        except NotImplementedError:
            res = "notimpl"
            raise
        except IndexError:
            res = "indexerr"
            raise
        finally:
            if top and res is not None:
                calls.append((a, b, res))
        return res
    O.fuse_slice = spy
    try:
        opt = O.optimize(r.__dask_graph__(), list(flatten(r.__dask_keys__())))
        if len(dict(opt)) <= max(1, len(grid)) * 2:
            ctx.branch("getitems-fused")
    except Exception as e:
        ctx.fail("optimize raised on a chain of getitems: " + type(e).__name__ + ": " + str(e)[:120])
    finally:
        O.fuse_slice = real_fuse
    seen = set()
    for a, b, res in calls:
        key = repr((a, b))
        if key in seen or len(seen) >= 6:
            continue
        seen.add(key)
        if not all(i is None or isinstance(i, (int, slice)) for i in a + b):
            ctx.fail("_optimize_slices passes an index that is not an integer, a slice or None to fuse_slice",
                     observed=[repr(a), repr(b)])
            continue
        m = ctx.lean(Sym("fusetupleargs"), [_ix_of_real(v) for v in a], [_ix_of_real(v) for v in b])
        ctx.eq("fuse_tuple_no_index_error: b indexes at least as many axes as a leaves (real arguments)", m[1], True)
        ctx.eq("fuse_slice on the arguments _optimize_slices passes",
               m[0] if isinstance(m[0], list) else str(m[0]),
               [_ix_of_real(v) for v in res] if isinstance(res, tuple) else res)
        ctx.branch("optimize-slices-call-" + ("fused" if isinstance(res, tuple) else str(res)))
        if any(i is None for i in a + b):
            ctx.branch("optimize-slices-call-with-newaxis")
    if any(isinstance(i, list) and (i[2] or 1) > 1 and i[1] is not None for idx in inp["chain"][1:] for i in idx):
        ctx.branch("later-slice-step>1-with-explicit-stop")
    if any(isinstance(i, int) for idx in inp["chain"] for i in idx):
        ctx.branch("chain-with-integer-index")
    ctx.branch("chain-len-%d" % len(inp["chain"]))


def gen_slicechain(rng):
    import numpy as np
    nd = rng.choice([1, 1, 2, 2, 3])
    shape = [rng.randint(4, 14) if i < 2 else rng.randint(2, 4) for i in range(nd)]
    chunks = [U.rand_comp(rng, s) if rng.random() < 0.6 else [s] for s in shape]
    probe = np.zeros(shape, dtype="i1")      # tracks the shape after every getitem (NumPy is the reference anyway)
    chain = []
    fancy_done = False
    for step_no in range(rng.choice([2, 2, 3])):
        cur = list(probe.shape)
        if not cur:
            break
        idx = []
        for ax, ln in enumerate(cur):
            t = rng.random()
            if ln == 0 or t < 0.2:
                idx.append([None, None, None])
            elif t < 0.32 and len(cur) > 1:
                idx.append(rng.randrange(ln))            # integer index drops the axis
            elif t < 0.40 and not fancy_done:
                idx.append({"list": [rng.randrange(ln) for _ in range(rng.randint(1, 3))]})   # one integer-array index
                fancy_done = True
            else:
                st = rng.choice([1, 1, 2, 2, 3])
                start = rng.choice([None, 0, rng.randint(0, max(0, ln - 1)), rng.randint(0, max(0, ln // 2))])
                s0 = start or 0
                # explicit stop strictly inside the selection most of the time
                stop = rng.choice([None, rng.randint(s0, ln), rng.randint(s0, max(s0, ln - 1)), rng.randint(s0, max(s0, (s0 + ln) // 2))])
                idx.append([start, stop, None if st == 1 and rng.random() < 0.5 else st])
        if any(isinstance(i, dict) for i in idx):
            # integer + integer-array index in one getitem: NumPy moves the broadcast axis to the front when a slice
            # separates them, dask keeps it in place (known finding getitem:int+fancy-split:axis-order, owned by C20)
            idx = [[i, i + 1, None] if isinstance(i, int) else i for i in idx]
        if rng.random() < 0.25:
            idx.insert(rng.randint(0, len(idx)), None)   # a new axis (in the first getitem too: then later ones index it)
        chain.append(idx)
        probe = _apply_chain(probe, [idx])
    return {"shape": shape, "chunks": chunks, "chain": chain}


# ------------------------------------------------------------------------------------------------
# extension: the postcondition of unify_chunks (theorem `unify_post`, Props/C25xUnify.lean)
# ------------------------------------------------------------------------------------------------

def case_unifypost(ctx, inp):
    """real `unify_chunks` vs the model, the hypotheses of `unify_post` (argOK, bcastOK) recomputed in Python vs the driver,
    and the theorem's conclusion evaluated on the REAL result: along every symbol the common chunks are not `()`, every
    rechunked argument has the common chunks or `(1,)`, and some argument carries the common chunks; for elementwise index
    strings additionally the public operation (`x + y (+ z)`): lazy chunks = common chunks, every block as declared."""
    import warnings
    import numpy as np
    import dask.array as da
    from dask.array.core import unify_chunks
    A = inp["args"]
    arrs, call = [], []
    for a in A:
        shape = tuple(sum(c) for c in a["chunks"])
        d = da.from_array(np.arange(int(np.prod(shape)), dtype="i8").reshape(shape), chunks=tuple(tuple(c) for c in a["chunks"]))
        arrs.append(d)
        call += [d, tuple(a["ind"])]
    try:
        with warnings.catch_warnings():
            warnings.simplefilter("ignore")
            chunkss, new = unify_chunks(*call)
        real = {int(k): [int(c) for c in v] for k, v in chunkss.items()}
        newc = [[[int(c) for c in ax] for ax in arr.chunks] for arr in new]
    except ValueError:
        real = None
    # hypotheses, recomputed independently
    argok = all(len(a["ind"]) == len(a["chunks"]) and all(len(c) > 0 for c in a["chunks"])
                and len(set(a["ind"])) == len(a["ind"]) for a in A)
    lens = {}
    for a in A:
        for s_, c in zip(a["ind"], a["chunks"]):
            lens.setdefault(s_, set()).add(sum(c))
    bok = all(len(v - {1}) <= 1 for v in lens.values())
    m = ctx.lean(Sym("unifypost"), [[a["ind"], a["chunks"]] for a in A])
    m_argok, m_bok, m_syms, m_post, m_per = m
    ctx.eq("argOK", m_argok, argok)
    ctx.eq("bcastOK", m_bok, bok)
    ctx.eq("unify_chunks raises", m_post is None or m_post == "none", real is None)
    if argok and bok and m_post is False:
        ctx.disagree("theorem unify_post contradicted by the executable model", m_post, True)
    if real is None:
        ctx.branch("up-raises" + ("" if bok else "-incompatible"))
        if bok and argok:
            # compatible lengths: only competing chunkings cannot make it raise (totals agree) — never expected
            ctx.fail("unify_chunks raised on broadcast-compatible arguments", observed=[[a["ind"], a["chunks"]] for a in A])
        return
    # function level: common chunks and the new chunks of the arguments, symbol by symbol, vs the model
    per_real = []
    for s_ in m_syms:
        per_real.append([s_, real.get(s_, []), [nw[a["ind"].index(s_)] for a, nw in zip(A, newc) if s_ in a["ind"]]])
    ctx.eq("symbols of chunkss", sorted(m_syms), sorted(real))
    ctx.eq("common chunks and new chunks per symbol", m_per, per_real)
    # the statement on the real result
    post = True
    for s_, common, news in per_real:
        if len(common) == 0 or any(n != common and n != [1] for n in news) or not any(n == common for n in news):
            post = False
            if argok and bok:
                ctx.fail("unify_chunks: an argument is rechunked neither to the common chunks nor to (1,), or no argument "
                         "carries the common chunks", observed=[s_, common, news])
    for a, nw in zip(A, newc):
        if [sum(c) for c in nw] != [sum(c) for c in a["chunks"]]:
            ctx.fail("unify_chunks changed the shape of an argument", observed=[a["chunks"], nw])
    ctx.eq("postcondition on the real result vs model", m_post, post)
    if not (argok and bok):
        ctx.branch("up-hypothesis-false")
        return
    # coverage
    if any(nw != a["chunks"] for a, nw in zip(A, newc)):
        ctx.branch("up-rechunked")
    for a, nw in zip(A, newc):
        for s_, old, n in zip(a["ind"], a["chunks"], nw):
            if n == [1] and real[s_] != [1]:
                ctx.branch("up-broadcast-keeps-(1,)")
                if len(old) > 1:
                    ctx.branch("up-broadcast-dim-was-(0,1,0)-like")
            if sum(old) == 1 and len(real[s_]) > 1 and sum(real[s_]) == 1 and n == real[s_]:
                ctx.branch("up-length-one-everywhere-many-chunks")
            if sum(old) == 0:
                ctx.branch("up-zero-length-dim")
            if 0 in old and sum(old) > 0:
                ctx.branch("up-interior-zero-chunk")
    for s_ in real:
        cands = {tuple(c) for a in A for t, c in zip(a["ind"], a["chunks"]) if t == s_ and len(c) > 1 and sum(c) != 1}
        if len(cands) > 1:
            ctx.branch("up-walk" + ("-with-zeros" if any(0 in c for c in cands) else ""))
    if len(A) >= 3:
        ctx.branch("up-three-or-more-args")
    # API level: elementwise index strings -> the public operation has the common chunks and blocks as declared
    if inp.get("ew"):
        try:
            xs = [np.asarray(d) for d in arrs]
            ref = xs[0]
            for x in xs[1:]:
                ref = ref + x
        except ValueError:
            ctx.note("numpy-invalid")
            return
        r = arrs[0]
        for d in arrs[1:]:
            r = r + d
        nd = r.ndim
        exp = [real[nd - 1 - i] for i in range(nd)]
        if len(A) == 2:
            ctx.eq("chunks of x + y are the common chunks of unify_chunks", [[int(c) for c in ax] for ax in r.chunks], exp)
        _check_blocks(ctx, r, ref, "elementwise after unify_chunks", maxblocks=12)
        ctx.branch("up-api-elementwise")


def gen_unifypost(rng):
    ew = rng.random() < 0.4
    nsym = rng.randint(1, 3)
    size = {s: rng.choice([0, 1, 2, 3, 4, 5, 6]) for s in range(nsym)}
    bad = rng.random() < 0.08
    args = []
    for _ in range(rng.choice([1, 2, 2, 2, 3, 3, 4])):
        if ew:
            k = rng.randint(0 if args else 1, nsym)
            ind = list(range(k))[::-1]
        else:
            ind = rng.sample(range(nsym), rng.randint(1, nsym))
        chunks = []
        for s in ind:
            n = size[s] if rng.random() < 0.75 else 1
            if bad and rng.random() < 0.4:
                n = n + rng.choice([1, 2])
            c = U.rand_chunks(rng, [n], zeros=0.3)[0]
            if n == 0 and rng.random() < 0.5:
                c = [0] * rng.randint(1, 3)
            chunks.append(c)
        args.append({"ind": ind, "chunks": chunks})
    return {"args": args, "ew": ew}


CASES = {"modelled": case_modelled, "pipeline": case_pipeline, "fuseslice": case_fuseslice, "fusetuple": case_fusetuple,
         "slicechain": case_slicechain, "unifypost": case_unifypost}


def generate(ctx):
    rng = ctx.rng
    # the shapes of the fuse_slice defect class: partial slice, then a stepped slice with an explicit stop inside it
    for a, b, n in (([5, 50, None], [2, 11, 2], 60), ([1, None, None], [None, 8, 2], 12), ([1, None, None], [0, 6, 2], 8),
                    ([2, None, 2], [1, 3, 3], 20), ([0, 9, 3], [1, None, 2], 10)):
        yield "fuseslice", {"a": a, "b": b, "n": n}
    yield "slicechain", {"shape": [12], "chunks": [[12]], "chain": [[[1, None, None]], [[None, 8, 2]]]}
    yield "slicechain", {"shape": [4, 9], "chunks": [[2, 2], [9]], "chain": [[3, [1, None, None]], [[2, 7, 2]]]}
    for _ in range(ctx.n(400, 4000)):
        yield "fuseslice", gen_fuseslice(rng)
    yield "fusetuple", {"dims": [9, 5, 4], "a": [[1, None, None], 3, [None, None, None]],
                        "b": [None, [None, 6, 2], [None, None, None]]}
    yield "fusetuple", {"dims": [4, 5, 6], "a": [[None, None, None], {"list": [1, 2]}, [None, None, None]],
                        "b": [0, [None, None, None], [None, None, None]]}      # x[:, [1, 2], :][0]
    yield "fusetuple", {"dims": [4, 5, 6], "a": [[None, None, None], [None, None, None], {"list": [1, 2]}],
                        "b": [0, [None, None, None], [None, None, None]]}      # x[:, :, [1, 2]][0] must not be fused
    yield "fusetuple", {"dims": [4, 5], "a": [{"list": [1, 2, 3]}, [None, None, None]],
                        "b": [[None, None, None], {"list": [0, 1]}]}           # two integer arrays on different axes
    yield "fusetuple", {"dims": [7], "a": [[1, None, 2]], "b": [-1]}
    yield "fusetuple", {"dims": [4, 5, 6], "a": [3, [None, None, None], {"list": [0, 1, 2]}],
                        "b": [[0, 2, None], [None, None, None]]}               # x[3, :, [0, 1, 2]] has shape (3, 5)
    yield "fusetuple", {"dims": [6, 5], "a": [0, {"list": [4, 3]}], "b": [None, [None, None, None]]}
    yield "fusetuple", {"dims": [5, 4], "a": [[3, None, 1], {"list": [0, 0]}], "b": [None, 0, None, [0, 0, 1]]}
    for _ in range(ctx.n(400, 6000)):
        yield "fusetuple", gen_fusetuple(rng)
    for _ in range(ctx.n(150, 2500)):
        # four of five candidates are refused (NotImplementedError) — the delicate ones are those fuse_slice ACCEPTS:
        # draw until it accepts one (at most 8 times)
        from dask.array.optimization import fuse_slice
        for _try in range(8):
            inp = gen_fusetuple_fancy(rng)
            try:
                fuse_slice(tuple(_ix_py(i) for i in inp["a"]), tuple(_ix_py(i) for i in inp["b"]))
                break
            except Exception:
                continue
        yield "fusetuple", inp
    for _ in range(ctx.n(80, 1100)):
        yield "slicechain", gen_slicechain(rng)
    for _ in range(ctx.n(170, 2200)):
        p, _sh = gen_modelled(rng, rng.randint(1, 5))
        yield "modelled", {"prog": p}
    # whole pool (zero-LENGTH dimensions allowed). Interior zero-length chunks such as (1, 0, 0) are generated only for the
    # blockwise family below: for the operations owned by other properties (reshape, reductions, slicing, …) they expose
    # per-operation defects that are reported to their owners (see notes/hlg.md), not C25 metadata defects.
    G = U.ProgGen(rng, POOL_W, leaf_dtypes=("i8", "f8", "i4", "bool", "f4"), maxdim=4, maxnd=3, allow_zero=True)
    for _ in range(ctx.n(100, 1700)):
        p, _x = G.gen(rng.randint(2, 6))
        yield "pipeline", {"prog": p}
    G0 = U.ProgGen(rng, OWN_W, leaf_dtypes=("i8", "f8", "i4", "bool"), maxdim=4, maxnd=3, allow_zero=True, zero_chunks=0.2)
    for _ in range(ctx.n(60, 600)):
        p, _x = G0.gen(rng.randint(1, 5))
        yield "pipeline", {"prog": p, "stream": "zero-chunks"}
    # extension (appended last: earlier rng streams unchanged): the postcondition of unify_chunks
    yield "unifypost", {"args": [{"ind": [1, 0], "chunks": [[2, 0, 2], [0, 1, 0]]}, {"ind": [1, 0], "chunks": [[1, 3], [3, 2]]},
                                 {"ind": [0], "chunks": [[5]]}], "ew": True}
    yield "unifypost", {"args": [{"ind": [0], "chunks": [[0, 0]]}, {"ind": [0], "chunks": [[0, 0, 0]]}, {"ind": [0], "chunks": [[1, 0]]}],
                        "ew": True}
    yield "unifypost", {"args": [{"ind": [0], "chunks": [[1, 0]]}, {"ind": [0], "chunks": [[0, 1]]}], "ew": True}
    for _ in range(ctx.n(220, 3000)):
        yield "unifypost", gen_unifypost(rng)
