"""C25 — lazy array metadata matches the computed data.

Model:    lean/DaskModel/Model/Meta.lean (chunk metadata of a small pipeline language: leaves, broadcasting elementwise
          operations after unify_chunks, transposes, axis removal (reductions / blockwise contraction / drop_axis), new axes,
          keepdims reductions, concatenation, stacking) together with the lengths of the blocks the per-block kernels produce
Theorems: lean/DaskModel/Props/C25.lean
Tie:      function level: the model's lazy chunks for random pipelines of the modelled operations against `.chunks` of the
          real dask expression; API level: random pipelines over the whole operation pool of the hlg program language
          (elementwise, where, astype, transposes, reductions, cumsum, slicing, take, concatenate, stack, broadcast_to,
          reshape, expand/squeeze, flip, repeat, tile, pad, diff, tensordot, rechunk, map_blocks new/drop axis, blockwise
          contractions): every block computed separately (`.blocks[idx]`, `to_delayed`) has the shape `.chunks` declares, the
          blocks reassemble (np.block) to the full result, computed shape/dtype equal lazy shape/dtype, and all equal NumPy.
"""
from __future__ import annotations

import itertools

from sexp import Sym

from props import _hlg_util as U

PROP = "C25"
READY = True
DRIVER = "dm_hlg"
LEAN_MODULES = ["DaskModel.Props.C25"]
CASE_TIMEOUT_S = 30
LEVEL_TEXT = ("Lean 4 theorems over a chunk-metadata model of a pipeline language (leaves, broadcasting elementwise ops after "
              "unify_chunks, transpose, axis removal, keepdims reduction, new axis, concatenate, stack): `pipeline_meta_ok` — by "
              "induction over the pipeline, whenever the lazy chunks are defined every block the pipeline's per-block kernels "
              "produce has, on every axis, exactly the length `.chunks` declares for its block index (hence the lazy shape is the "
              "sum of the chunks and the blocks tile the result), with per-operation lemmas (`elemwise_axis_ok`, "
              "`concat_axis_ok`, …). dtype and the operations outside the modelled set (slicing, reshape, rechunk, pad, …) "
              "are VALIDATED: random pipelines over the whole pool with every block computed separately, reassembled and "
              "compared with NumPy (shape, dtype, values).")
LEVEL_NOTE = ("Trusted: Lean kernel + standard axioms; the metadata model tied by a function-level diff of lazy chunks; the "
              "shape behaviour of the per-block NumPy kernels (broadcasting, transpose, sum, expand_dims, concatenate) is "
              "assumed as stated in the model; dtype inference (compute_meta) is oracle-only.")
TECHNIQUE = "Lean 4 proof (induction over a pipeline AST, per-axis lemmas) + differential correspondence + per-block recomputation"
ASSUMPTIONS = ["per-block NumPy kernels have NumPy's shape semantics (broadcast, transpose, reduce, expand_dims, concatenate)",
               "chunk sizes known (no NaN)"]
TRUSTED = ["NumPy as reference for values, shapes and dtypes"]


def _ok(ans):
    return isinstance(ans, list) and ans and ans[0] == "ok"


# ------------------------------------------------------------------------------------------------
# the modelled pipeline language  (JSON)  ->  model s-expression / dask / numpy
# ------------------------------------------------------------------------------------------------
# {"op":"leaf","chunks":[[..],..]} | {"op":"ew","a":p,"b":p} | {"op":"T","perm":[..],"a":p} | {"op":"drop","axis":k,"a":p}
# {"op":"keep","axis":k,"a":p} | {"op":"new","axis":k,"a":p} | {"op":"concat","axis":k,"a":p,"b":p} | {"op":"stack","axis":k,"a":p,"b":p}

def m_sexp(p):
    op = p["op"]
    if op == "leaf":
        return [Sym("leaf"), p["chunks"]]
    if op == "ew":
        return [Sym("ew"), m_sexp(p["a"]), m_sexp(p["b"])]
    if op == "T":
        return [Sym("T"), p["perm"], m_sexp(p["a"])]
    if op in ("drop", "keep", "new"):
        return [Sym(op), p["axis"], m_sexp(p["a"])]
    if op in ("concat", "stack"):
        return [Sym(op), p["axis"], m_sexp(p["a"]), m_sexp(p["b"])]
    raise ValueError(op)


def m_run(p, lib, counter=None):
    import numpy as np
    import dask.array as da
    counter = counter if counter is not None else [0]
    op = p["op"]
    if op == "leaf":
        counter[0] += 1
        shape = [sum(c) for c in p["chunks"]]
        x = U.leaf_data(shape, "i8", counter[0])
        return x if lib == "np" else da.from_array(x, chunks=tuple(tuple(c) for c in p["chunks"]))
    if op == "ew":
        return m_run(p["a"], lib, counter) + m_run(p["b"], lib, counter)
    if op == "T":
        return m_run(p["a"], lib, counter).transpose(p["perm"])
    if op == "drop":
        return m_run(p["a"], lib, counter).sum(axis=p["axis"])
    if op == "keep":
        return m_run(p["a"], lib, counter).sum(axis=p["axis"], keepdims=True)
    if op == "new":
        a = m_run(p["a"], lib, counter)
        if lib == "np":
            return np.expand_dims(a, p["axis"])
        return a.map_blocks(U._ExpandDims(p["axis"]), new_axis=p["axis"], dtype=a.dtype)
    if op == "concat":
        m = np if lib == "np" else da
        return m.concatenate([m_run(p["a"], lib, counter), m_run(p["b"], lib, counter)], axis=p["axis"])
    if op == "stack":
        m = np if lib == "np" else da
        return m.stack([m_run(p["a"], lib, counter), m_run(p["b"], lib, counter)], axis=p["axis"])
    raise ValueError(op)


def gen_modelled(rng, depth):
    """random pipeline of the modelled operations; returns (prog, shape) with shapes valid for NumPy"""
    if depth <= 0 or rng.random() < 0.15:
        nd = rng.randint(0, 3)
        shape = [rng.choice([0, 1, 1, 2, 3, 4]) if rng.random() < 0.9 else 5 for _ in range(nd)]
        return {"op": "leaf", "chunks": U.rand_chunks(rng, shape, 0.12)}, shape
    p, shape = gen_modelled(rng, depth - 1)
    nd = len(shape)
    t = rng.choice(["ew", "ew", "T", "drop", "keep", "new", "concat", "stack"])
    if t == "ew":
        # a leaf that broadcasts against `shape`
        k = rng.randint(0, nd)
        sh = [s if rng.random() < 0.7 else 1 for s in shape[nd - k:]]
        if rng.random() < 0.15:
            sh = [rng.randint(1, 3)] + list(shape)
        q = {"op": "leaf", "chunks": U.rand_chunks(rng, sh)}
        import numpy as np
        try:
            out = list(np.broadcast_shapes(tuple(shape), tuple(sh)))
        except ValueError:
            return p, shape
        a, b = (p, q) if rng.random() < 0.6 else (q, p)
        return {"op": "ew", "a": a, "b": b}, out
    if t == "T" and nd >= 1:
        perm = list(range(nd))
        rng.shuffle(perm)
        return {"op": "T", "perm": perm, "a": p}, [shape[i] for i in perm]
    if t == "drop" and nd >= 1:
        ax = rng.randrange(nd)
        return {"op": "drop", "axis": ax, "a": p}, shape[:ax] + shape[ax + 1:]
    if t == "keep" and nd >= 1:
        ax = rng.randrange(nd)
        return {"op": "keep", "axis": ax, "a": p}, shape[:ax] + [1] + shape[ax + 1:]
    if t == "new":
        ax = rng.randint(0, nd)
        return {"op": "new", "axis": ax, "a": p}, shape[:ax] + [1] + shape[ax:]
    if t == "concat" and nd >= 1:
        ax = rng.randrange(nd)
        sh = list(shape)
        sh[ax] = rng.choice([0, 1, 2, 3])
        q = {"op": "leaf", "chunks": U.rand_chunks(rng, sh)}
        out = list(shape)
        out[ax] = shape[ax] + sh[ax]
        a, b = (p, q) if rng.random() < 0.6 else (q, p)
        return {"op": "concat", "axis": ax, "a": a, "b": b}, out
    if t == "stack":
        ax = rng.randint(0, nd)
        q = {"op": "leaf", "chunks": U.rand_chunks(rng, shape)}
        return {"op": "stack", "axis": ax, "a": p, "b": q}, shape[:ax] + [2] + shape[ax:]
    return p, shape


def _check_blocks(ctx, d, x, what, maxblocks=24):
    """the clauses of the statement on one dask array `d` whose NumPy value is `x`"""
    import numpy as np
    x = np.asarray(x)
    if tuple(d.shape) != x.shape:
        ctx.fail(what + ": lazy shape differs from the NumPy result", observed=list(d.shape), expected=list(x.shape))
        return False
    if any(sum(c) != s for c, s in zip(d.chunks, d.shape)):
        ctx.fail(what + ": chunks do not sum to the shape", observed=[list(c) for c in d.chunks])
        return False
    full = np.asarray(d.compute(scheduler="sync"))
    if full.shape != x.shape:
        ctx.fail(what + ": computed shape differs from lazy shape", observed=list(full.shape), expected=list(d.shape))
        return False
    if full.dtype != d.dtype:
        ctx.fail(what + ": computed dtype differs from lazy dtype", observed=str(full.dtype), expected=str(d.dtype))
    if d.dtype != x.dtype:
        # not part of C25 (lazy vs computed); NumPy's dtype is the business of the per-operation properties
        # (seen: da.tensordot(int32, int32) is int64 lazily AND computed, NumPy gives int32)
        ctx.note("dtype-differs-from-numpy-but-lazy==computed")
    same = np.allclose(full, x, equal_nan=True) if x.dtype.kind in "fc" else np.array_equal(full, x)
    if not same:
        ctx.fail(what + ": computed values differ from NumPy", observed=full.tolist() if full.size < 30 and x.dtype.kind in "biuf" else None,
                 expected=x.tolist() if x.size < 30 and x.dtype.kind in "biuf" else None)
        return False
    grid = list(itertools.product(*[range(n) for n in d.numblocks]))
    sel = grid if len(grid) <= maxblocks else ctx.rng.sample(grid, maxblocks)
    starts = [U.cumsum0(c) for c in d.chunks]
    use_delayed = ctx.rng.random() < 0.3 and d.ndim > 0
    delayed = d.to_delayed() if use_delayed else None
    for idx in sel:
        if d.ndim == 0:
            b = full
        elif use_delayed:
            b = np.asarray(delayed[idx].compute(scheduler="sync"))
        else:
            b = np.asarray(d.blocks[idx].compute(scheduler="sync"))
        want = tuple(c[i] for c, i in zip(d.chunks, idx))
        if b.shape != want:
            ctx.fail(what + ": a separately computed block does not have the shape .chunks declares",
                     observed=[list(idx), list(b.shape)], expected=list(want))
            return False
        sl = tuple(slice(st[i], st[i + 1]) for st, i in zip(starts, idx))
        ok = np.allclose(b, x[sl], equal_nan=True) if x.dtype.kind in "fc" else np.array_equal(b, x[sl])
        if not ok:
            ctx.fail(what + ": a separately computed block is not the slice of the result at its block index", observed=list(idx))
            return False
    if len(grid) > 1:
        ctx.branch("multi-block-result")
    if use_delayed:
        ctx.branch("via-to_delayed")
    if any(0 in c for c in d.chunks):
        ctx.branch("zero-length-chunk-in-result")
    return True


def case_modelled(ctx, inp):
    import numpy as np
    p = inp["prog"]
    try:
        x = m_run(p, "np")
    except Exception:
        ctx.note("numpy-invalid")
        return
    try:
        d = m_run(p, "da")
    except Exception as e:
        ctx.fail("dask raised on a pipeline NumPy accepts: " + repr(e)[:160])
        return
    m = ctx.lean(Sym("metachunks"), m_sexp(p))
    ctx.eq("lazy chunks of the pipeline", m, [Sym("ok"), [[int(c) for c in ax] for ax in d.chunks]])
    mb = ctx.lean(Sym("metablocks"), m_sexp(p))
    ctx.eq("model: block lengths agree with the model's chunks (the theorem, re-checked at run time)", mb, True)
    _check_blocks(ctx, d, x, "modelled pipeline")
    ops = _ops(p)
    for o in set(ops):
        ctx.branch("m-" + o)


def _ops(p):
    out = [p["op"]]
    for k in ("a", "b"):
        if isinstance(p.get(k), dict):
            out += _ops(p[k])
    return out


# ------------------------------------------------------------------------------------------------
# API level: the whole operation pool
# ------------------------------------------------------------------------------------------------

POOL_W = {"un": 2, "bin": 5, "where": 1, "astype": 1, "clip": 1, "T": 2, "sum": 2, "red": 3, "cumsum": 2, "rechunk": 2,
          "slice": 5, "take": 2, "concat": 2, "stack": 2, "bcast": 1, "reshape": 2, "expand": 1, "squeeze": 1, "flip": 1,
          "repeat": 1, "tile": 1, "pad": 1, "diff": 1, "dot": 2, "mb": 1, "mb_new": 1, "mb_drop": 1, "bwsum": 1, "bwlist": 1,
          "bw2": 1, "bwc": 1, "mb2": 2}


OWN_W = {"un": 2, "bin": 6, "where": 2, "astype": 1, "clip": 1, "T": 3, "mb": 2, "mb2": 3, "mb_new": 2, "mb_drop": 2,
         "bwsum": 2, "bwlist": 2, "bw2": 3, "bwc": 3, "concat": 3, "stack": 3, "bcast": 1}


def case_pipeline(ctx, inp):
    import numpy as np
    prog = inp["prog"]
    with np.errstate(all="ignore"):
        try:
            x = np.asarray(U.run_prog(prog, "np"))
        except Exception:
            ctx.note("numpy-invalid-program")
            return
        try:
            d = U.run_prog(prog, "da")
        except NotImplementedError:
            ctx.note("dask-declares-unsupported")   # e.g. reshape that neither merges nor splits dimensions evenly
            return
        except Exception as e:
            # C25 is about expressions dask can build (lazy metadata exists); refusing to build one is the business of
            # the per-operation properties (seen: da.repeat on a zero-length axis -> "Need array(s) to concatenate")
            ctx.note("dask-refuses-to-build:" + type(e).__name__)
            return
        try:
            _check_blocks(ctx, d, x, "pipeline", maxblocks=12)
        except Exception as e:
            ctx.fail("dask raised while computing a pipeline NumPy accepts: " + type(e).__name__ + ": " + str(e)[:160],
                     sig=_known_sig(prog, e))
            return
    ops = U.prog_ops(prog)
    for o in set(ops):
        ctx.note("op:" + o.split(":")[0])
    ctx.branch("depth-%d" % min(len(ops), 6))
    ctx.branch("dtype-" + x.dtype.kind)


def _known_sig(prog, e):
    return None


CASES = {"modelled": case_modelled, "pipeline": case_pipeline}


def generate(ctx):
    rng = ctx.rng
    for _ in range(ctx.n(220, 2200)):
        p, _sh = gen_modelled(rng, rng.randint(1, 5))
        yield "modelled", {"prog": p}
    # whole pool (zero-LENGTH dimensions allowed). Interior zero-length chunks such as (1, 0, 0) are generated only for the
    # blockwise family below: for the operations owned by other properties (reshape, reductions, slicing, …) they expose
    # per-operation defects that are reported to their owners (see notes/hlg.md), not C25 metadata defects.
    G = U.ProgGen(rng, POOL_W, leaf_dtypes=("i8", "f8", "i4", "bool", "f4"), maxdim=4, maxnd=3, allow_zero=True)
    for _ in range(ctx.n(120, 1700)):
        p, _x = G.gen(rng.randint(2, 6))
        yield "pipeline", {"prog": p}
    G0 = U.ProgGen(rng, OWN_W, leaf_dtypes=("i8", "f8", "i4", "bool"), maxdim=4, maxnd=3, allow_zero=True, zero_chunks=0.2)
    for _ in range(ctx.n(60, 600)):
        p, _x = G0.gen(rng.randint(1, 5))
        yield "pipeline", {"prog": p, "stream": "zero-chunks"}
