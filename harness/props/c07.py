"""C07 — toposort / getcycle / isdag.

Model:    lean/DaskModel/Model/GraphAlg.lean (transliteration of dask.core._toposort incl. the cycle walk)
Theorems: lean/DaskModel/Props/C07.lean
Tie:      function-level diff of `_toposort` (explicit ordered `dependencies=`; both `returncycle` modes) and of the
          public `toposort / getcycle / isdag` on legacy graphs (set iteration order observed and handed to the model),
          plus the statement's clauses evaluated directly on the real outputs against an independent reference.
"""
from __future__ import annotations

from sexp import Sym
from props._graph_util import (all_digraphs, enc_graph, has_cycle_from, mk_key, nonempty_subsets, random_dag,
                               random_digraph, reachable)

PROP = "C07"
READY = True
DRIVER = "dm_graph"
LEAN_MODULES = ["DaskModel.Props.C07"]
LEVEL_TEXT = ("Lean 4 theorems over a transliteration of dask.core._toposort (explicit stack, completed/seen sets, cycle "
              "reconstruction walk, as repaired), for every graph, start list and adjacency order. FULL: toposort_total (on a "
              "closed graph with unique keys the algorithm always answers: the loops terminate within the fuel, no lookup fails, "
              "and the greedy min-priority walk always closes the cycle -- proved from a stack-structure invariant: every stack "
              "entry was pushed by the nearest expanded node below it, priorities are strictly ordered by last stack position), "
              "toposort_nodup, toposort_respects_deps, toposort_mem_iff_reach (output = exactly the reachable keys, all keys for "
              "toposort(dsk)), toposort_raises_iff_cycle, toposort_cycle_is_cycle (closed walk along dependency edges through "
              "reachable keys), getcycle_is_cycle, getcycle_nil_iff_acyclic, isdag_eq/isdag_true_acyclic/isdag_false_cyclic.")
LEVEL_NOTE = ("Trusted: Lean kernel + standard axioms; the hand transliteration, tied by function-level diff of _toposort with "
              "explicit ordered dependencies (all digraphs <= 3 nodes with self-loops x all start subsets, all loop-free "
              "digraphs on 4 nodes, random graphs <= 30 nodes) and of toposort/getcycle/isdag on legacy and task-spec graphs; "
              "Python set iteration order is observed, not modelled. The unrepaired code hung on graphs whose DFS stack "
              "held a node twice (fixed in /repo, see known_findings.json); the termination proof is about the repaired code.")
TECHNIQUE = "Lean 4 proof (invariants of the explicit-stack DFS) + differential correspondence"
ASSUMPTIONS = ["keys are compared only through ==/hash (interned to Nat for the model)",
               "iteration order of a dependency set is the one observed by the harness from an identically built set"]
CASE_TIMEOUT_S = 10


def _f(*a):
    return 0


def _oracle_topo(ctx, adj, starts, res, what):
    """res = ("ordered", list) | ("raised", name). Statement clauses for toposort."""
    cyc = has_cycle_from(adj, starts)
    if cyc:
        if res[0] != "raised" or res[1] != "RuntimeError":
            ctx.fail(f"{what}: cycle reachable but no RuntimeError", observed=res)
        return
    if res[0] != "ordered":
        ctx.fail(f"{what}: acyclic graph rejected", observed=res)
        return
    out = res[1]
    want = reachable(adj, starts)
    if len(out) != len(set(out)):
        ctx.fail(f"{what}: a key is returned twice", observed=out)
    if set(out) != want:
        ctx.fail(f"{what}: returned keys are not exactly the (reachable) graph keys", observed=out, expected=sorted(want))
    pos = {k: i for i, k in enumerate(out)}
    for k in out:
        for d in adj[k]:
            if d in pos and pos[d] >= pos[k]:
                ctx.fail(f"{what}: key {k} is placed before its dependency {d}", observed=out)
                return


def _oracle_cycle(ctx, adj, starts, c, what):
    cyc = has_cycle_from(adj, starts)
    if not cyc:
        if c != []:
            ctx.fail(f"{what}: cycle reported for an acyclic graph", observed=c)
        return
    if not c:
        ctx.fail(f"{what}: reachable cycle not found", observed=c)
        return
    if len(c) < 2 or c[0] != c[-1]:
        ctx.fail(f"{what}: returned list is not closed", observed=c)
    if any(b not in adj[a] for a, b in zip(c, c[1:])):
        ctx.fail(f"{what}: consecutive elements are not dependency edges", observed=c)
    if not set(c) <= reachable(adj, starts):
        ctx.fail(f"{what}: cycle not reachable from the given keys", observed=c)


def _exc(e):
    return ["raised", type(e).__name__]


def case_explicit(ctx, inp):
    """`_toposort(dsk, keys, returncycle, dependencies=<dict of lists>)`: adjacency order fully controlled."""
    from dask.core import _toposort
    adj, keys = inp["adj"], inp["keys"]
    n = len(adj)
    deps = {i: list(adj[i]) for i in range(n)}
    dsk = {i: 0 for i in range(n)}
    kl = list(range(n)) if keys is None else keys
    model = ctx.lean(Sym("toposort"), enc_graph(adj), kl)
    in_range = all(0 <= k < n for k in kl) and all(0 <= d < n for row in adj for d in row)
    # returncycle=False
    try:
        out = _toposort(dsk, keys=keys, dependencies=deps)
        impl = ["ordered", list(out)]
    except RuntimeError as e:
        impl = _exc(e)
        msg = str(e)
    except KeyError as e:
        impl = _exc(e)
    # returncycle=True
    try:
        cyc = _toposort(dsk, keys=keys, returncycle=True, dependencies=deps)
        impl_c = ["ok", list(cyc)]
    except KeyError as e:
        impl_c = _exc(e)
    if model[0] == "ordered":
        ctx.eq("_toposort ordered", ["ordered", model[1]], impl)
        ctx.eq("_toposort returncycle", ["ok", []], impl_c)
    elif model[0] == "cycle":
        ctx.branch("cycle")
        if len(model[1]) > 3:
            ctx.branch("cycle-len>2")
        ctx.eq("_toposort raises on cycle", ["raised", "RuntimeError"], impl)
        ctx.eq("_toposort returncycle", ["ok", model[1]], impl_c)
        if impl[0] == "raised" and impl[1] == "RuntimeError":
            ctx.eq("cycle in message", "Cycle detected in Dask: " + "->".join(str(x) for x in model[1]), msg)
    elif model[0] == "keyerror":
        ctx.branch("keyerror")
        ctx.eq("_toposort KeyError", ["raised", "KeyError"], impl)
        ctx.eq("_toposort returncycle KeyError", ["raised", "KeyError"], impl_c)
    else:
        ctx.disagree("model did not terminate normally", model, impl)
    if in_range:
        if any(len(r) > 1 for r in adj):
            ctx.branch("fanout")
        if len(set(kl)) < len(kl):
            ctx.branch("duplicate-start-keys")
        _oracle_topo(ctx, adj, kl, impl, "_toposort")
        if impl_c[0] == "ok":
            _oracle_cycle(ctx, adj, kl, impl_c[1], "_toposort(returncycle)")
        else:
            ctx.fail("_toposort(returncycle=True) raised", observed=impl_c)


def case_public(ctx, inp):
    """public `toposort(dsk)`, `getcycle(dsk, keys)`, `isdag(dsk, keys)` on a legacy graph."""
    from dask.core import get_dependencies, getcycle, isdag, toposort
    adj, starts, kind = inp["adj"], inp["keys"], inp.get("kind", "str")
    n = len(adj)
    K = [mk_key(kind, i) for i in range(n)]
    back = {k: i for i, k in enumerate(K)}
    style = inp.get("style", "tuple")
    if style == "tuple":
        dsk = {K[i]: (_f,) + tuple(K[j] for j in adj[i]) for i in range(n)}
    elif style == "list":   # non-task list nodes / nested
        dsk = {K[i]: (_f, [K[j] for j in adj[i]]) if i % 2 else [K[j] for j in adj[i]] for i in range(n)}
    else:                   # task-spec nodes
        from dask._task_spec import Alias, DataNode, Task, TaskRef
        dsk = {}
        for i in range(n):
            if len(adj[i]) == 1 and adj[i][0] != i and i % 2:
                dsk[K[i]] = Alias(K[i], K[adj[i][0]])
            elif not adj[i]:
                dsk[K[i]] = DataNode(K[i], i)
            else:
                dsk[K[i]] = Task(K[i], _f, *[TaskRef(K[j]) for j in adj[i]])
    # the order in which the real code will iterate each dependency set
    obs = []
    for i in range(n):
        v = dsk[K[i]]
        d = v.dependencies if hasattr(v, "dependencies") else get_dependencies(dsk, task=v)
        obs.append([back[x] for x in d])
    if any(sorted(set(o)) != sorted(set(adj[i])) for i, o in enumerate(obs)):
        ctx.disagree("get_dependencies differs from the generated adjacency", [sorted(set(a)) for a in adj], obs)
        return
    g = enc_graph(obs)
    # toposort over all keys
    try:
        impl = ["ordered", [back[k] for k in toposort(dsk)]]
    except RuntimeError as e:
        impl = _exc(e)
    model = ctx.lean(Sym("toposort"), g, list(range(n)))
    ctx.eq("toposort", model if model[0] == "ordered" else ["raised", "RuntimeError"] if model[0] == "cycle" else model, impl)
    _oracle_topo(ctx, obs, list(range(n)), impl, "toposort")
    # getcycle / isdag from the start keys (list, or a single key when one start is given and single=True)
    kl = [K[i] for i in starts]
    karg = kl[0] if inp.get("single") and len(kl) == 1 else kl
    c = [back[k] for k in getcycle(dsk, karg)]
    mc = ctx.lean(Sym("getcycle"), g, list(starts))
    ctx.eq("getcycle", mc, ["ok", c])
    _oracle_cycle(ctx, obs, list(starts), c, "getcycle")
    d = isdag(dsk, karg)
    md = ctx.lean(Sym("isdag"), g, list(starts))
    ctx.eq("isdag", md, ["ok", bool(d)])
    if d is not (not c):
        ctx.fail("isdag disagrees with getcycle", observed=[d, c])
    if bool(d) != (not has_cycle_from(obs, list(starts))):
        ctx.fail("isdag wrong", observed=d)
    if c:
        ctx.branch("cycle")
        if len(c) > 3:
            ctx.branch("cycle-len>2")
    if style != "tuple":
        ctx.branch("style-" + style)


def case_reverse_dict(ctx, inp):
    from dask.core import reverse_dict
    adj = inp["adj"]
    d = {i: list(r) for i, r in enumerate(adj)}
    impl = reverse_dict(d)
    model = ctx.lean(Sym("reverse_dict"), enc_graph(adj))
    ctx.eq("reverse_dict", sorted([k, sorted(v)] for k, v in model), sorted([k, sorted(v)] for k, v in impl.items()))
    ctx.eq("reverse_dict key order", [k for k, _ in model], list(impl))
    for k, vs in impl.items():
        for v in vs:
            if k not in d.get(v, []):
                ctx.fail("reverse_dict invents an edge", observed=[k, v])
    for i, r in enumerate(adj):
        for j in r:
            if i not in impl.get(j, ()):
                ctx.fail("reverse_dict loses an edge", observed=[i, j])
    if any(adj):
        ctx.branch("nonempty")


CASES = {"explicit": case_explicit, "public": case_public, "reverse_dict": case_reverse_dict}


def generate(ctx):
    rng = ctx.rng
    # malformed stream: missing start key, dependency outside the mapping
    yield "explicit", {"adj": [[1], []], "keys": [5]}
    yield "explicit", {"adj": [[1], [7]], "keys": [0]}
    yield "explicit", {"adj": [[1, 7], [0]], "keys": [0]}
    yield "explicit", {"adj": [], "keys": None}
    # exhaustive: all digraphs (with self loops) n<=3 x all start subsets x keys=None; n=4 without self-loops
    for n in (1, 2, 3):
        for adj in all_digraphs(n):
            yield "explicit", {"adj": adj, "keys": None}
            for st in nonempty_subsets(n):
                yield "explicit", {"adj": adj, "keys": list(st)}
    if ctx.thorough():
        for adj in all_digraphs(4, self_loops=False):
            for st in nonempty_subsets(4):
                yield "explicit", {"adj": adj, "keys": list(st)}
            yield "public", {"adj": adj, "keys": [rng.randrange(4)], "kind": rng.choice(["str", "int", "tuple", "mixed"])}
    else:
        for i, adj in enumerate(all_digraphs(4, self_loops=False)):
            yield "explicit", {"adj": adj, "keys": None}
            sts = list(nonempty_subsets(4))
            for st in (sts[(i * 7) % 15], sts[(i * 11 + 3) % 15]):
                yield "explicit", {"adj": adj, "keys": list(st)}
    # random: permuted adjacency orders and start orders, duplicates in keys, larger graphs
    for _ in range(ctx.n(1500, 20000)):
        n = rng.randint(1, rng.choice([5, 8, 12, 30]))
        if rng.random() < 0.5:
            adj = random_digraph(rng, n, rng.choice([0.05, 0.1, 0.2, 0.4]) if n > 6 else rng.choice([0.2, 0.4, 0.6]))
        else:
            adj = random_dag(rng, n, rng.choice([0.1, 0.3, 0.6]))
            for _k in range(rng.choice([0, 0, 1, 2])):   # plant back edges
                a, b = rng.randrange(n), rng.randrange(n)
                adj[a].insert(rng.randint(0, len(adj[a])), b) if b not in adj[a] else None
        r = rng.random()
        if r < 0.3:
            keys = None
        else:
            keys = [rng.randrange(n) for _k in range(rng.randint(1, min(n, 4)))]
        yield "explicit", {"adj": adj, "keys": keys}
    for _ in range(ctx.n(600, 6000)):
        n = rng.randint(1, rng.choice([4, 6, 10, 20]))
        adj = random_digraph(rng, n, rng.choice([0.1, 0.2, 0.4])) if rng.random() < 0.6 else random_dag(rng, n, 0.4)
        adj = [sorted(set(r)) for r in adj]
        st = sorted(rng.sample(range(n), rng.randint(1, min(n, 3))))
        yield "public", {"adj": adj, "keys": st, "kind": rng.choice(["str", "int", "tuple", "mixed"]),
                         "style": rng.choice(["tuple", "tuple", "list", "spec"]), "single": rng.random() < 0.5}
    for _ in range(ctx.n(100, 1000)):
        n = rng.randint(0, 8)
        yield "reverse_dict", {"adj": random_digraph(rng, n, 0.3)}
