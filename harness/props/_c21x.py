"""C21 extension round: (a) the `where` path of `Array.__setitem__` (full-shape boolean masks) and (b) the value-index
bookkeeping of `setitem_array` (which piece of the broadcast value each block reads).

Model:    lean/DaskModel/Model/SetItemMask.lean (dispatch, wherePlan, whereBlock, npMaskAssign),
          lean/DaskModel/Model/SetItemND.lean (planND — unchanged) + lean/DaskModel/Lemmas/SetItemNDValue.lean
Theorems: lean/DaskModel/Props/C21x.lean
Tie:      `maskplan`  function level: which branch the real `__setitem__` takes vs `dispatch`; what it raises and the graph
                      it builds vs `wherePlan` (chunks of the `where` layer, ONE `np.where` task per block with the block
                      coordinates of mask / value / array it reads, which inputs were rechunked, rechunk back, final
                      chunks); every computed block of the `where` layer vs `whereBlock`; the whole result vs NumPy and vs
                      the Lean specification `npMaskAssign`
          `maskapi`   API level vs NumPy: masks computed from x itself (comparisons, combinations, negation, isnan, from a
                      rechunked / persisted x), scalar value kinds incl. a 0-d dask value computed from x, both schedulers,
                      computed twice, chunks / dtype unchanged, source unchanged
          `vpieces`   per block of the real `setitem_array` plan: the value positions every value axis is read at
                      (recorded through the proxy value) vs the Lean evaluation `pieces` of `planND`, and the clauses of
                      `value_indices_partition_nd` evaluated on the real plan
Imported by c21.py (sections appended to its CASES / generate).
"""
from __future__ import annotations

import itertools

from sexp import Sym

from props._slicing_util import compositions, random_chunks, unsym


# --------------------------------------------------------------------------------------
# (a) the `where` path
# --------------------------------------------------------------------------------------

def _mask_value(kind, x, d):
    """the assignment value; returns (value for dask, value for NumPy, shape or None)"""
    import numpy as np
    import dask.array as da
    if kind == "int":
        return -7, -7, []
    if kind == "float":
        return -7.75, -7.75, []
    if kind == "npscalar":
        return np.int16(-7), np.int16(-7), []
    if kind == "zerod":
        return np.array(-7), np.array(-7), []
    if kind == "dask0d":
        return da.from_array(np.array(-7), chunks=()), np.array(-7), []
    if kind == "dask-from-x":
        return d.max() + 1, (x.max() + 1 if x.size else 0), []
    if kind == "shape1":
        return np.array([-7]), np.array([-7]), [1]
    if kind == "count":
        return None, None, None           # filled by the caller: one value per True element
    raise ValueError(kind)


def _self_mask(op, k, a):
    """a mask computed from the array itself (works for NumPy and dask arrays alike)"""
    if op == "gt":
        return a > k
    if op == "le":
        return a <= k
    if op == "mod":
        return a % 3 == k % 3
    if op == "and":
        return (a % 2 == 0) & (a > k)
    if op == "not":
        return ~(a > k)
    if op == "ne-self":
        return a != a            # all False
    if op == "eq-self":
        return a == a            # all True
    raise ValueError(op)


def case_maskplan(ctx, inp):
    import numpy as np
    import dask
    import dask.array as da
    shape = tuple(inp["shape"])
    chunks = tuple(tuple(c) for c in inp["chunks"])
    x = np.arange(int(np.prod(shape)), dtype=int).reshape(shape)
    d = da.from_array(x.copy(), chunks=chunks)
    src_name = d.name
    kind = inp["mkind"]                    # "da" | "np" | "self"
    if kind == "self":
        m = np.asarray(_self_mask(inp["op"], inp["k"], x))
        key = _self_mask(inp["op"], inp["k"], d)
        mchunks = chunks
    else:
        mshape = tuple(inp.get("mshape") or shape)
        m = np.array(inp["mask"], dtype=bool).reshape(mshape)
        if kind == "da":
            mchunks = tuple(tuple(c) for c in (inp.get("mchunks") or chunks))
            key = da.from_array(m, chunks=mchunks)
        else:
            key = m
            mchunks = tuple((s,) for s in mshape)      # asarray(key): one chunk per axis (small arrays)
    vd, vn, vshape = _mask_value(inp["vkind"], x, d)
    if vshape is None:
        vn = -(np.arange(int(m.sum())) + 1)
        vd, vshape = vn, [int(m.sum())]
    # ---- which branch
    path = unsym(ctx.lean(Sym("maskdispatch"), len(shape), kind != "np", True, m.ndim))
    y = x.copy()
    try:
        y[m] = vn
        np_out = "ok"
    except (IndexError, ValueError, TypeError) as e:
        np_out = type(e).__name__
    try:
        d[key] = vd
        real = "ok"
    except (IndexError, ValueError) as e:
        real = type(e).__name__
    if path != "where":
        # the key goes to setitem_array (covered by the sections plan / api): only the branch is compared here
        if real == "ok":
            ctx.eq("branch of __setitem__", path, "where" if any(k.startswith("where-") for k in d.dask.layers) else "setitem_array")
            ctx.branch("maskplan-dispatch-setitem_array")
            got = d.compute(scheduler="sync")
            if np_out == "ok" and (got.shape != y.shape or (got != y).any()):
                ctx.fail("x[mask] = v (setitem_array branch) differs from NumPy", observed=got.tolist(), expected=y.tolist())
        elif np_out == "ok":
            ctx.fail("x[mask] = v (setitem_array branch) raised " + real + " although NumPy accepts", observed=real)
        return
    if m.ndim != len(shape):
        ctx.note("maskplan-rank-mismatch-not-modelled")
        return
    model = unsym(ctx.lean(Sym("whereplan"), [list(c) for c in chunks], [list(c) for c in mchunks], list(vshape)))
    if model[0] != "ok":
        ctx.eq("outcome of the where path", model[0], real)
        ctx.branch("maskplan-" + model[0])
        if model[0] == "IndexError" and np_out == "ok":
            ctx.fail("x[mask] = v: IndexError although NumPy accepts", observed=real)
        return
    if real != "ok":
        ctx.disagree("outcome of the where path", "ok", real)
        return
    _, unified, tasks, m_re, x_re, back, fchunks = model
    if x.size == 0:
        # rechunking an empty array builds a fresh `empty_like` array (no dependence on the where layer): only the
        # outcome is compared
        ctx.eq("chunks after the assignment", fchunks, [list(c) for c in d.chunks])
        got = d.compute(scheduler="sync")
        if got.shape != x.shape or got.dtype != x.dtype:
            ctx.fail("x[mask] = v on an empty array changed shape or dtype", observed=[list(got.shape), str(got.dtype)])
        ctx.branch("maskplan-empty-array")
        return
    wl = [k for k in d.dask.layers if k.startswith("where-")]
    ctx.eq("branch of __setitem__", "where", "where" if wl else "setitem_array")
    if len(wl) != 1:
        ctx.disagree("number of where layers", 1, len(wl))
        return
    layer = d.dask.layers[wl[0]]
    mat = dict(layer)
    # ---- one np.where task per block, reading the blocks the model names
    impl_tasks, arg_names = [], None
    for k in sorted(mat):
        t = mat[k]
        fn = getattr(t, "kwargs", {}).get("enforce_dtype_function", getattr(t, "func", None))
        if fn is not np.where:
            ctx.fail("a task of the where layer is not np.where", observed=repr(t)[:200])
            return
        refs = [a.key for a in t.args]
        if arg_names is None:
            arg_names = [r[0] for r in refs]
        impl_tasks.append([list(k[1:]), [list(r[1:]) for r in refs]])
    ctx.eq("tasks of the where layer (block -> mask / value / array block)", sorted(tasks), impl_tasks)
    nblocks = 1
    for c in unified:
        nblocks *= len(c)
    if len(mat) != nblocks:
        ctx.fail("not one where task per block", observed=len(mat), expected=nblocks)
    # ---- chunks of the layer and every block's values
    flat_m = [bool(t) for t in m.ravel().tolist()]
    flat_x = [int(t) for t in x.ravel().tolist()]
    scalar = int(np.asarray(vn)) if float(np.asarray(vn)) == int(np.asarray(vn)) else None
    blocks = dask.get(d.dask, sorted(mat))
    impl_unified = [[None] * len(c) for c in unified]
    ok_shape = True
    for k, blk in zip(sorted(mat), blocks):
        for ax, (b, n) in enumerate(zip(k[1:], np.shape(blk))):
            if b < len(impl_unified[ax]):
                if impl_unified[ax][b] not in (None, n):
                    ok_shape = False
                impl_unified[ax][b] = n
    ctx.eq("chunks of the where layer", unified, impl_unified if ok_shape else "ragged")
    if scalar is not None and ok_shape and impl_unified == unified:
        for k, blk in zip(sorted(mat), blocks):
            if ctx.rng.random() < 0.5 or len(mat) <= 4:
                mb = unsym(ctx.lean(Sym("whereblock"), list(shape), unified, flat_m, scalar, flat_x, list(k[1:])))
                ctx.eq("values of a where block", mb, [int(t) for t in np.asarray(blk).ravel().tolist()])
    # ---- rechunking of the inputs, rechunk back, final chunks
    if arg_names is not None and kind != "np":
        ctx.eq("mask rechunked", m_re, arg_names[0].startswith("rechunk"))
    if arg_names is not None:
        ctx.eq("array rechunked", x_re, arg_names[2] != src_name)
    ctx.eq("rechunk back", back, not d.name.startswith("where-"))
    ctx.eq("chunks after the assignment", fchunks, [list(c) for c in d.chunks])
    if tuple(d.chunks) != chunks:
        ctx.fail("chunks changed by masked assignment", observed=[list(c) for c in d.chunks])
    # ---- the result: NumPy and the Lean specification
    got = d.compute(scheduler="sync")
    if np_out != "ok":
        ctx.fail("x[mask] = v accepted although NumPy raises " + np_out, observed=got.tolist())
        return
    if got.shape != y.shape or (got != y).any():
        ctx.fail("x[mask] = v differs from NumPy", observed=got.tolist(), expected=y.tolist())
    if scalar is not None:
        spec = unsym(ctx.lean(Sym("npmask"), flat_m, flat_x, [scalar] * sum(flat_m)))
        ctx.eq("NumPy's masked assignment (Lean spec) vs NumPy", spec, [int(t) for t in y.ravel().tolist()])
    ctx.branch("maskplan-" + kind)
    if back:
        ctx.branch("maskplan-rechunk-back")
    if m_re or x_re:
        ctx.branch("maskplan-input-rechunked")
    if nblocks > 1:
        ctx.branch("maskplan-multiblock")
    if any(0 in c for c in chunks):
        ctx.branch("maskplan-zero-length-chunk")


def case_maskapi(ctx, inp):
    import numpy as np
    import dask.array as da
    shape = tuple(inp["shape"])
    chunks = tuple(tuple(c) for c in inp["chunks"])
    n = int(np.prod(shape))
    if inp.get("dtype") == "float":
        x = (np.arange(n, dtype=float) - n // 2).reshape(shape) / 2
        if inp.get("nan"):
            x.ravel()[:: max(2, inp["nan"])] = np.nan
    else:
        x = (np.arange(n, dtype=inp.get("dtype") or int) - n // 3).reshape(shape)
    x0 = x.copy()
    src = inp.get("src", "from_array")
    xa = x.copy()
    d = da.from_array(xa, chunks=chunks)
    if src == "arith":
        d = d + 0
    elif src == "persist":
        d = (d + 0).persist(scheduler="sync")
    snap = d.copy()          # the same graph and blocks, before the assignment
    if inp["op"] == "isnan":
        key, m = da.isnan(d), np.isnan(x)
    else:
        base = d.rechunk(tuple(tuple(c) for c in inp["rechunk"])) if inp.get("rechunk") else d
        key, m = _self_mask(inp["op"], inp["k"], base), np.asarray(_self_mask(inp["op"], inp["k"], x))
    vk = inp["vkind"]
    if vk == "dask-from-x":
        # (no arithmetic on the maximum: int8 / uint8 would overflow)
        vd, vn = (d.max() if inp["op"] != "isnan" else da.nanmax(d)), (np.nanmax(x) if x.size else 0)
    elif vk == "dask0d":
        vd, vn = da.from_array(np.array(-7), chunks=()), -7
    elif vk == "zerod":
        vd = vn = np.array(-7)
    elif vk == "float":
        vd = vn = -7.75
    else:
        vd = vn = -7
    y = x.copy()
    try:
        y[m] = vn
    except (ValueError, TypeError):
        ctx.note("numpy-rejects")
        return
    try:
        d[key] = vd
    except Exception as e:      # noqa: BLE001 - every exception is a failure of the property here
        ctx.fail("x[mask_of_x] = v raised " + type(e).__name__, observed=repr(e)[:200])
        return
    sched = inp.get("scheduler", "sync")
    got = d.compute(scheduler=sched)
    again = d.compute(scheduler=sched)

    def same(a, b):
        return a.shape == b.shape and a.dtype == b.dtype and bool(((a == b) | ((a != a) & (b != b))).all())

    if not same(got, y):
        ctx.fail("x[mask_of_x] = v differs from NumPy", observed=got.tolist(), expected=y.tolist())
    if not same(again, got):
        ctx.fail("computing the assigned array twice gives different results", observed=again.tolist(), expected=got.tolist())
    if tuple(d.chunks) != chunks:
        ctx.fail("chunks changed by masked assignment", observed=[list(c) for c in d.chunks])
    if d.dtype != x.dtype:
        ctx.fail("dtype changed by masked assignment", observed=str(d.dtype), expected=str(x.dtype))
    # the source must not have been written: the array handed to from_array and the (persisted) source blocks
    before = snap.compute(scheduler="sync")
    if not same(xa, x0) or not same(before, x0):
        ctx.fail("the source data changed", observed=before.tolist(), expected=x0.tolist())
    ctx.branch("maskapi-" + inp["op"])
    ctx.branch("maskapi-value-" + vk)
    if inp.get("rechunk"):
        ctx.branch("maskapi-mask-from-rechunked-x")
    if src != "from_array":
        ctx.branch("maskapi-src-" + src)


# --------------------------------------------------------------------------------------
# (b) value pieces of setitem_array
# --------------------------------------------------------------------------------------

def _enc_vix(i):
    import numpy as np
    if isinstance(i, slice):
        return [Sym("sl"), [i.start, i.stop, i.step]]
    if i is Ellipsis:
        return [Sym("ellipsis")]
    return [Sym("arr"), [int(t) for t in np.asarray(i).tolist()]]


def case_vpieces(ctx, inp):
    """Per axis of the real plan of setitem_array: the (array position, value position) pairs every block assigns — NumPy's
    own pairing of the real block index with the real value index — vs `axisBlockPairsV`; NumPy's own global pairing of the
    original index vs `axisSelectedV`; every recorded value index evaluated by NumPy vs `vixEval`."""
    import numpy as np
    import dask.array as da
    from dask.array.slicing import parse_assignment_indices, setitem_array
    from dask.core import flatten
    from props.c21 import _Recorder, _cum, _to_index, _value
    shape, chunks = tuple(inp["shape"]), tuple(tuple(c) for c in inp["chunks"])
    x = np.arange(int(np.prod(shape))).reshape(shape)
    d = da.from_array(x, chunks=chunks)
    idx = _to_index(inp["index"], True)
    val = _value(inp)
    y = x.copy()
    try:
        y[_to_index(inp["index"], False)] = val
    except (IndexError, ValueError, TypeError):
        ctx.note("numpy-rejects")
        return
    v = da.asanyarray(val, dtype=x.dtype)
    rec = _Recorder(v)
    try:
        dsk = setitem_array("out", d, idx, rec)
        parsed, implied, reverse, positions = parse_assignment_indices(idx, shape)
    except Exception as e:      # noqa: BLE001 - reported by section `plan`
        ctx.note("setitem_array-raised-" + type(e).__name__)
        return
    if not all(isinstance(i, (slice, int)) or (isinstance(i, np.ndarray) and i.dtype != bool) for i in parsed):
        ctx.note("vpieces-bool-index-not-modelled")
        return
    if 0 in implied:
        ctx.note("vpieces-empty-selection")
        return
    vshape = list(np.shape(val))
    nonint = [ax for ax, i in enumerate(parsed) if not isinstance(i, int)]
    offset = len(nonint) - len(vshape)
    # matched value axis (position in the value, length, reversed?) of every array axis
    vax = {}
    for j, ax in enumerate(nonint):
        i = j - offset if offset >= 0 else j
        vi = i if offset >= 0 else i - offset           # position in value's own axes
        if offset >= 0 and i < 0:
            vax[ax] = None
        else:
            vax[ax] = (vi, vshape[vi], ax in reverse)
    full = list(_to_index(inp["index"], False))
    if any(i is Ellipsis for i in full):
        k = [i is Ellipsis for i in full].index(True)
        full[k:k + 1] = [slice(None)] * (len(shape) - (len(full) - 1))
    full += [slice(None)] * (len(shape) - len(full))
    models = {}
    for ax, ind in enumerate(parsed):
        if isinstance(ind, slice):
            enc = [Sym("sl"), int(ind.start), int(ind.stop), int(ind.step)]
        elif isinstance(ind, int):
            enc = [Sym("int"), ind]
        else:
            enc = [Sym("arr"), [int(t) for t in ind.tolist()]]
        va = vax.get(ax)
        m = unsym(ctx.lean(Sym("axispairs"), list(chunks[ax]), enc, Sym("none") if va is None else [va[1], bool(va[2])]))
        models[ax] = m
        # NumPy's own global pairing along this axis, from the ORIGINAL index
        n = shape[ax]
        orig = full[ax]
        if isinstance(ind, int):
            exp = [[ind, None]]
        else:
            sel = np.arange(n)[orig] if not isinstance(orig, list) else np.arange(n)[np.array(orig, dtype=int)]
            L = len(sel)
            if va is None:
                exp = [[int(p), None] for p in sel]
            else:
                vpos = np.broadcast_to(np.arange(va[1]), (L,)) if va[1] in (1, L) else None
                if vpos is None:
                    ctx.note("vpieces-value-axis-mismatch")
                    return
                exp = [[int(p), int(q)] for p, q in zip(sel, vpos)]
        ctx.eq("NumPy's (position, value position) pairs along an axis", sorted(m[1], key=repr), sorted(exp, key=repr))
        if isinstance(ind, slice) and va is not None:
            # clauses of value_indices_partition_nd on the model's concatenation (list equality incl. order)
            cat = [p for blk in m[0] for p in blk]
            rng_sel = list(range(ind.start, ind.stop, ind.step))
            L = len(rng_sel)
            want = [[p, (0 if va[1] == 1 else (L - 1 - r if va[2] else r))] for r, p in enumerate(rng_sel)]
            ctx.eq("value pieces of all blocks concatenated", cat, want)
    # ---- every touched block of the real plan
    in_keys = list(flatten(d.__dask_keys__()))
    calls = iter(rec.calls)
    nblk = 0
    for in_key in in_keys:
        coords = in_key[1:]
        task = dsk[("out",) + coords]
        if not (isinstance(task, tuple) and len(task) == 4 and callable(task[0])):
            continue
        bi, vi = task[3], list(next(calls))
        nblk += 1
        if vi and vi[0] is Ellipsis:
            vi = vi[1:]
            lead = len(vshape) - len(vi)
            ctx.branch("vpieces-ellipsis")
        else:
            lead = 0
        for ax, b in enumerate(bi):
            l0, l1 = _cum(chunks[ax])[coords[ax]]
            va = vax.get(ax)
            if isinstance(b, (int, np.integer)):
                impl = [[l0 + int(b), None]]
            elif va is None:
                impl = [[int(p), None] for p in np.arange(l0, l1)[b]]
            else:
                entry = vi[va[0] - lead]
                vp = np.arange(va[1])[entry]
                mv = unsym(ctx.lean(Sym("vixeval"), va[1], _enc_vix(entry)))
                ctx.eq("positions a value index reads", mv, [int(t) for t in np.atleast_1d(vp).tolist()])
                # NumPy's own pairing inside the block: assign the value positions through the block index
                sel = np.arange(l0, l1)[b]
                probe = np.full(l1 - l0, -1)
                try:
                    paired = np.broadcast_to(vp, sel.shape)
                    probe[b] = vp
                except ValueError as e:
                    ctx.fail("the value piece of a block does not fit the block's selection along an axis",
                             observed=[list(coords), ax, [int(t) for t in sel], [int(t) for t in np.atleast_1d(vp)], repr(e)[:80]])
                    return
                impl = [[int(p), int(q)] for p, q in zip(sel, paired)]
                last = {int(p): int(q) for p, q in impl}
                if any(probe[p - l0] != q for p, q in last.items()):
                    ctx.fail("NumPy's block assignment does not pair selection and piece position-wise", observed=probe.tolist())
                if va[1] == 1:
                    ctx.branch("vpieces-broadcast-axis")
                    if any(q != 0 for _, q in impl):
                        ctx.fail("a size-1 value axis is not read at index 0", observed=impl)
                if va[2]:
                    ctx.branch("vpieces-reversed-axis")
            ctx.eq("pairs a block assigns along an axis", models[ax][0][coords[ax]], impl)
    if nblk > 1:
        ctx.branch("vpieces-multiblock")
    if offset > 0:
        ctx.branch("vpieces-value-lower-rank")
    if any(isinstance(i, np.ndarray) for i in parsed):
        ctx.branch("vpieces-int-array")
    ctx.branch("vpieces-diffed")


CASES = {"maskplan": case_maskplan, "maskapi": case_maskapi, "vpieces": case_vpieces}


# --------------------------------------------------------------------------------------
# generators
# --------------------------------------------------------------------------------------

def _rand_shape(rng, maxn=4, maxd=3, zeros=0.08):
    nd = rng.randint(1, maxd)
    return [0 if rng.random() < zeros else rng.randint(1, maxn) for _ in range(nd)]


def _chunks_of(rng, s, zero_chunks=0.15):
    c = list(random_chunks(rng, s)) if s else [0]
    if rng.random() < zero_chunks:
        c.insert(rng.randrange(len(c) + 1), 0)
    return c


def _size(shape):
    n = 1
    for s in shape:
        n *= s
    return n


def generate(ctx):
    rng = ctx.rng
    thorough = ctx.thorough()
    # the documented example and the instances of the notes
    yield "maskplan", {"shape": [3, 4], "chunks": [[2, 1], [3, 1]], "mkind": "da", "mchunks": [[1, 2], [2, 2]],
                       "mask": [i % 3 == 0 for i in range(12)], "vkind": "int"}
    yield "maskplan", {"shape": [3], "chunks": [[3]], "mkind": "da", "mask": [True, True, False], "vkind": "count"}
    yield "maskplan", {"shape": [3, 4], "chunks": [[3], [4]], "mkind": "np", "mask": [i % 2 == 0 for i in range(12)], "vkind": "zerod"}
    # every chunking of the array x every chunking of the mask, n <= 4 (1-d), all masks for n <= 3
    for n in range(0, 5 if thorough else 4):
        for xc in compositions(n) if n else [(0,)]:
            for mc in compositions(n) if n else [(0,), (0, 0)]:
                if not thorough and rng.random() > (0.6 if n <= 3 else 0.25):
                    continue
                masks = list(itertools.product([False, True], repeat=n)) if n <= 3 else \
                    [tuple(rng.random() < 0.5 for _ in range(n)) for _ in range(3)]
                mask = list(rng.choice(masks))
                yield "maskplan", {"shape": [n], "chunks": [list(xc)], "mkind": "da", "mchunks": [list(mc)], "mask": mask,
                                   "vkind": rng.choice(["int", "zerod", "dask0d", "npscalar"])}
    for _ in range(ctx.n(110, 1500)):
        shape = _rand_shape(rng)
        chunks = [_chunks_of(rng, s) for s in shape]
        r = rng.random()
        c = {"shape": shape, "chunks": chunks, "vkind": rng.choice(["int", "int", "zerod", "dask0d", "npscalar", "float",
                                                                      "dask-from-x", "shape1", "count"])}
        if r < 0.55:
            c.update(mkind="da", mask=[rng.random() < 0.5 for _ in range(_size(shape))],
                     mchunks=[_chunks_of(rng, s) for s in shape] if rng.random() < 0.7 else None)
        elif r < 0.75:
            c.update(mkind="np", mask=[rng.random() < 0.5 for _ in range(_size(shape))])
        else:
            c.update(mkind="self", op=rng.choice(["gt", "le", "mod", "and", "not", "ne-self", "eq-self"]),
                     k=rng.randint(-1, max(1, _size(shape))))
        if c["vkind"] == "dask-from-x" and _size(shape) == 0:
            c["vkind"] = "int"
        if rng.random() < 0.08 and c["mkind"] != "self":
            # a mask of another shape: IndexError, or (1-d mask on an N-d array / 1-d NumPy mask) the setitem_array branch
            ms = list(shape)
            if rng.random() < 0.5 and len(ms) > 1:
                ms = ms[:1]
            else:
                ms[rng.randrange(len(ms))] += 1
            c.update(mshape=ms, mask=[rng.random() < 0.5 for _ in range(_size(ms))], mchunks=None, vkind="int")
            if c["mkind"] == "da":
                c["mchunks"] = [[s] for s in ms]
        yield "maskplan", c
    # more than 10 blocks along an axis
    for _ in range(ctx.n(3, 30)):
        nb = rng.randint(11, 14)
        xc = [rng.choice([1, 2]) for _ in range(nb)]
        n = sum(xc)
        yield "maskplan", {"shape": [n], "chunks": [xc], "mkind": "da", "mchunks": [list(random_chunks(rng, n))],
                           "mask": [rng.random() < 0.5 for _ in range(n)], "vkind": "int"}
    for _ in range(ctx.n(70, 1000)):
        shape = _rand_shape(rng, maxn=5, zeros=0.04)
        chunks = [_chunks_of(rng, s, 0.08) for s in shape]
        c = {"shape": shape, "chunks": chunks, "op": rng.choice(["gt", "le", "mod", "and", "not", "eq-self", "ne-self"]),
             "k": rng.randint(-2, max(1, _size(shape))), "vkind": rng.choice(["int", "float", "zerod", "dask0d", "dask-from-x"]),
             "src": rng.choice(["from_array", "from_array", "arith", "persist"]),
             "scheduler": rng.choice(["sync", "sync", "threads"]), "dtype": rng.choice([None, None, "float", "int8", "uint8"])}
        if rng.random() < 0.3:
            c["rechunk"] = [_chunks_of(rng, s, 0.0) for s in shape]
        if c["dtype"] == "float" and rng.random() < 0.4:
            c.update(op="isnan", nan=rng.randint(2, 4))
        if c["dtype"] == "uint8" and c["vkind"] in ("int", "float", "zerod", "dask0d"):
            c["vkind"] = "dask-from-x"      # NumPy >= 2 raises OverflowError for -7 into uint8
        if c["vkind"] == "float" and c["dtype"] != "float":
            c["vkind"] = "int"
        if c["vkind"] == "dask-from-x" and _size(shape) == 0:
            c["vkind"] = "int" if c["dtype"] != "uint8" else "zerod-pos"
        if c["vkind"] == "zerod-pos":
            continue
        yield "maskapi", c
    # (b) value pieces: the generator of section `plan` (NumPy indices), plus reversed / broadcast directed cases
    from props.c21 import _rand_case
    yield "vpieces", {"shape": [9], "chunks": [[4, 3, 2]], "index": [("slice", [7, 0, -2])], "vshape": [4]}
    yield "vpieces", {"shape": [9], "chunks": [[4, 3, 2]], "index": [("slice", [7, 0, -2])], "vshape": [1]}
    yield "vpieces", {"shape": [4, 5], "chunks": [[2, 2], [5]], "index": [("slice", [None, None, -1]), ("slice", [1, 3, None])],
                      "vshape": [4, 1]}
    for _ in range(ctx.n(160, 2500)):
        c = _rand_case(rng, dask_idx=False, zeros=0.0)
        if c and c["vshape"] is not None:
            yield "vpieces", c
    for _ in range(ctx.n(40, 600)):
        n = rng.randint(2, 9)
        ch = list(random_chunks(rng, n))
        st = rng.choice([None, -1, -2, -3])
        sl = [rng.choice([None] + list(range(-n, n))), rng.choice([None] + list(range(-n, n))), st]
        L = len(range(*slice(*sl).indices(n)))
        if L == 0:
            continue
        other = rng.randint(1, 3)
        form = rng.randrange(3)
        if form == 0:
            yield "vpieces", {"shape": [n], "chunks": [ch], "index": [("slice", sl)], "vshape": [rng.choice([1, L])]}
        elif form == 1:
            yield "vpieces", {"shape": [other, n], "chunks": [list(random_chunks(rng, other)), ch],
                              "index": [("slice", [None, None, rng.choice([None, -1])]), ("slice", sl)],
                              "vshape": rng.choice([[L], [1], [other, L], [1, L], [other, 1], [1, 1, L]])}
        else:
            ind = [rng.randrange(-other, other) for _ in range(rng.randint(1, 3))]
            yield "vpieces", {"shape": [n, other], "chunks": [ch, list(random_chunks(rng, other))],
                              "index": [("slice", sl), ("list", ind)],
                              "vshape": rng.choice([[L, len(ind)], [1, len(ind)], [L, 1], [len(ind)], [1]])}
